"""Shared front end for the xbasic_fixed_string rules (C01, C02): driver TU, member gathering, event classification."""
import re

from . import clangjson as cj
from . import ir
from . import flow
from . import linear
from .linear import Lin

LAYOUTS = {
    "packed": ("char", 16, "xtl::buffer | xtl::store_size"),
    "sizefield": ("char", 300, "xtl::buffer | xtl::store_size"),
    "strlen": ("char", 16, "xtl::buffer"),
}


def driver(insts):
    """insts: list of (tag, CT, N, ST expr, policy)"""
    out = ['#include "xtl/xbasic_fixed_string.hpp"', "#include <string>"]
    for tag, ct, n, st, pol in insts:
        out.append("template class xtl::xbasic_fixed_string<%s, %d, %s, xtl::string_policy::%s>;" % (ct, n, st, pol))
    out.append("namespace wxtl {")
    for tag, ct, n, st, pol in insts:
        out.append("using %s = xtl::xbasic_fixed_string<%s, %d, %s, xtl::string_policy::%s>;" % (tag, ct, n, st, pol))
        out.append("void use_%s(%s& s, const %s* f, const %s* l, std::basic_ostream<%s>& os, std::basic_istream<%s>& is) {" % (tag, tag, ct, ct, ct, ct))
        out.append("  %s a(f, l); a.assign(f, l); a.insert(a.cbegin(), f, l); a.append(f, l); a.replace(a.cbegin(), a.cend(), f, l);" % tag)
        out.append("  (void)(a + a); (void)(a + f); (void)(f + a); (void)(a + *f); (void)(*f + a); (void)(%s(a) + a); (void)(a + %s(a)); (void)(%s(a) + %s(a)); (void)(%s(a) + f); (void)(%s(a) + *f); (void)(f + %s(a)); (void)(*f + %s(a));" % ((tag,) * 8))
        out.append("  (void)(a == a); (void)(a != a); (void)(a < a); (void)(a <= a); (void)(a > a); (void)(a >= a);")
        out.append("  (void)(a == f); (void)(f == a); (void)(a != f); (void)(f != a); (void)(a < f); (void)(f < a); (void)(a <= f); (void)(f <= a); (void)(a > f); (void)(f > a); (void)(a >= f); (void)(f >= a);")
        out.append("  std::basic_string<%s> ss; (void)(a == ss); (void)(ss == a); (void)(a != ss); (void)(ss != a); (void)(a < ss); (void)(ss < a); (void)(a <= ss); (void)(ss <= a); (void)(a > ss); (void)(ss > a); (void)(a >= ss); (void)(ss >= a);" % ct)
        out.append("  (void)std::hash<%s>()(a); os << a; is >> a;" % tag)
        out.append("  xtl::getline(is, a); xtl::getline(is, a, %s('x')); xtl::getline(std::move(is), a); xtl::getline(std::move(is), a, %s('x'));" % (ct, ct))
        out.append("}")
    out.append("}")
    return "\n".join(out) + "\n"


class Str:
    """the members of one instantiation"""

    def __init__(self, d, tag, cls):
        self.d = d
        self.tag = tag
        self.cls = cls
        self.fns = []
        self.by_id = {}

    def label(self, fn):
        ps = ", ".join(simple_type(ir.wtype(p)) for p in ir.params(fn))
        q = " const" if re.search(r"\)\s*const", ir.qtype(fn)) else ""
        return "%s(%s)%s" % (fn.get("name"), ps, q)


def simple_type(q):
    q = re.sub(r"xtl::xbasic_fixed_string<[^>]*>::", "", q)
    q = re.sub(r"xtl::xbasic_fixed_string<[^>]*>", "self_type", q)
    q = q.replace("xtl::xbasic_fixed_string::", "")
    q = q.replace("std::basic_string<char>", "std::string")
    return q.strip()


def gather(d, insts):
    """-> {tag: Str}; instantiations are told apart by their template arguments (CT, N, ST, policy)"""
    want = {}
    for tag, ct, n, st, pol in insts:
        stv = 0
        for part in st.split("|"):
            stv |= {"xtl::buffer": 1, "xtl::pointer": 2, "xtl::store_size": 4, "xtl::is_const": 8}[part.strip()]
        want[(ct, str(n), str(stv), pol)] = tag
    out = {}
    for c in d.walk():
        if c.get("kind") != "ClassTemplateSpecializationDecl" or c.get("name") != "xbasic_fixed_string" or len(ir.kids(c)) < 20:
            continue
        ta = ir.template_args(c)
        alias = [y for y in ir.kids(c) if y.get("kind") == "TypeAliasDecl" and y.get("name") == "error_policy"]
        if len(ta) < 3 or not alias:
            continue
        m = re.search(r"string_policy::(\w+)<", ir.qtype(alias[0]))
        key = (ta[0], ta[1], ta[2], m.group(1) if m else "?")
        if key in want and want[key] not in out:
            out[want[key]] = Str(d, want[key], c)
    # member definitions: in-class declarations carry the bodies of instantiated members
    for f in ir.functions(d):
        if ir.is_template_pattern(d, f):
            continue
        c = ir.enclosing_class(d, f)
        for tag, s in out.items():
            if c is s.cls:
                s.fns.append(f)
                s.by_id[f.get("id")] = f
    return out


# ---------------------------------------------------------------------------------------------------------------------
# event classification on the instantiated AST
def is_this_base(n):
    n = ir.strip(n)
    return n.get("kind") == "CXXThisExpr"


def this_member_call(n):
    """name of the member of *this that n calls (implicit or explicit this), else None"""
    if n.get("kind") != "CXXMemberCallExpr":
        return None
    c = ir.strip(ir.ekids(n)[0])
    if c.get("kind") != "MemberExpr":
        return None
    b = ir.ekids(c)
    if b and not is_this_base(b[0]):
        return None
    return c.get("name")


def member_target(d, n):
    c = ir.strip(ir.ekids(n)[0])
    return d.by_id.get(c.get("referencedMemberDecl")) if c.get("kind") == "MemberExpr" else None


def storage_call(n):
    """m_storage.<name>(...) on *this -> name"""
    if n.get("kind") != "CXXMemberCallExpr":
        return None
    t = ir.sx(n)
    if t[0] == "call" and t[1][0] == "mem" and t[1][1] == ("mem", ("this",), "m_storage"):
        return t[1][2]
    return None


def policy_check(n):
    if n.get("kind") != "CallExpr":
        return None
    c = ir.strip(ir.ekids(n)[0])
    nm = (c.get("referencedDecl") or {}).get("name")
    return nm if nm in ("check_size", "check_add") else None


DERIVED_LEN = {"size", "length", "empty", "end", "cend", "rbegin", "crbegin", "back"}
BUFFER_ACCESS = {"data", "c_str", "begin", "cbegin", "end", "cend", "rbegin", "rend", "crbegin", "crend"}
WRITE_CALLS = {"assign": 0, "copy": None, "move": 0, "copy_backward": 2, "fill": 0, "fill_n": 0, "copy_n": 2}


def buffer_derived(t, locs=None):
    """does sx term t derive from *this's character buffer?"""
    for s in ir.subterms(t):
        if s[0] == "call" and s[1][0] == "mem" and s[1][1] == ("this",) and s[1][2] in BUFFER_ACCESS:
            return True
        if s[0] == "call" and s[1] == ("mem", ("mem", ("this",), "m_storage"), "buffer"):
            return True
        if locs and s[0] == "ref" and s[1] in locs:
            return True
    return False


def write_event(n, fn, buf_locals):
    """-> (kind, destination sx) if n writes characters of *this, else None"""
    k = n.get("kind")
    if k == "CallExpr":
        c = ir.strip(ir.ekids(n)[0])
        nm = (c.get("referencedDecl") or {}).get("name")
        if nm in WRITE_CALLS:
            args = ir.ekids(n)[1:]
            t = [ir.sx(a) for a in args]
            if nm == "copy":
                # traits_type::copy(dst, src, n) vs std::copy(first, last, dst): the traits form's third argument is a count
                from . import trange
                idx = 0 if (len(args) == 3 and trange.type_range(ir.qtype(args[2])) is not None) else 2
            else:
                idx = WRITE_CALLS[nm]
            if idx < len(t) and (buffer_derived(t[idx], buf_locals) or iter_param(t[idx], fn)):
                return (nm, t[idx])
        return None
    if k in ("BinaryOperator", "CompoundAssignOperator") and n.get("opcode", "").endswith("=") and n.get("opcode") not in ("==", "!=", "<=", ">="):
        lhs = ir.sx(ir.ekids(n)[0])
        if lhs[0] == "index" and buffer_derived(lhs[1], buf_locals):
            return ("store", lhs)
        if lhs[0] == "un" and lhs[1] == "*" and (buffer_derived(lhs[2], buf_locals) or iter_param(lhs[2], fn)):
            return ("store", lhs)
    return None


def iter_param(t, fn):
    """a const_iterator/iterator parameter (by contract an iterator into *this) possibly cast to a mutable pointer"""
    names = {p.get("name") for p in ir.params(fn) if re.search(r"const_iterator|::iterator|const_pointer", ir.wtype(p)) and "const_pointer" not in ir.wtype(p)}
    for s in ir.subterms(t):
        if s[0] == "ref" and s[1] in names:
            return True
    return False


def buffer_locals(fn):
    out = set()
    changed = True
    decls = [n for n in ir.walk_expr(fn) if n.get("kind") == "VarDecl" and ir.ekids(n) and "*" in ir.qtype(n)]
    while changed:
        changed = False
        for v in decls:
            if v.get("name") not in out and buffer_derived(ir.sx(ir.ekids(v)[-1]), out):
                out.add(v.get("name"))
                changed = True
    return out


def path_lin_facts(path_prefix, symmap):
    facts = []
    for st in path_prefix:
        if st[0] != "cond":
            continue
        t = ir.sx(st[1])
        if t[0] == "bin" and t[1] in linear.NEG:
            op = t[1] if st[2] else linear.NEG[t[1]]
            a, b = linear.lin(t[2], symmap), linear.lin(t[3], symmap)
            if a is not None and b is not None:
                facts += linear.atom_facts(op, a, b)
    return facts


def member_access(cls):
    """decl id -> 'public' | 'protected' | 'private' for the members of a class (order of AccessSpecDecl)"""
    out = {}
    cur = "private" if cls.get("tagUsed") == "class" else "public"
    for c in ir.kids(cls):
        if c.get("kind") == "AccessSpecDecl":
            cur = c.get("access", cur)
            continue
        out[c.get("id")] = cur
        for x in ir.kids(c):
            if x.get("kind") in ir.FUNC_KINDS:
                out[x.get("id")] = cur
    return out


def calls_private_helper(S, fn, access=None):
    """does fn call a non-public member function of the same class that has a body (a helper its obligations may have been moved into)?"""
    access = access or member_access(S.cls)
    for n in ir.walk_expr(fn):
        if this_member_call(n) is not None:
            t = member_target(S.d, n)
            if t is not None and ir.has_body(t) and access.get(t.get("id"), "public") != "public" and t.get("name") not in (
                    "check_index", "check_index_strict", "compare_impl", "update_null_termination"):
                return t
    return None


def local_sx(fn):
    """name -> sx of the initialiser for single-assignment locals"""
    assigned = set()
    out = {}
    for n in ir.walk_expr(fn):
        if n.get("kind") == "VarDecl" and ir.ekids(n):
            out[n.get("name")] = ir.sx(ir.ekids(n)[-1])
        if n.get("kind") in ("BinaryOperator", "CompoundAssignOperator") and n.get("opcode", "").endswith("=") and n.get("opcode") not in ("==", "!=", "<=", ">="):
            l = ir.strip(ir.ekids(n)[0])
            if l.get("kind") == "DeclRefExpr":
                assigned.add((l.get("referencedDecl") or {}).get("name"))
        if n.get("kind") == "UnaryOperator" and n.get("opcode") in ("++", "--"):
            l = ir.strip(ir.ekids(n)[0])
            if l.get("kind") == "DeclRefExpr":
                assigned.add((l.get("referencedDecl") or {}).get("name"))
    return {k: v for k, v in out.items() if k not in assigned}


def subst_locals(t, loc, depth=0):
    if not isinstance(t, tuple) or depth > 10:
        return t
    if t[0] == "cast":
        return subst_locals(t[3], loc, depth + 1)
    if t[0] == "ref" and t[1] in loc:
        return subst_locals(loc[t[1]], loc, depth + 1)
    return tuple(subst_locals(x, loc, depth + 1) if isinstance(x, tuple) else x for x in t)
