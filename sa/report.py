"""Instances, verdicts, known findings, evidence, exit codes."""
import json
import os
import sys
import time

VERIF = os.path.dirname(os.path.dirname(os.path.abspath(__file__)))
# self-tests on scratch copies (XTL_REPO set) write their evidence elsewhere so that the committed evidence always
# describes a run against /repo itself
EVDIR = os.environ.get("VERIF_EVIDENCE_DIR") or os.path.join(VERIF, "evidence")


def load_known():
    path = os.path.join(VERIF, "KNOWN_FINDINGS")
    out = []
    if os.path.exists(path):
        for line in open(path):
            line = line.strip()
            if line.startswith("{"):
                out.append(json.loads(line))
            # "fixed: ..." lines record repaired defects and suppress nothing
    return out


def load_floors():
    path = os.path.join(VERIF, "floors.json")
    return json.load(open(path)) if os.path.exists(path) else {}


class Report:
    def __init__(self, pid, tier, level, explanation, trusted_base=(), assumptions=()):
        self.pid = pid
        self.tier = tier
        self.level = level
        self.explanation = explanation
        self.trusted_base = list(trusted_base)
        self.assumptions = list(assumptions)
        self.t0 = time.time()
        self.instances = []      # dicts
        self.broken = []         # reasons
        self.rules = {}          # rule -> statement
        self.units = []          # what was analysed
        self.checker_cmds = []
        self.notes = []
        self.replay_filter = None

    # -- registering -------------------------------------------------------
    def rule(self, rid, statement):
        self.rules[rid] = statement

    def unit(self, desc):
        self.units.append(desc)

    def cmd(self, c):
        if c not in self.checker_cmds:
            self.checker_cmds.append(c)

    def note(self, s):
        self.notes.append(s)

    def add(self, rule, function, construct, verdict, where="", scenario="", detail="", nontrivial=True):
        assert verdict in ("holds", "violates", "inconclusive")
        self.instances.append(dict(rule=rule, function=function, construct=construct, verdict=verdict,
                                   where=where, scenario=scenario, detail=detail, nontrivial=nontrivial))

    def holds(self, rule, function, construct, **kw):
        self.add(rule, function, construct, "holds", **kw)

    def violates(self, rule, function, construct, **kw):
        self.add(rule, function, construct, "violates", **kw)

    def inconclusive(self, rule, function, construct, **kw):
        self.add(rule, function, construct, "inconclusive", **kw)

    def broke(self, reason):
        self.broken.append(reason)

    def counts_as(self, rule, n):
        """another rule has decided what `n` instances of `rule` decide on the usual form of the code (the floor of `rule` then refers to both)"""
        if not hasattr(self, "stand_ins"):
            self.stand_ins = {}
        self.stand_ins[rule] = self.stand_ins.get(rule, 0) + n

    # -- finishing ---------------------------------------------------------
    def finish(self):
        floors = load_floors()
        counts = {}
        for i in self.instances:
            counts[i["rule"]] = counts.get(i["rule"], 0) + 1
        for rid, n in getattr(self, "stand_ins", {}).items():
            counts[rid] = counts.get(rid, 0) + n
        for rid in self.rules:
            need = floors.get(rid)
            if need is None:
                continue
            if isinstance(need, dict):
                need = need.get(self.tier, need.get("quick", 0))
            if counts.get(rid, 0) < need:
                self.broke("rule %s matched %d instances, floor confirmed by hand is %d (anchor moved or vanished?)"
                           % (rid, counts.get(rid, 0), need))
        for i in self.instances:
            if i["verdict"] == "inconclusive":
                self.broke("rule %s: %s %s [%s] at %s is inconclusive: %s"
                           % (i["rule"], i["function"], i["construct"], i["scenario"], i["where"], i["detail"]))

        known = [k for k in load_known() if k.get("property") == self.pid and not k.get("fixed")]
        viols, knowns = [], []
        for i in self.instances:
            if i["verdict"] != "violates":
                continue
            hit = None
            for k in known:
                if (k.get("rule") == i["rule"] and k.get("function") == i["function"]
                        and k.get("construct") == i["construct"]
                        and k.get("scenario", "") in ("", i["scenario"])):
                    hit = k
                    break
            (knowns if hit else viols).append((i, hit))

        if self.replay_filter is not None:
            f = self.replay_filter
            viols = [(i, h) for i, h in viols if all(i.get(k) == f.get(k) for k in ("rule", "function", "construct", "scenario"))]

        os.makedirs(os.path.join(EVDIR, "replay"), exist_ok=True)
        seen = set()
        for i, k in knowns:
            key = (i["rule"], i["function"], i["construct"], k.get("scenario", ""))
            if key in seen:
                continue
            seen.add(key)
            print("KNOWN-FINDING: property=%s %s" % (self.pid, k.get("what", i["detail"])))
        n = 0
        for i, _ in viols:
            n += 1
            rp = os.path.join(EVDIR, "replay", "%s-%d.json" % (self.pid, n))
            with open(rp, "w") as f:
                json.dump(dict(property=self.pid, **i, rule_statement=self.rules.get(i["rule"], "")), f, indent=1)
            print("%s: rule %s violated in %s: %s" % (i["where"], i["rule"], i["function"], i["construct"]))
            if i["scenario"]:
                print("    scenario: %s" % i["scenario"])
            if i["detail"]:
                print("    %s" % i["detail"])
            print("    rule: %s" % self.rules.get(i["rule"], ""))
            print("VIOLATION property=%s replay=%s" % (self.pid, rp))
        for b in self.broken:
            print("ANALYSIS-BROKEN property=%s %s" % (self.pid, b))

        self._write_evidence(len(viols), len(knowns), counts)
        wall = time.time() - self.t0
        summ = ", ".join("%s=%d" % (r, counts.get(r, 0)) for r in self.rules)
        print("[%s %s] %d rule instances (%s); %d violations, %d known findings, %d analysis problems; %.1fs"
              % (self.pid, self.tier, len(self.instances), summ, len(viols), len(seen), len(self.broken), wall))
        if viols:
            return 1
        if self.broken:
            return 2
        return 0

    def _write_evidence(self, nviol, nknown, counts):
        distinct = set()
        for i in self.instances:
            if i["nontrivial"]:
                distinct.add((i["rule"], i["function"], i["construct"], i["scenario"]))
        samples = []
        per_rule = {}
        for i in self.instances:
            c = per_rule.get(i["rule"], 0)
            if c < 3:
                per_rule[i["rule"]] = c + 1
                samples.append({k: i[k] for k in ("rule", "function", "construct", "scenario", "verdict", "where", "detail") if i[k] != ""})
        nobl = len(self.instances)
        ndis = sum(1 for i in self.instances if i["verdict"] == "holds")
        cov = {
            "evaluations": nobl,
            "distinct_nontrivial": len(distinct),
            "rule": "one evaluation = one rule instance (function x site x abstract scenario) decided from the AST / "
                    "compiler verdict of the current tree; non-trivial = the instance has a site-specific obligation "
                    "(not a mere presence count); distinct = distinct (rule, function, construct, scenario)",
            "samples": samples[:40],
            "obligations": nobl,
            "discharged": ndis,
            "checker_cmd": "; ".join(self.checker_cmds)[:4000] or "python3 (sa/) over clang -ast-dump=json",
            "trusted_base": self.trusted_base,
            "explanation": self.explanation,
            "exhaustive": self.level == "proof",
            "rules": {r: {"statement": s, "instances": counts.get(r, 0)} for r, s in self.rules.items()},
            "units_analysed": self.units[:200],
            "known_findings_reported": nknown,
            "analysis_problems": self.broken[:20],
            "notes": self.notes[:40],
        }
        ev = {
            "property_id": self.pid,
            "tier": self.tier,
            "seed": int(os.environ.get("VERIF_SEED", "0") or 0),
            "level": self.level,
            "coverage": cov,
            "assumptions": self.assumptions,
            "wall_s": round(time.time() - self.t0, 2),
            "violations": nviol,
        }
        with open(os.path.join(EVDIR, self.pid + ".json"), "w") as f:
            json.dump(ev, f, indent=1)


class Renamed:
    """forwards to a Report with rule ids renamed: a rule of a sibling property that is a necessary condition of this one is run
    here under this property's own id (the statement registered by the sibling is replaced by `statements`)"""
    def __init__(self, rep, mapping, statements=None):
        self._rep, self._map, self._st = rep, mapping, statements or {}

    def _r(self, r):
        return self._map.get(r, r)

    def rule(self, rid, statement):
        rid2 = self._r(rid)
        return self._rep.rule(rid2, self._st.get(rid2, statement))

    def add(self, rule, *a, **k):
        return self._rep.add(self._r(rule), *a, **k)

    def holds(self, rule, *a, **k):
        return self._rep.holds(self._r(rule), *a, **k)

    def violates(self, rule, *a, **k):
        return self._rep.violates(self._r(rule), *a, **k)

    def inconclusive(self, rule, *a, **k):
        return self._rep.inconclusive(self._r(rule), *a, **k)

    def counts_as(self, rule, n):
        return self._rep.counts_as(self._r(rule), n)

    def __getattr__(self, name):
        return getattr(self._rep, name)

