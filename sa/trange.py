"""Type-based interval evaluation of integer expressions (resolved AST, x86-64 LP64)."""
from . import ir

INT_TYPES = {
    "bool": (0, 1), "char": (-128, 127), "signed char": (-128, 127), "unsigned char": (0, 255),
    "short": (-2 ** 15, 2 ** 15 - 1), "unsigned short": (0, 2 ** 16 - 1), "int": (-2 ** 31, 2 ** 31 - 1),
    "unsigned int": (0, 2 ** 32 - 1), "long": (-2 ** 63, 2 ** 63 - 1), "unsigned long": (0, 2 ** 64 - 1),
    "long long": (-2 ** 63, 2 ** 63 - 1), "unsigned long long": (0, 2 ** 64 - 1),
    "char16_t": (0, 2 ** 16 - 1), "char32_t": (0, 2 ** 32 - 1), "wchar_t": (-2 ** 31, 2 ** 31 - 1),
}
ALIASES = {"unsigned": "unsigned int", "std::size_t": "unsigned long", "size_t": "unsigned long", "std::ptrdiff_t": "long",
           "std::uint8_t": "unsigned char", "std::uint16_t": "unsigned short", "std::uint32_t": "unsigned int", "std::uint64_t": "unsigned long"}


def type_range(q):
    q = (q or "").replace("const ", "").replace("volatile ", "").replace(" &", "").replace("&", "").strip()
    q = ALIASES.get(q, q)
    return INT_TYPES.get(q)


def interval(n, env=None):
    """interval of expression node n; env: decl id -> (lo, hi) for variables with known ranges. None if unknown."""
    env = env or {}
    k = n.get("kind")
    ks = ir.ekids(n)
    if k in ir.WRAPPERS and ks:
        return interval(ks[-1], env)
    if k in ("ImplicitCastExpr", "CXXStaticCastExpr", "CXXFunctionalCastExpr", "CStyleCastExpr"):
        ck = n.get("castKind")
        inner = interval(ks[-1], env) if ks else None
        if ck in ("LValueToRValue", "NoOp"):
            return inner if inner is not None else type_range(ir.qtype(n))
        if ck in ("IntegralCast", "IntegralToBoolean", "BooleanToSignedIntegral"):
            tr = type_range(ir.qtype(n))
            if tr is None:
                return None
            if inner is None:
                return tr
            if tr[0] <= inner[0] and inner[1] <= tr[1]:
                return inner
            return tr        # may wrap: whole range of the target type
        return type_range(ir.qtype(n))
    if k == "IntegerLiteral":
        v = int(n["value"])
        return (v, v)
    if k == "CharacterLiteral":
        v = int(n["value"])
        return (v, v)
    if k == "CXXBoolLiteralExpr":
        v = 1 if n.get("value") else 0
        return (v, v)
    if k == "DeclRefExpr":
        rid = (n.get("referencedDecl") or {}).get("id")
        if rid in env:
            return env[rid]
        by_id = env.get("__by_id__") if isinstance(env, dict) else None
        tr = type_range(ir.qtype(n))
        if by_id is not None and rid not in env.get("__busy__", ()):
            dec = by_id.get(rid)
            # a const local is the value of its initialiser, converted to the local's type
            if dec is not None and dec.get("kind") == "VarDecl" and ir.qtype(dec).lstrip().startswith("const ") and ir.ekids(dec) and "&" not in ir.qtype(dec) and "*" not in ir.qtype(dec):
                env2 = dict(env)
                env2["__busy__"] = set(env.get("__busy__", ())) | {rid}
                iv = interval(ir.ekids(dec)[-1], env2)
                if iv is not None and tr is not None:
                    return iv if (tr[0] <= iv[0] and iv[1] <= tr[1]) else tr
        return tr
    if k == "UnaryOperator":
        op = n.get("opcode")
        lits = env.get("__lits__") if isinstance(env, dict) else None
        if op == "*" and lits:
            b0 = ir.strip(ks[0])
            if b0.get("kind") == "DeclRefExpr" and (b0.get("referencedDecl") or {}).get("id") in lits:
                body = [ord(ch) for ch in lits[(b0.get("referencedDecl") or {}).get("id")]] + [0]
                return (min(body), max(body))
        a = interval(ks[0], env)
        if op == "-" and a is not None:
            return (-a[1], -a[0])
        if op == "+":
            return a
        return type_range(ir.qtype(n))
    if k == "BinaryOperator":
        op = n.get("opcode")
        a = interval(ks[0], env)
        b = interval(ks[1], env)
        tr = type_range(ir.qtype(n))
        if op == "&" and a is not None and b is not None:
            # x & m with a non-negative side is within [0, that side's max]
            cands = [x[1] for x in (a, b) if x[0] >= 0]
            if cands:
                return (0, min(cands))
            return tr
        if a is None or b is None:
            return tr
        res = None
        if op == "+":
            res = (a[0] + b[0], a[1] + b[1])
        elif op == "-":
            res = (a[0] - b[1], a[1] - b[0])
        elif op == "*":
            c = [a[0] * b[0], a[0] * b[1], a[1] * b[0], a[1] * b[1]]
            res = (min(c), max(c))
        elif op == "%" and b[0] > 0:
            res = (0, b[1] - 1) if a[0] >= 0 else (-(b[1] - 1), b[1] - 1)
        elif op == ">>" and a[0] >= 0 and b[0] >= 0:
            res = (a[0] >> b[1], a[1] >> b[0])
        elif op == "/" and b[0] > 0 and a[0] >= 0:
            res = (a[0] // b[1], a[1] // b[0])
        if res is None:
            return tr
        if tr is not None and not (tr[0] <= res[0] and res[1] <= tr[1]):
            return tr
        return res
    if k == "ArraySubscriptExpr":
        base = ir.strip(ks[0])
        lits = env.get("__lits__") if isinstance(env, dict) else None
        if lits and base.get("kind") == "DeclRefExpr" and (base.get("referencedDecl") or {}).get("id") in lits:
            v = lits[(base.get("referencedDecl") or {}).get("id")]
            body = [ord(ch) for ch in v] + [0]
            return (min(body), max(body))
        if base.get("kind") == "StringLiteral":
            v = base.get("value", "")
            if len(v) >= 2 and v[0] == '"' and v[-1] == '"' and "\\" not in v and all(32 <= ord(ch) < 127 for ch in v):
                body = [ord(ch) for ch in v[1:-1]] + [0]
                return (min(body), max(body))
        return type_range(ir.qtype(n))
    if k == "CallExpr" and isinstance(env, dict) and env.get("__by_id__") is not None and ks and env.get("__depth__", 0) < 3:
        c = ir.strip(ks[0])
        tgt = env["__by_id__"].get((c.get("referencedDecl") or {}).get("id")) if c.get("kind") == "DeclRefExpr" else None
        b = ir.body(tgt) if tgt is not None else None
        if b is not None:
            st = ir.kids(b)
            if len(st) == 1 and st[0].get("kind") == "ReturnStmt" and ir.ekids(st[0]):
                env2 = dict(env)
                env2["__depth__"] = env.get("__depth__", 0) + 1
                iv = interval(ir.ekids(st[0])[0], env2)      # parameters keep their type range: sound for any argument
                tr = type_range(ir.qtype(n))
                if iv is not None and tr is not None and tr[0] <= iv[0] and iv[1] <= tr[1]:
                    return iv
        return type_range(ir.qtype(n))
    if k == "ConditionalOperator":
        a = interval(ks[1], env)
        b = interval(ks[2], env)
        if a is None or b is None:
            return None
        return (min(a[0], b[0]), max(a[1], b[1]))
    return type_range(ir.qtype(n))


def for_loop_var_range(for_stmt):
    """`for (T i = a; i < b; ++i)` with literal bounds -> (decl id, (a, b-1)); else None"""
    ks = [c for c in for_stmt.get("inner", ()) if isinstance(c, dict)]
    # ForStmt children: init, condvar(empty {}), cond, inc, body  (empty dicts are dropped by the filter above -> use raw)
    raw = for_stmt.get("inner", [])
    if len(raw) < 5:
        return None
    init, cond, inc = raw[0], raw[2], raw[3]
    if not (isinstance(init, dict) and isinstance(cond, dict) and isinstance(inc, dict)):
        return None
    if init.get("kind") != "DeclStmt":
        return None
    vds = [c for c in ir.kids(init) if c.get("kind") == "VarDecl"]
    if len(vds) != 1:
        return None
    vd = vds[0]
    iv = [c for c in ir.ekids(vd)]
    if not iv:
        return None
    a = interval(iv[-1])
    if a is None or a[0] != a[1]:
        return None
    c = ir.strip(cond)
    # `for (T i = N; i-- > 0;)`: inside the body i runs over N-1 .. 0
    if c.get("kind") == "BinaryOperator" and c.get("opcode") in (">", "!=") and (not isinstance(inc, dict) or not inc.get("kind")):
        l0, r0 = ir.ekids(c)
        ls0 = ir.strip(l0)
        rz = interval(r0)
        if ls0.get("kind") == "UnaryOperator" and ls0.get("opcode") == "--" and ls0.get("isPostfix") and rz == (0, 0):
            v0 = ir.strip(ir.ekids(ls0)[0])
            if v0.get("kind") == "DeclRefExpr" and (v0.get("referencedDecl") or {}).get("id") == vd.get("id") and a[0] >= 1:
                return vd.get("id"), (0, a[0] - 1)
    if c.get("kind") != "BinaryOperator" or c.get("opcode") not in ("<", "<=", "!="):
        return None
    l, r = ir.ekids(c)
    ls = ir.strip(l)
    if ls.get("kind") != "DeclRefExpr" or (ls.get("referencedDecl") or {}).get("id") != vd.get("id"):
        return None
    b = interval(r)
    if b is None or b[0] != b[1]:
        return None
    i = ir.strip(inc)
    parts = []

    def flat(x):
        x = ir.strip(x)
        if x.get("kind") == "BinaryOperator" and x.get("opcode") == ",":
            for y in ir.ekids(x):
                flat(y)
        else:
            parts.append(x)
    flat(i)
    mine = [x for x in parts if x.get("kind") == "UnaryOperator" and x.get("opcode") == "++" and
            (ir.strip(ir.ekids(x)[0]).get("referencedDecl") or {}).get("id") == vd.get("id")]
    if len(mine) != 1:
        return None
    hi = b[0] if c["opcode"] == "<=" else b[0] - 1
    return vd.get("id"), (a[0], hi)
