"""Bit provenance of straight-line integer expressions: which input bit ends up in which bit of the value.

A value is a list of bit sources, least significant first, as wide as its type:
    0 / 1              a constant bit
    (k, j)             bit j of input byte k
    ("or", a, b)       two different non-constant sources meet in one bit (an OR of a sign copy with a data bit, overlapping fields)
    None               not tracked
Conversions follow the casts clang recorded: widening a signed value copies its top bit (a plain `char` is signed here), widening an
unsigned one fills with 0, narrowing drops the high bits.  Shifts by constants move the sources (>> of a signed value copies the top
bit), & | ^ combine them bitwise.  Nothing is executed; this is a dataflow over one expression tree and the initialisers of the
single-assignment locals it mentions.
"""
from . import ir, ceval


class Unknown(Exception):
    pass


def type_shape(q):
    q = (q or "").replace("const ", "").replace("volatile ", "").strip()
    if q == "bool":
        return 1, False
    r = ceval.rng(q)
    if r is None:
        raise Unknown("type %s" % q)
    return (r[1] - r[0] + 1).bit_length() - 1, r[0] < 0


def const_bits(v, w):
    return [(v >> i) & 1 for i in range(w)]


def convert(bits, signed, w2):
    w = len(bits)
    if w2 <= w:
        return bits[:w2]
    fill = bits[-1] if signed else 0
    return bits + [fill] * (w2 - w)


def bor(a, b):
    if a == 0:
        return b
    if b == 0:
        return a
    if a == 1 or b == 1:
        return 1
    if a == b:
        return a
    if a is None or b is None:
        return None
    return ("or", a, b)


def band(a, b):
    if a == 0 or b == 0:
        return 0
    if a == 1:
        return b
    if b == 1:
        return a
    if a == b:
        return a
    return None


class Prov:
    def __init__(self, d, byte_of, locals_init):
        self.d = d
        self.byte_of = byte_of            # node -> byte key k if the node reads one input element, else None
        self.linit = locals_init          # decl id -> initialiser node (single-assignment locals)
        self.depth = 0

    def ev(self, n):
        """-> (bits, signed)"""
        k = n.get("kind")
        ks = ir.ekids(n)
        if k in ir.WRAPPERS and ks:
            return self.ev(ks[-1])
        kb = self.byte_of(n)
        if kb is not None:
            w, s = type_shape(ir.qtype(n))
            return [(kb, j) for j in range(8)][:w] + [0] * max(0, w - 8), s
        if k in ("IntegerLiteral", "CharacterLiteral"):
            w, s = type_shape(ir.qtype(n))
            return const_bits(int(n["value"]), w), s
        if k in ("ImplicitCastExpr", "CXXStaticCastExpr", "CXXFunctionalCastExpr", "CStyleCastExpr"):
            ck = n.get("castKind")
            b, s = self.ev(ks[-1])
            if ck in ("LValueToRValue", "NoOp"):
                return b, s
            if ck == "IntegralCast":
                w2, s2 = type_shape(ir.qtype(n))
                return convert(b, s, w2), s2
            raise Unknown("cast kind %s" % ck)
        if k == "DeclRefExpr":
            rid = (n.get("referencedDecl") or {}).get("id")
            if rid in self.linit and self.depth < 8:
                self.depth += 1
                try:
                    b, s = self.ev(self.linit[rid])
                finally:
                    self.depth -= 1
                decl = self.d.by_id.get(rid)
                w2, s2 = type_shape(ir.qtype(decl))
                return convert(b, s, w2), s2
            try:
                v = ceval.ev(n, ceval.Ctx(self.d))
            except (ceval.Unknown, ceval.UB):
                raise Unknown("value of `%s`" % (n.get("referencedDecl") or {}).get("name"))
            w, s = type_shape(ir.qtype(n))
            return const_bits(v, w), s
        if k == "BinaryOperator":
            op = n.get("opcode")
            w, s = type_shape(ir.qtype(n))
            if op in ("<<", ">>"):
                a, sa = self.ev(ks[0])
                try:
                    c = ceval.ev(ks[1], ceval.Ctx(self.d))
                except (ceval.Unknown, ceval.UB):
                    raise Unknown("shift by a non-constant")
                a = convert(a, sa, w)
                if not 0 <= c < w:
                    raise Unknown("shift by %d in a %d-bit type" % (c, w))
                if op == "<<":
                    return ([0] * c + a)[:w], s
                fill = a[-1] if s else 0
                return a[c:] + [fill] * c, s
            if op in ("&", "|", "^", "+"):
                a, sa = self.ev(ks[0])
                b, sb = self.ev(ks[1])
                a, b = convert(a, sa, w), convert(b, sb, w)
                if op == "&":
                    return [band(x, y) for x, y in zip(a, b)], s
                if op == "+" or op == "^":
                    # an addition / xor of fields that do not overlap is their union
                    if any(x != 0 and y != 0 for x, y in zip(a, b)):
                        raise Unknown("`%s` of overlapping fields" % op)
                return [bor(x, y) for x, y in zip(a, b)], s
            raise Unknown("operator %s" % op)
        raise Unknown("expression kind %s" % k)


def show_bit(b):
    if b in (0, 1):
        return str(b)
    if b is None:
        return "?"
    if b[0] == "or":
        return "(%s | %s)" % (show_bit(b[1]), show_bit(b[2]))
    return "b%s.%d" % (b[0], b[1])
