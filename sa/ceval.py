"""Exact constant evaluation of side-effect-free integer expressions of the resolved AST (x86-64 LP64 conversion rules).

Used to decide small helper formulas (masks, block/bit indices, length encodings) over the *complete finite domain* of
the quantity they depend on (a bit offset 0..W-1, a capacity 0..N): every implicit conversion clang recorded is applied,
so promotions of narrow block types, wrap-around of unsigned arithmetic and shift-width overflow are all visible.
Nothing of the analysed program is compiled or run: only single expressions / single-return helpers are folded; statements
with loops or stores are never interpreted here.
"""
from . import ir
from . import trange


class Unknown(Exception):
    """the expression is outside the folded fragment"""


class UB(Exception):
    """the expression has undefined behaviour for these operand values (shift >= width, signed overflow, /0)"""


SIZEOF = {"bool": 1, "char": 1, "signed char": 1, "unsigned char": 1, "short": 2, "unsigned short": 2, "int": 4, "unsigned int": 4,
          "long": 8, "unsigned long": 8, "long long": 8, "unsigned long long": 8, "char16_t": 2, "char32_t": 4, "wchar_t": 4,
          "float": 4, "double": 8}


def rng(q):
    r = trange.type_range(q)
    return r


def conv(v, q):
    """value v converted to integer type q (modular for unsigned, implementation-defined-but-modular for signed)"""
    q = (q or "").replace("const ", "").replace("volatile ", "").strip()
    if q == "bool":
        return 1 if v else 0
    r = rng(q)
    if r is None:
        raise Unknown("conversion to non-integer type %s" % q)
    lo, hi = r
    width = hi - lo + 1
    return (v - lo) % width + lo


def checked(v, q, what):
    """result of an arithmetic operation performed in type q: unsigned wraps, signed overflow is UB"""
    q = (q or "").replace("const ", "").strip()
    if q == "bool":
        return 1 if v else 0
    r = rng(q)
    if r is None:
        raise Unknown("arithmetic in non-integer type %s" % q)
    if r[0] == 0:
        return v % (r[1] + 1)
    if not (r[0] <= v <= r[1]):
        raise UB("signed overflow in %s (%s)" % (what, q))
    return v


class Ctx:
    """what the folded expression may refer to"""

    def __init__(self, dump, env=None, members=None, depth=0):
        self.d = dump
        self.env = dict(env or {})          # decl id -> int
        self.members = dict(members or {})  # member name of *this -> int
        self.depth = depth
        self.ub = []                        # UB found inside an otherwise evaluated expression
        self.arrays = {}                    # member array name -> {index: raw element value} (read through any pointer cast)
        self.objects = {}                   # name of another object (parameter) -> {member: value}
        self.call_values = {}               # ir.sx(call) -> value, for calls the folding cannot see through (m_buffer.size())


def _callee_decl(ctx, n):
    ks = ir.ekids(n)
    c = ir.strip(ks[0])
    rid = None
    if c.get("kind") == "MemberExpr":
        rid = c.get("referencedMemberDecl")
    elif c.get("kind") == "DeclRefExpr":
        rid = (c.get("referencedDecl") or {}).get("id")
    fn = ctx.d.by_id.get(rid) if rid else None
    return fn, c


def _single_return(fn):
    b = ir.body(fn)
    if b is None:
        return None, []
    stmts = ir.kids(b)
    decls = []
    for s in stmts[:-1]:
        if s.get("kind") == "DeclStmt":
            decls += [v for v in ir.kids(s) if v.get("kind") == "VarDecl"]
        else:
            return None, []
    if not stmts or stmts[-1].get("kind") != "ReturnStmt":
        return None, []
    return stmts[-1], decls


def _straight_line(fn, args, ctx, preset=None):
    """a helper whose body is a straight line of local declarations, assignments to its own locals / value parameters and a final return
    (a SWAR popcount, a mask built in steps): executed statement by statement with the conversions clang recorded"""
    b = ir.body(fn)
    if b is None:
        raise Unknown("callee %s has no body" % fn.get("name"))
    ps = ir.params(fn)
    if len(args) > len(ps):
        raise Unknown("argument count")
    sub = Ctx(ctx.d, {}, ctx.members, ctx.depth + 1)
    sub.arrays, sub.objects, sub.call_values = ctx.arrays, ctx.objects, ctx.call_values
    for p, a in zip(ps, args):
        if "&" in ir.qtype(p) and "const" not in ir.qtype(p):
            raise Unknown("reference parameter of %s" % fn.get("name"))
        sub.env[p.get("id")] = conv(ev(a, ctx), ir.qtype(p)) if rng(ir.qtype(p)) else ev(a, ctx)
    if preset:
        sub.env.update(preset)
    own = {p.get("id") for p in ps}
    for s_ in ir.kids(b):
        k = s_.get("kind")
        if k == "DeclStmt":
            for v in ir.kids(s_):
                if v.get("kind") == "VarDecl":
                    if not ir.ekids(v):
                        raise Unknown("uninitialised local")
                    sub.env[v.get("id")] = conv(ev(ir.ekids(v)[-1], sub), ir.qtype(v))
                    own.add(v.get("id"))
            continue
        if k == "ReturnStmt":
            rk = ir.ekids(s_)
            if not rk:
                raise Unknown("void helper")
            v = ev(rk[0], sub)
            ctx.ub += sub.ub
            return v
        if k in ("NullStmt", "TypeAliasDecl", "StaticAssertDecl"):
            continue
        n = ir.strip(s_)
        if n.get("kind") in ("BinaryOperator", "CompoundAssignOperator") and (n.get("opcode") or "").endswith("=") and n.get("opcode") not in ("==", "!=", "<=", ">="):
            lhs = ir.strip(ir.ekids(n)[0])
            rid = (lhs.get("referencedDecl") or {}).get("id") if lhs.get("kind") == "DeclRefExpr" else None
            if rid not in own:
                raise Unknown("store to something that is not a local of %s" % fn.get("name"))
            rhs = ev(ir.ekids(n)[1], sub)
            op = n.get("opcode")
            if op == "=":
                val = rhs
            else:
                ctype = (n.get("computeResultType") or {}).get("qualType") or ir.qtype(n)
                ltype = (n.get("computeLHSType") or {}).get("qualType") or ctype
                cur = conv(sub.env[rid], ltype)
                o = op[:-1]
                if o in ("<<", ">>"):
                    r = rng(ltype)
                    width = (r[1] - r[0] + 1).bit_length() - 1
                    if rhs < 0 or rhs >= width:
                        raise UB("shift by %d in a %d-bit type" % (rhs, width))
                    val = conv(cur << rhs, ctype) if o == "<<" else cur >> rhs
                elif o in ("+", "-", "*"):
                    val = checked({"+": cur + rhs, "-": cur - rhs, "*": cur * rhs}[o], ctype, o)
                elif o in ("&", "|", "^"):
                    val = conv({"&": cur & rhs, "|": cur | rhs, "^": cur ^ rhs}[o], ctype)
                else:
                    raise Unknown("compound operator %s" % op)
            sub.env[rid] = conv(val, ir.qtype(lhs))
            continue
        raise Unknown("statement %s in helper %s" % (k, fn.get("name")))
    raise Unknown("helper %s does not end in a return" % fn.get("name"))


def ev(n, ctx):
    k = n.get("kind")
    ks = ir.ekids(n)
    if k == "ConstantExpr" and "value" in n:
        try:
            return int(n["value"])
        except (TypeError, ValueError):
            pass
    if k in ir.WRAPPERS and ks:
        return ev(ks[-1], ctx)
    if k == "IntegerLiteral" or k == "CharacterLiteral":
        return int(n["value"])
    if k == "CXXBoolLiteralExpr":
        return 1 if n.get("value") else 0
    if k == "StringLiteral":
        return 1
    if k in ("ImplicitCastExpr", "CXXStaticCastExpr", "CXXFunctionalCastExpr", "CStyleCastExpr"):
        ck = n.get("castKind")
        v = ev(ks[-1], ctx)
        if ck in ("LValueToRValue", "NoOp"):
            return v
        if ck in ("ArrayToPointerDecay", "PointerToBoolean") and ir.strip(ks[-1]).get("kind") == "StringLiteral":
            return 1            # the address of a string literal (`cond && "message"` in an assertion): not null
        if ck in ("IntegralCast", "IntegralToBoolean", "BooleanToSignedIntegral"):
            return conv(v, ir.qtype(n))
        raise Unknown("cast kind %s" % ck)
    if k == "DeclRefExpr":
        rd = n.get("referencedDecl") or {}
        rid = rd.get("id")
        if rid in ctx.env:
            return ctx.env[rid]
        decl = ctx.d.by_id.get(rid)
        if decl is not None and decl.get("kind") == "VarDecl" and ir.ekids(decl) and ("constexpr" in decl or decl.get("constexpr") or "const" in ir.qtype(decl)):
            return conv(ev(ir.ekids(decl)[-1], Ctx(ctx.d)), ir.qtype(decl))
        if rd.get("kind") == "NonTypeTemplateParmDecl":
            raise Unknown("template parameter %s" % rd.get("name"))
        raise Unknown("reference to %s" % rd.get("name"))
    if k == "MemberExpr":
        base = ir.strip(ks[0]) if ks else None
        if base is None or base.get("kind") == "CXXThisExpr":
            nm = n.get("name")
            if nm in ctx.members:
                return ctx.members[nm]
            decl = ctx.d.by_id.get(n.get("referencedMemberDecl"))
            if decl is not None and decl.get("kind") == "VarDecl" and ir.ekids(decl):
                return conv(ev(ir.ekids(decl)[-1], Ctx(ctx.d)), ir.qtype(decl))
            raise Unknown("member %s" % nm)
        if base is not None and base.get("kind") == "DeclRefExpr":
            on = (base.get("referencedDecl") or {}).get("name")
            if on in ctx.objects and n.get("name") in ctx.objects[on]:
                return ctx.objects[on][n.get("name")]
        raise Unknown("member of another object")
    if k == "ArraySubscriptExpr":
        base = ks[0]
        while base.get("kind") in ("ImplicitCastExpr", "CXXReinterpretCastExpr", "CXXStaticCastExpr", "CStyleCastExpr", "ParenExpr", "CXXConstCastExpr") and ir.ekids(base):
            base = ir.ekids(base)[-1]
        if base.get("kind") == "MemberExpr" and base.get("name") in ctx.arrays:
            idx = ev(ks[1], ctx)
            mem = ctx.arrays[base.get("name")]
            if idx not in mem:
                raise Unknown("read of element %s of %s, which was not written" % (idx, base.get("name")))
            return conv(mem[idx], ir.qtype(n))
        raise Unknown("subscript of %s" % base.get("kind"))
    if k == "UnaryExprOrTypeTraitExpr" and n.get("name") == "sizeof":
        t = (n.get("argType") or {})
        q = t.get("desugaredQualType") or t.get("qualType")
        if not q and ks:
            # sizeof expression: the type of the operand as written (arrays do not decay here)
            q = ir.qtype(ks[0])
        if q in SIZEOF:
            return SIZEOF[q]
        import re as _re
        m = _re.match(r"^(?:const\s+)?([A-Za-z_][A-Za-z0-9_ :]*?)\s*\[(\d+)\]$", q or "")
        if m and m.group(1).replace("const ", "").strip() in SIZEOF:
            return SIZEOF[m.group(1).replace("const ", "").strip()] * int(m.group(2))
        raise Unknown("sizeof(%s)" % q)
    if k == "UnaryOperator":
        op = n.get("opcode")
        v = ev(ks[0], ctx)
        q = ir.qtype(n)
        if op == "~":
            return conv(~v, q)
        if op == "-":
            return checked(-v, q, "unary -")
        if op == "+":
            return v
        if op == "!":
            return 0 if v else 1
        raise Unknown("unary %s" % op)
    if k == "BinaryOperator":
        op = n.get("opcode")
        if op == "&&":
            return 1 if (ev(ks[0], ctx) and ev(ks[1], ctx)) else 0
        if op == "||":
            return 1 if (ev(ks[0], ctx) or ev(ks[1], ctx)) else 0
        if op == ",":
            return ev(ks[1], ctx)
        a = ev(ks[0], ctx)
        b = ev(ks[1], ctx)
        q = ir.qtype(n)
        if op == "+":
            return checked(a + b, q, "+")
        if op == "-":
            return checked(a - b, q, "-")
        if op == "*":
            return checked(a * b, q, "*")
        if op in ("/", "%"):
            if b == 0:
                raise UB("division by zero")
            qv = abs(a) // abs(b) * (1 if (a >= 0) == (b >= 0) else -1)
            return checked(qv, q, "/") if op == "/" else checked(a - qv * b, q, "%")
        if op in ("<<", ">>"):
            r = rng(ir.qtype(ks[0]))
            if r is None:
                raise Unknown("shift of non-integer")
            width = (r[1] - r[0] + 1).bit_length() - 1
            if b < 0 or b >= width:
                raise UB("shift by %d in a %d-bit type" % (b, width))
            if op == "<<":
                return conv(a << b, q)        # negative left operand: modular (C++20 semantics, what every target does)
            return a >> b
        if op == "&":
            return conv(a & b, q)
        if op == "|":
            return conv(a | b, q)
        if op == "^":
            return conv(a ^ b, q)
        if op in ("<", "<=", ">", ">=", "==", "!="):
            return 1 if {"<": a < b, "<=": a <= b, ">": a > b, ">=": a >= b, "==": a == b, "!=": a != b}[op] else 0
        raise Unknown("binary %s" % op)
    if k == "ConditionalOperator":
        return ev(ks[1], ctx) if ev(ks[0], ctx) else ev(ks[2], ctx)
    if k in ("CXXMemberCallExpr", "CallExpr"):
        if ctx.call_values:
            key = ir.sx(n)
            if key in ctx.call_values:
                return ctx.call_values[key]
        if ctx.depth > 6:
            raise Unknown("call depth")
        fn, c = _callee_decl(ctx, n)
        if fn is None:
            raise Unknown("unresolved callee")
        if c.get("kind") == "MemberExpr":
            base = ir.strip(ir.ekids(c)[0]) if ir.ekids(c) else None
            if base is not None and base.get("kind") != "CXXThisExpr":
                raise Unknown("member call on another object")
        ret, decls = _single_return(fn)
        if ret is None:
            return _straight_line(fn, ks[1:], ctx)
        ps = ir.params(fn)
        args = ks[1:]
        if len(args) > len(ps):
            raise Unknown("argument count")
        sub = Ctx(ctx.d, {}, ctx.members, ctx.depth + 1)
        sub.arrays = ctx.arrays
        sub.objects = ctx.objects
        sub.call_values = ctx.call_values
        for p, a in zip(ps, args):
            sub.env[p.get("id")] = conv(ev(a, ctx), ir.qtype(p)) if rng(ir.qtype(p)) else ev(a, ctx)
        for v in decls:
            if not ir.ekids(v):
                raise Unknown("uninitialised local")
            sub.env[v.get("id")] = conv(ev(ir.ekids(v)[-1], sub), ir.qtype(v))
        rk = ir.ekids(ret)
        if not rk:
            raise Unknown("void helper")
        v = ev(rk[0], sub)
        ctx.ub += sub.ub
        return v
    raise Unknown("node kind %s" % k)
