"""Thin typed view over clang's JSON AST: canonical expression trees, function lookup, structured walks."""
import os
import re
from . import clangjson as cj

WRAPPERS = {"ParenExpr", "ExprWithCleanups", "MaterializeTemporaryExpr", "CXXBindTemporaryExpr", "ConstantExpr",
            "SubstNonTypeTemplateParmExpr", "FullExpr"}
FUNC_KINDS = ("FunctionDecl", "CXXMethodDecl", "CXXConstructorDecl", "CXXDestructorDecl", "CXXConversionDecl")
VALUE_PRESERVING_CASTS = {"LValueToRValue", "NoOp", "FunctionToPointerDecay", "ArrayToPointerDecay", "DerivedToBase",
                          "UncheckedDerivedToBase", "ConstructorConversion", "UserDefinedConversion", "BuiltinFnToFnPtr"}


def kids(n):
    return [c for c in n.get("inner", ()) if isinstance(c, dict)]


def ekids(n):
    """expression/statement children (no type nodes, attributes, comments)"""
    return [c for c in n.get("inner", ()) if isinstance(c, dict) and not c.get("kind", "").endswith(("Type", "Attr", "Comment"))
            and c.get("kind") not in ("TemplateArgument",)]


def qtype(n):
    t = n.get("type") or {}
    return t.get("desugaredQualType") or t.get("qualType") or ""


def wtype(n):
    return (n.get("type") or {}).get("qualType") or ""


def strip(n):
    """skip wrappers and value-preserving implicit casts"""
    while True:
        k = n.get("kind")
        if k in WRAPPERS and ekids(n):
            n = ekids(n)[-1]
        elif k == "ImplicitCastExpr" and ekids(n):
            n = ekids(n)[0]
        else:
            return n


def sx(n, keep_casts=False):
    """canonical nested tuple for an expression subtree"""
    if n is None:
        return ("none",)
    k = n.get("kind")
    ks = ekids(n)
    if k in WRAPPERS and ks:
        return sx(ks[-1], keep_casts)
    if k == "ImplicitCastExpr":
        inner = sx(ks[0], keep_casts)
        ck = n.get("castKind")
        if keep_casts and ck not in VALUE_PRESERVING_CASTS:
            return ("cast", ck, qtype(n), inner)
        return inner
    if k in ("CXXStaticCastExpr", "CXXFunctionalCastExpr", "CStyleCastExpr", "CXXReinterpretCastExpr", "CXXConstCastExpr", "CXXDynamicCastExpr"):
        return ("cast", n.get("castKind", k), qtype(n), sx(ks[-1], keep_casts) if ks else ("none",))
    if k == "DeclRefExpr":
        rd = n.get("referencedDecl") or {}
        return ("ref", rd.get("name", "?"))
    if k == "CXXThisExpr":
        return ("this",)
    if k in ("IntegerLiteral", "FloatingLiteral"):
        return ("lit", n.get("value"))
    if k == "CharacterLiteral":
        return ("lit", n.get("value"))
    if k == "StringLiteral":
        return ("str", n.get("value"))
    if k == "CXXBoolLiteralExpr":
        return ("lit", "true" if n.get("value") else "false")
    if k == "CXXNullPtrLiteralExpr":
        return ("lit", "nullptr")
    if k == "MemberExpr":
        base = sx(ks[0], keep_casts) if ks else ("this",)
        return ("mem", base, n.get("name", "?"))
    if k == "CXXDependentScopeMemberExpr":
        base = sx(ks[0], keep_casts) if ks else ("this",)
        return ("mem", base, n.get("member", "?"))
    if k in ("UnresolvedLookupExpr", "DependentScopeDeclRefExpr"):
        return ("ref", n.get("name", "?"))
    if k == "UnresolvedMemberExpr":
        return ("mem", sx(ks[0], keep_casts) if ks else ("this",), n.get("member", "?"))
    if k in ("CallExpr", "CXXMemberCallExpr"):
        callee = sx(ks[0], keep_casts)
        return ("call", callee) + tuple(sx(a, keep_casts) for a in ks[1:])
    if k == "CXXOperatorCallExpr":
        callee = sx(ks[0], keep_casts)
        name = callee[1] if callee[0] == "ref" else (callee[2] if callee[0] == "mem" else "?")
        op = name[len("operator"):] if isinstance(name, str) and name.startswith("operator") else name
        args = tuple(sx(a, keep_casts) for a in ks[1:])
        if len(args) == 2 and op not in ("()", "[]"):
            return ("bin", op, args[0], args[1])
        if len(args) == 1:
            return ("un", op, args[0])
        if op == "[]":
            return ("index", args[0], args[1])
        return ("call", ("ref", name)) + args
    if k in ("BinaryOperator", "CompoundAssignOperator"):
        return ("bin", n.get("opcode"), sx(ks[0], keep_casts), sx(ks[1], keep_casts))
    if k == "UnaryOperator":
        op = n.get("opcode")
        if n.get("isPostfix"):
            op = "post" + op
        return ("un", op, sx(ks[0], keep_casts))
    if k == "ConditionalOperator":
        return ("cond", sx(ks[0], keep_casts), sx(ks[1], keep_casts), sx(ks[2], keep_casts))
    if k == "ArraySubscriptExpr":
        return ("index", sx(ks[0], keep_casts), sx(ks[1], keep_casts))
    if k in ("CXXConstructExpr", "CXXTemporaryObjectExpr", "CXXUnresolvedConstructExpr", "InitListExpr", "ParenListExpr"):
        args = tuple(sx(a, keep_casts) for a in ks if a.get("kind") != "CXXDefaultArgExpr")
        if k == "CXXConstructExpr" and len(args) == 1 and not keep_casts:
            return args[0]        # copy/move/converting construction of a temporary: transparent
        return ("construct", wtype(n)) + args
    if k == "CXXNewExpr":
        return ("new", wtype(n)) + tuple(sx(a, keep_casts) for a in ks)
    if k == "CXXDeleteExpr":
        return ("delete",) + tuple(sx(a, keep_casts) for a in ks)
    if k == "CXXThrowExpr":
        return ("throw",) + tuple(sx(a, keep_casts) for a in ks)
    if k == "UnaryExprOrTypeTraitExpr":
        arg = n.get("argType", {}).get("qualType") if n.get("argType") else None
        return ("sizeof", n.get("name"), arg if arg else (sx(ks[0]) if ks else None))
    if k == "CXXDefaultArgExpr":
        return ("defaultarg",)
    if k == "LambdaExpr":
        return ("lambda", n.get("id"))
    if k == "CXXScalarValueInitExpr":
        return ("construct", wtype(n))
    if k == "CXXTypeidExpr":
        return ("typeid", wtype(n))
    if k == "PackExpansionExpr":
        return ("pack", sx(ks[0], keep_casts)) if ks else ("pack",)
    if k == "CXXPseudoDestructorExpr":
        return ("pseudo_dtor", sx(ks[0], keep_casts) if ks else ("none",))
    if k == "ImplicitValueInitExpr":
        return ("construct", wtype(n))
    if k == "CXXNoexceptExpr":
        return ("noexcept",)
    if k == "OpaqueValueExpr":
        return sx(ks[0], keep_casts) if ks else ("opaque",)
    return ("?" + str(k),) + tuple(sx(a, keep_casts) for a in ks)


def show(t):
    if not isinstance(t, tuple):
        return str(t)
    k = t[0]
    if k == "ref":
        return str(t[1])
    if k == "lit":
        return str(t[1])
    if k == "str":
        return str(t[1])
    if k == "this":
        return "this"
    if k == "mem":
        b = show(t[1])
        return t[2] if b == "this" else "%s.%s" % (b, t[2])
    if k == "call":
        return "%s(%s)" % (show(t[1]), ", ".join(show(a) for a in t[2:]))
    if k == "bin":
        return "(%s %s %s)" % (show(t[2]), t[1], show(t[3]))
    if k == "un":
        return "%s%s" % (t[1], show(t[2]))
    if k == "cond":
        return "(%s ? %s : %s)" % (show(t[1]), show(t[2]), show(t[3]))
    if k == "index":
        return "%s[%s]" % (show(t[1]), show(t[2]))
    if k == "cast":
        return "(%s)%s" % (t[2], show(t[3]))
    if k == "construct":
        return "%s{%s}" % (t[1], ", ".join(show(a) for a in t[2:]))
    return "%s(%s)" % (k, ", ".join(show(a) for a in t[1:]))


def subterms(t):
    if isinstance(t, tuple):
        yield t
        for x in t[1:]:
            yield from subterms(x)


def has_body(n):
    return any(c.get("kind") in ("CompoundStmt", "CXXTryStmt") for c in kids(n))


def body(n):
    for c in kids(n):
        if c.get("kind") in ("CompoundStmt", "CXXTryStmt"):
            return c
    return None


def params(n):
    return [c for c in kids(n) if c.get("kind") == "ParmVarDecl"]


def in_repo(n):
    f = (n.get("loc") or {}).get("file") or ""
    return f.startswith(os.path.join(cj.REPO, "include"))


def enclosing_class(d, n):
    p = d.parent_of(n)
    hops = 0
    while p is not None and hops < 4:
        if p.get("kind") in ("CXXRecordDecl", "ClassTemplateSpecializationDecl", "ClassTemplatePartialSpecializationDecl"):
            return p
        if p.get("kind") not in ("FunctionTemplateDecl",):
            break
        p = d.parent_of(p)
        hops += 1
    pid = n.get("parentDeclContextId")
    if pid and pid in d.by_id:
        return d.by_id[pid]
    return None


def is_template_pattern(d, n):
    """True if n (a function-like decl) is a dependent pattern rather than an instantiation / ordinary function."""
    p = d.parent_of(n)
    if p is not None and p.get("kind") == "FunctionTemplateDecl":
        first = [c for c in kids(p) if c.get("kind") in FUNC_KINDS]
        return bool(first) and first[0] is n
    c = enclosing_class(d, n)
    while c is not None:
        if c.get("kind") == "ClassTemplateSpecializationDecl":
            return False
        cp = d.parent_of(c)
        if cp is not None and cp.get("kind") == "ClassTemplateDecl":
            return True
        if c.get("kind") == "ClassTemplatePartialSpecializationDecl":
            return True
        c = cp if cp is not None and cp.get("kind") in ("CXXRecordDecl", "ClassTemplateSpecializationDecl") else None
    return False


def functions(d, name=None, with_body=True, repo_only=True, pred=None):
    for n in d.walk():
        if n.get("kind") not in FUNC_KINDS:
            continue
        if name is not None and n.get("name") != name:
            continue
        if with_body and not has_body(n):
            continue
        if repo_only and not in_repo(n):
            continue
        if pred and not pred(n):
            continue
        yield n


def walk_expr(n):
    """pre-order over all nodes of a subtree"""
    stack = [n]
    while stack:
        x = stack.pop()
        yield x
        stack.extend(reversed(kids(x)))


def fn_label(d, n):
    c = enclosing_class(d, n)
    nm = n.get("name", "?")
    if c is not None and c.get("name"):
        nm = c["name"] + "::" + nm
    return nm


def template_args(n):
    """template arguments of an instantiated function / class specialisation as strings"""
    out = []
    for c in kids(n):
        if c.get("kind") == "TemplateArgument":
            if "value" in c:
                out.append(str(c["value"]))
            elif "type" in c:
                out.append(c["type"].get("qualType", "?"))
            else:
                out.append("?")
    return out
