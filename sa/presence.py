"""Presence abstract evaluator for xoptional / xmasked_value overload bodies (C04).

A body is evaluated under one assignment of presence bits to its optional operands.  Presence reads are constants,
values are opaque symbols, `&& || ! ?: if` are interpreted with short-circuit semantics, so only the sub-expressions a
real execution would evaluate are visited.  Every application of an operation is logged with its operand terms.
Works on template patterns (dependent nodes) and on instantiations (resolved nodes) alike.
"""

PRESENCE = {"has_value", "visible", "m_flag", "m_visible"}
VALUE = {"value", "m_value"}
MISSING_FACTORIES = {"missing", "masked"}
WRAP_FACTORIES = {"masked_value", "optional"}
PASS_THROUGH_CALLS = {"forward", "move", "as_const", "addressof"}
WRAPPERS = {"ParenExpr", "ImplicitCastExpr", "ExprWithCleanups", "MaterializeTemporaryExpr", "CXXBindTemporaryExpr",
            "CXXFunctionalCastExpr", "CXXStaticCastExpr", "CStyleCastExpr", "ConstantExpr", "CXXConstCastExpr",
            "SubstNonTypeTemplateParmExpr"}
COMPOUND_OPS = {"+=", "-=", "*=", "/=", "%=", "&=", "|=", "^=", "<<=", ">>="}
import re


def ir_sx(n):
    from . import ir
    return ir.sx(n)


def subterms_(t):
    from . import ir
    return ir.subterms(t)


class Unknown(Exception):
    """A construct the evaluator cannot interpret on a path that matters."""


class FlagMisuse(Exception):
    """presence flags combined in a way that is not the logical conjunction/disjunction for every flag type"""


class Obj:
    """An optional/masked operand object."""
    def __init__(self, name, pres):
        self.name = name
        self.pres = pres                 # True / False / None (unknown)
        self.val = ("v", name)
        self.pres0 = pres

    def __repr__(self):
        return "Obj(%s,%s)" % (self.name, self.pres)


def contains_v(term, name):
    if not isinstance(term, tuple):
        return False
    if term[:2] == ("v", name):
        return True
    return any(contains_v(t, name) for t in term[1:] if isinstance(t, (tuple, list))) or \
        any(contains_v(x, name) for t in term[1:] if isinstance(t, list) for x in t)


def fmt(term):
    if term is None:
        return "-"
    if not isinstance(term, tuple):
        return str(term)
    k = term[0]
    if k == "v":
        return "%s.value" % term[1]
    if k == "a":
        return term[1]
    if k == "lit":
        return str(term[1])
    if k == "op":
        args = [fmt(a) for a in term[2]]
        name = term[1]
        if not name[0].isalpha() and len(args) == 2:
            return "(%s %s %s)" % (args[0], name, args[1])
        if not name[0].isalpha() and len(args) == 1:
            return "%s%s" % (name, args[0])
        return "%s(%s)" % (name, ", ".join(args))
    return str(term)


class Evaluator:
    def __init__(self, dump, classes):
        self.d = dump
        self.classes = classes           # class name -> {method name: [decl,...]}
        self.ops = []                    # logged operation applications (terms)
        self.local_types = {}
        self.depth = 0
        self.identity_tests = []         # `this == &rhs`-style branches met (evaluated as "distinct objects" unless self.alias)
        self.alias = False
        self._file_cache = {}
        self.helpers = {}                # name -> [decl] of library helper functions (namespace detail) whose bodies are followed

    # ---- helpers ---------------------------------------------------------
    def kids(self, n):
        return [c for c in n.get("inner", ()) if isinstance(c, dict)]

    def apply_lambda(self, lam, args):
        node, cenv = lam[1], lam[2]
        op = None
        for x in node.get("inner", ()):
            if isinstance(x, dict) and x.get("kind") == "CXXRecordDecl":
                for y in x.get("inner", ()):
                    if isinstance(y, dict) and y.get("kind") in ("CXXMethodDecl", "FunctionTemplateDecl"):
                        cand = y
                        if y.get("kind") == "FunctionTemplateDecl":
                            cand = next((z for z in y.get("inner", ()) if isinstance(z, dict) and z.get("kind") == "CXXMethodDecl"), None)
                        if cand is not None and cand.get("name") == "operator()" and any(isinstance(z, dict) and z.get("kind") == "CompoundStmt" for z in cand.get("inner", ())):
                            op = cand
        if op is None:
            raise Unknown("lambda without a visible call operator")
        ps = [c for c in self.kids(op) if c.get("kind") == "ParmVarDecl"]
        if len(ps) != len(args) or self.depth > 4:
            raise Unknown("lambda called with %d argument(s)" % len(args))
        env2 = dict(cenv)
        for p_, a_ in zip(ps, args):
            env2[p_["id"]] = a_
        self.depth += 1
        try:
            return self.run_body(op, env2)
        finally:
            self.depth -= 1

    def as_term(self, v):
        if v[0] == "lambda":
            return ("lambda",)
        v = self.deref(v)
        k = v[0]
        if k == "term":
            return v[1]
        if k == "bool":
            return ("lit", "true" if v[1] else "false")
        if k == "optref":
            return ("optobj", v[1].name)
        if k == "opt":
            return ("optval", v[1], v[2])
        if k == "void":
            return ("lit", "void")
        raise Unknown("cannot use %s as a value" % (k,))

    def as_bool(self, v):
        v = self.deref(v)
        if v[0] == "bool":
            return v[1]
        return None

    def log_op(self, name, args):
        t = ("op", name, list(args))
        self.ops.append(t)
        return t

    # ---- expressions -----------------------------------------------------
    def ev(self, n, env):
        k = n.get("kind")
        kids = self.kids(n)
        if k in WRAPPERS:
            ex = [c for c in kids if not c.get("kind", "").endswith("Type")]
            if not ex:
                raise Unknown("empty " + k)
            return self.ev(ex[-1], env)
        if k == "DeclRefExpr":
            rd = n.get("referencedDecl") or {}
            if rd.get("id") in env:
                return env[rd["id"]]
            return ("term", ("ref", rd.get("name", "?")))
        if k == "CXXThisExpr":
            if "this" not in env:
                raise Unknown("this outside an optional class")
            return env["this"]
        if k in ("IntegerLiteral", "FloatingLiteral", "CharacterLiteral", "StringLiteral"):
            return ("term", ("lit", n.get("value", "?")))
        if k == "CXXBoolLiteralExpr":
            return ("bool", bool(n.get("value")))
        if k in ("CXXNullPtrLiteralExpr", "GNUNullExpr"):
            return ("term", ("lit", "nullptr"))
        if k == "CXXScalarValueInitExpr":
            return ("term", ("default",))
        if k in ("MemberExpr", "CXXDependentScopeMemberExpr", "UnresolvedMemberExpr"):
            name = n.get("member") or n.get("name")
            if k == "UnresolvedMemberExpr" and not name:
                name = self._unresolved_member_name(n)
            base = self.ev(kids[0], env) if kids else env.get("this")
            if base is None:
                raise Unknown("member %s without base" % name)
            return self.member(base, name)
        if k == "CallExpr" or k == "CXXMemberCallExpr":
            return self.call(n, kids, env)
        if k == "CXXOperatorCallExpr":
            callee = kids[0]
            while callee.get("kind") in WRAPPERS:
                callee = self.kids(callee)[-1]
            name = callee.get("name") or (callee.get("referencedDecl") or {}).get("name") or "?"
            sym = name[len("operator"):] if name.startswith("operator") else name
            if sym == "*" and len(kids) == 2 and kids[1].get("kind") == "CXXThisExpr":
                return env["this"]
            return self.operator(sym, kids[1:], env, unary=(len(kids) == 2))
        if k in ("BinaryOperator", "CompoundAssignOperator"):
            return self.operator(n.get("opcode"), kids, env)
        if k == "UnaryOperator":
            op = n.get("opcode")
            if op == "*" and kids[0].get("kind") == "CXXThisExpr":
                return env["this"]
            if op == "&":
                return self.ev(kids[0], env)
            return self.operator(op, kids, env, unary=True)
        if k in ("ConditionalOperator",):
            c = self.rv(kids[0], env)
            b = self.as_bool(c)
            if b is True:
                return self.ev(kids[1], env)
            if b is False:
                return self.ev(kids[2], env)
            t = self.ev(kids[1], env)
            f = self.ev(kids[2], env)
            return ("term", ("op", "?:", [self.as_term(c), self.as_term(t), self.as_term(f)]))
        if k in ("CXXUnresolvedConstructExpr", "CXXTemporaryObjectExpr", "CXXConstructExpr", "InitListExpr", "ParenListExpr"):
            args = [c for c in kids if not c.get("kind", "").endswith("Type")]
            tname = (n.get("type") or {}).get("qualType", "") + " " + (n.get("typeAsWritten") or {}).get("qualType", "")
            if len(args) == 0:
                return ("term", ("default",))
            if len(args) == 1:
                return self.ev(args[0], env)
            if len(args) == 2:
                a = self.ev(args[0], env)
                b = self.ev(args[1], env)
                return ("opt", self.as_bool(b), self.as_term(a))
            raise Unknown("construction with %d arguments" % len(args))
        if k == "LambdaExpr":
            return ("lambda", n, env)            # applied when it is called: captures are read from the defining environment
        if k in ("UnresolvedLookupExpr",):
            return ("term", ("ref", n.get("name", "?")))
        if k == "ArraySubscriptExpr":
            a = self.ev(kids[0], env)
            b = self.ev(kids[1], env)
            return ("term", self.log_op("[]", [self.as_term(a), self.as_term(b)]))
        if k == "UnaryExprOrTypeTraitExpr" or k == "SizeOfPackExpr" or k == "TypeTraitExpr":
            return ("term", ("lit", "const"))
        raise Unknown("expression kind %s" % k)

    def _unresolved_member_name(self, n):
        # clang's JSON has no name for UnresolvedMemberExpr; recover from the source text
        import re
        # inside a macro body the expansion range covers the macro invocation: read the token at the spelling location instead
        for end in ("end", "begin"):
            loc = ((n.get("range") or {}).get(end) or {})
            sp = loc.get("spellingLoc")
            if sp and sp.get("offset") is not None and sp.get("tokLen"):
                f = sp.get("file") or (loc.get("expansionLoc") or {}).get("file")
                try:
                    src = self._file_cache.setdefault(f, open(f, "rb").read()) if f else None
                except (OSError, AttributeError):
                    src = None
                if src is not None:
                    tok = src[sp["offset"]:sp["offset"] + sp["tokLen"]].decode("utf-8", "replace")
                    if re.fullmatch(r"[A-Za-z_]\w*", tok) and tok != "this":
                        return tok
        txt = self.d.text(n)
        m = re.search(r"([A-Za-z_]\w*)\s*$", txt.split("(")[0])
        return m.group(1) if m else "?"

    def member(self, base, name):
        if base[0] == "optref":
            o = base[1]
            if name in PRESENCE:
                return ("presence", o)
            if name in VALUE:
                return ("valueof", o)
            return ("bound", o, name)
        if base[0] == "opt":
            if name in PRESENCE:
                return ("bool", base[1]) if base[1] is not None else ("term", ("presence?",))
            if name in VALUE:
                return ("term", base[2])
            return ("bound", base, name)
        if base[0] in ("presence", "valueof"):
            base = self.deref(base)
        return ("term", ("member", self.as_term(base), name))

    def deref(self, v):
        """presence/valueof pseudo-values -> plain values"""
        if v[0] == "presence":
            o = v[1]
            return ("bool", o.pres) if o.pres is not None else ("term", ("presence?", o.name))
        if v[0] == "valueof":
            return ("term", v[1].val)
        return v

    def rv(self, n, env):
        return self.deref(self.ev(n, env))

    def call(self, n, kids, env):
        callee = kids[0]
        while callee.get("kind") in WRAPPERS:
            callee = self.kids(callee)[-1]
        args = kids[1:]
        ck = callee.get("kind")
        if ck in ("MemberExpr", "CXXDependentScopeMemberExpr", "UnresolvedMemberExpr"):
            m = self.ev(callee, env)
            if m[0] in ("presence", "valueof"):
                return m                                   # accessor call
            if m[0] in ("bool",):
                return m
            if m[0] == "term" and not args:
                return m                                   # accessor on a temporary opt
            if m[0] == "bound" and env.get("__targs__"):
                r_ = self.policy_call(callee, args, env)
                if r_ is not None:
                    return r_[0]
            if m[0] == "bound":
                obj, name = m[1], m[2]
                if isinstance(obj, Obj):
                    return self.inline_method(obj, name, [self.ev(a, env) for a in args], self.d.text(n))
                raise Unknown("method %s on a temporary" % name)
            vals = [self.as_term(self.rv(a, env)) for a in args]
            return ("term", self.log_op("call", [self.as_term(m)] + vals))
        # a callable VALUE: a lambda held in a parameter / local, possibly through std::forward<F>(f)
        if ck in ("DeclRefExpr", "CallExpr", "ParenExpr"):
            try:
                cv = self.ev(callee, env) if ck != "DeclRefExpr" or (callee.get("referencedDecl") or {}).get("id") in env else None
            except Unknown:
                cv = None
            if cv is not None and cv[0] == "lambda":
                return self.apply_lambda(cv, [self.ev(a, env) for a in args])
        name = callee.get("name") or (callee.get("referencedDecl") or {}).get("name")
        if ck == "DependentScopeDeclRefExpr" and env.get("__targs__"):
            r_ = self.policy_call(callee, args, env)
            if r_ is not None:
                return r_[0]
        if name is None:
            raise Unknown("call through %s" % ck)
        # pack expansions among the arguments (all_present(others...)) are spliced
        flat_args = []
        for a in args:
            a0 = a
            while a0.get("kind") in WRAPPERS and self.kids(a0):
                a0 = self.kids(a0)[-1]
            if a0.get("kind") == "PackExpansionExpr":
                inner = self.kids(a0)[0]
                while inner.get("kind") in WRAPPERS and self.kids(inner):
                    inner = self.kids(inner)[-1]
                pv = env.get((inner.get("referencedDecl") or {}).get("id")) if inner.get("kind") == "DeclRefExpr" else None
                if isinstance(pv, tuple) and pv and pv[0] == "pack":
                    flat_args += [("val", x) for x in pv[1]]
                    continue
            flat_args.append(("node", a))
        if name in self.helpers and self.depth <= 4:
            for h in self.helpers[name]:
                ps = [c for c in self.kids(h) if c.get("kind") == "ParmVarDecl"]
                variadic = bool(ps) and ("..." in (ps[-1].get("type") or {}).get("qualType", "") or ps[-1].get("isParameterPack"))
                if not ((len(ps) == len(flat_args) and not variadic) or (variadic and len(flat_args) >= len(ps) - 1)):
                    continue
                vals_ = [x[1] if x[0] == "val" else self.ev(x[1], env) for x in flat_args]
                env2 = {}
                if "this" in env:
                    env2["this"] = env["this"]
                if variadic:
                    for p_, a_ in zip(ps[:-1], vals_):
                        env2[p_["id"]] = a_
                    env2[ps[-1]["id"]] = ("pack", vals_[len(ps) - 1:])
                else:
                    for p_, a_ in zip(ps, vals_):
                        env2[p_["id"]] = a_
                self.depth += 1
                try:
                    return self.run_body(h, env2)
                finally:
                    self.depth -= 1
        if name in MISSING_FACTORIES:
            return ("opt", False, None)
        if name in PASS_THROUGH_CALLS and len(args) == 1:
            return self.ev(args[0], env)
        # a pack among the arguments (`OP(args...)` in a variadic worker) stands for the values it was bound to
        vals = [self.deref(x[1]) if x[0] == "val" else self.rv(x[1], env) for x in flat_args]
        if name in WRAP_FACTORIES:
            if len(vals) == 1:
                return ("opt", True, self.as_term(vals[0]))
            if len(vals) == 2:
                return ("opt", self.as_bool(vals[1]), self.as_term(vals[0]))
        if name in ("bool",):
            return vals[0]
        # the library's generic accessors xtl::has_value(x) / xtl::value(x): the member accessors for an optional, `true` / the operand itself otherwise
        if name in ("has_value", "value") and len(args) == 1:
            v0 = self.ev(args[0], env)
            if v0[0] in ("optref", "opt"):
                return self.member(v0, name)
            if v0[0] in ("presence", "valueof"):
                v0 = self.deref(v0)
            return ("bool", True) if name == "has_value" else v0
        # an operation on optional objects themselves (delegation to another overload): modular reasoning
        if any(v[0] in ("optref", "opt") for v in vals):
            pres = True
            terms = []
            for v in vals:
                if v[0] == "optref":
                    pres = pres and (v[1].pres if v[1].pres is not None else None)
                    terms.append(v[1].val)
                elif v[0] == "opt":
                    pres = pres and v[1]
                    terms.append(v[2])
                else:
                    terms.append(self.as_term(v))
            return ("opt", pres, ("op", name, terms))
        return ("term", self.log_op(name, [self.as_term(v) for v in vals]))

    def policy_call(self, callee, args, env):
        """`UPD::apply(a, b)` where UPD is a template parameter bound by the caller's explicit template arguments: the static member of that
        policy type is evaluated on the arguments themselves (reference parameters are the arguments).  -> (value,) or None"""
        q = re.match(r"\s*(?:this\s*->\s*)?(?:typename\s+)?([A-Za-z_]\w*)\s*::\s*(?:template\s+)?([A-Za-z_]\w*)", self.d.text(callee))
        if not q or q.group(1) not in env["__targs__"]:
            return None
        cls_name, fn_name = env["__targs__"][q.group(1)], q.group(2)
        for rec in self.d.walk():
            if rec.get("kind") != "CXXRecordDecl" or rec.get("name") != cls_name or not self.kids(rec):
                continue
            for mem in self.kids(rec):
                f_ = mem
                if mem.get("kind") == "FunctionTemplateDecl":
                    f_ = next((c for c in self.kids(mem) if c.get("kind") == "CXXMethodDecl"), None)
                if f_ is None or f_.get("kind") != "CXXMethodDecl" or f_.get("name") != fn_name:
                    continue
                ps_ = [c for c in self.kids(f_) if c.get("kind") == "ParmVarDecl"]
                if len(ps_) != len(args) or not any(c.get("kind") == "CompoundStmt" for c in self.kids(f_)) or self.depth > 4:
                    continue
                env2 = {"__targs__": env.get("__targs__")}
                if "this" in env:
                    env2["this"] = env["this"]
                for p_, a_ in zip(ps_, args):
                    byref = "&" in (p_.get("type") or {}).get("qualType", "")
                    env2[p_["id"]] = self.ev(a_, env) if byref else self.rv(a_, env)
                self.depth += 1
                try:
                    return (self.run_body(f_, env2),)
                finally:
                    self.depth -= 1
        raise Unknown("static member %s of the policy type %s not found" % (fn_name, cls_name))

    def inline_method(self, obj, name, args, call_text=""):
        """obj.name(args) where obj is an operand object: evaluate the class's own method body."""
        cands = []
        for cname, methods in self.classes.items():
            for m in methods.get(name, ()):
                cands.append(m)
        arg_is_opt = [a[0] in ("optref", "opt") for a in args]
        chosen = None
        for m in cands:
            ps = [c for c in self.kids(m) if c.get("kind") == "ParmVarDecl"]
            if len(ps) != len(args):
                continue
            kinds = [is_opt_type((p.get("type") or {}).get("qualType", "")) for p in ps]
            if kinds == arg_is_opt:
                chosen = (m, ps)
                break
        if chosen is None:
            raise Unknown("no method %s matching the argument kinds" % name)
        if self.depth > 4:
            raise Unknown("inlining depth")
        m, ps = chosen
        env = {"this": ("optref", obj)}
        for p, a in zip(ps, args):
            env[p["id"]] = a
        # explicit template arguments (`update<detail::plus_update>(rhs)`) name the policy types the body calls through
        par = self.d.parent_of(m) if hasattr(self.d, "parent_of") else None
        tps = [c.get("name") for c in self.kids(par) if c.get("kind") == "TemplateTypeParmDecl"] if par is not None and par.get("kind") == "FunctionTemplateDecl" else []
        mt = re.search(r"%s\s*<([^<>()]*)>" % re.escape(name), call_text or "")
        if tps and mt:
            env["__targs__"] = {tp: a_.strip().split("::")[-1] for tp, a_ in zip(tps, mt.group(1).split(","))}
        self.depth += 1
        try:
            return self.run_body(m, env)
        finally:
            self.depth -= 1

    def operator(self, op, operands, env, unary=False):
        if op in ("&", "|", "&=", "|=", "^", "^=") and len(operands) == 2:
            a0, b0 = self.rv(operands[0], env), self.rv(operands[1], env)
            if self.as_bool(a0) is not None and self.as_bool(b0) is not None:
                raise FlagMisuse("two presence flags are combined with the bitwise operator `%s`: for a flag type other than bool, truthy flags such as 2 and 1 "
                                 "give 0, so a result whose operands are all present comes out missing" % op)
        if op in ("&&", "||") and len(operands) == 2:
            a = self.rv(operands[0], env)
            ab = self.as_bool(a)
            if op == "&&":
                if ab is False:
                    return ("bool", False)
                b = self.rv(operands[1], env)
                if ab is True:
                    return b
                bb = self.as_bool(b)
                if bb is True:
                    return a
                if bb is False:
                    return ("bool", False)
                return ("term", ("op", "&&", [self.as_term(a), self.as_term(b)]))
            else:
                if ab is True:
                    return ("bool", True)
                b = self.rv(operands[1], env)
                if ab is False:
                    return b
                bb = self.as_bool(b)
                if bb is False:
                    return a
                if bb is True:
                    return ("bool", True)
                return ("term", ("op", "||", [self.as_term(a), self.as_term(b)]))
        if op == "!" and len(operands) == 1:
            a = self.rv(operands[0], env)
            if a[0] == "bool":
                return ("bool", not a[1])
            if a[0] == "term" and isinstance(a[1], tuple) and a[1][:2] == ("op", "!"):
                return ("term", a[1][2][0])
            return ("term", ("op", "!", [self.as_term(a)]))
        if op == "," and len(operands) == 2:
            self.rv(operands[0], env)
            return self.ev(operands[1], env)
        if op == "=" and len(operands) == 2:
            lhs = self.ev(operands[0], env)
            rhs = self.rv(operands[1], env)
            if lhs[0] == "presence":
                lhs[1].pres = self.as_bool(rhs)
                return lhs
            if lhs[0] == "valueof":
                lhs[1].val = self.as_term(rhs)
                lhs[1].assigned = True
                return lhs
            return ("term", self.log_op("=", [self.as_term(self.deref(lhs)), self.as_term(rhs)]))
        if op in COMPOUND_OPS and len(operands) == 2:
            lhs = self.ev(operands[0], env)
            rhs = self.rv(operands[1], env)
            if lhs[0] == "valueof":
                o = lhs[1]
                o.val = self.log_op(op, [o.val, self.as_term(rhs)])
                return lhs
            if lhs[0] == "presence":
                raise Unknown("compound assignment to the presence flag")
            return ("term", self.log_op(op, [self.as_term(self.deref(lhs)), self.as_term(rhs)]))
        vals = [self.rv(o, env) for o in operands]
        if any(v[0] in ("optref", "opt") for v in vals):
            pres = True
            terms = []
            for v in vals:
                if v[0] == "optref":
                    pres = pres and (v[1].pres if v[1].pres is not None else None)
                    terms.append(v[1].val)
                elif v[0] == "opt":
                    pres = pres and v[1]
                    terms.append(v[2])
                else:
                    terms.append(self.as_term(v))
            return ("opt", pres, ("op", op, terms))
        return ("term", self.log_op(op, [self.as_term(v) for v in vals]))

    # ---- statements ------------------------------------------------------
    def run_body(self, fn, env):
        body = [c for c in self.kids(fn) if c.get("kind") == "CompoundStmt"]
        if not body:
            raise Unknown("no body")
        r = self.stmts(self.kids(body[0]), env)
        return r if r is not None else ("void",)

    def stmts(self, ss, env):
        for i, s in enumerate(ss):
            if s.get("kind") == "IfStmt":
                sel = self.value_select(s, ss[i + 1:], env)
                if sel is not None:
                    return sel
            r = self.stmt(s, env)
            if r is not None:
                return r
        return None

    def value_select(self, s, rest, env):
        """`if (c) return A; [else] return B;` on a VALUE c (not a presence test): the statement form of `c ? A : B`"""
        def only_return(n):
            while n is not None and n.get("kind") == "CompoundStmt" and len(self.kids(n)) == 1:
                n = self.kids(n)[0]
            return n if n is not None and n.get("kind") == "ReturnStmt" and self.kids(n) else None
        kids = self.kids(s)
        then = only_return(kids[1]) if len(kids) > 1 else None
        other = only_return(kids[2]) if len(kids) > 2 else (only_return(rest[0]) if rest else None)
        if then is None or other is None:
            return None
        t0 = ir_sx(kids[0])
        if t0[0] == "bin" and t0[1] in ("==", "!=") and ("this",) in (t0[2], t0[3]) and any(x[0] == "un" and x[1] == "&" for x in subterms_(t0)):
            return None             # `this == &rhs`: an identity test, handled by the IfStmt case
        try:
            c = self.rv(kids[0], env)
        except Unknown:
            return None
        if self.as_bool(c) is not None:
            return None
        t = self.deref(self.ev(self.kids(then)[0], env))
        f = self.deref(self.ev(self.kids(other)[0], env))
        if t[0] == "bool" and f[0] == "bool":
            # c ? true : false is c itself, c ? k : k is k
            if t[1] == f[1]:
                return t
            return c if t[1] else ("term", ("op", "!", [self.as_term(c)]))
        return ("term", ("op", "?:", [self.as_term(c), self.as_term(t), self.as_term(f)]))

    def stmt(self, s, env):
        k = s.get("kind")
        if k == "CompoundStmt":
            return self.stmts(self.kids(s), env)
        if k == "DeclStmt":
            for c in self.kids(s):
                if c.get("kind") in ("TypeAliasDecl", "TypedefDecl"):
                    self.local_types[c.get("name")] = (c.get("type") or {}).get("qualType", "")
                if c.get("kind") == "VarDecl":
                    init = [x for x in self.kids(c) if not x.get("kind", "").endswith("Type") and not x.get("kind", "").endswith("Attr")]
                    v = self.rv(init[-1], env) if init else ("term", ("default",))
                    tq = (c.get("type") or {}).get("qualType", "")
                    tq = tq + " " + self.local_types.get(tq.replace("const ", "").strip(), "")
                    if v[0] == "term" and ("optional" in tq or "masked_value" in tq):
                        v = ("opt", True, v[1])      # a plain value converted to an optional type is present
                    env[c["id"]] = v
            return None
        if k == "ReturnStmt":
            kids = self.kids(s)
            if not kids:
                return ("void",)
            return self.ev(kids[0], env)
        if k == "IfStmt":
            kids = self.kids(s)
            c = self.rv(kids[0], env)
            b = self.as_bool(c)
            if b is None:
                t = ir_sx(kids[0])
                ident = t[0] == "bin" and t[1] in ("==", "!=") and any(x == ("this",) for x in subterms_(t)) and any(x[0] == "un" and x[1] == "&" for x in subterms_(t))
                if ident:
                    self.identity_tests.append(s)
                    b = bool(getattr(self, "alias", False)) == (t[1] == "==")
                else:
                    raise Unknown("branch on a value that is not a presence test")
            if b:
                return self.stmt(kids[1], env)
            if len(kids) > 2:
                return self.stmt(kids[2], env)
            return None
        if k == "NullStmt":
            return None
        if k in ("ForStmt", "WhileStmt", "DoStmt", "SwitchStmt", "CXXTryStmt", "CXXForRangeStmt"):
            raise Unknown("statement kind " + k)
        # expression statement
        self.ev(s, env)
        return None


def is_opt_type(q):
    return ("xoptional<" in q or "xmasked_value<" in q or q.strip() in ("xoptional", "xmasked_value")
            or "xoptional &" in q or "xmasked_value &" in q)
