"""Run clang's JSON AST dumper on a driver TU and give a resolved, indexed view.

Every check re-dumps from the current working tree ($XTL_REPO, default /repo);
nothing is cached between runs.
"""
import json
import os
import subprocess
import sys
import tempfile

REPO = os.environ.get("XTL_REPO", "/repo")
VERIF = os.path.dirname(os.path.dirname(os.path.abspath(__file__)))
EXTRA_INC = ["-isystem", "/root/miniconda/include"]


def loc_key(n):
    """identity of a declaration's source position; macro-generated declarations of one macro invocation share the
    expansion offset, so the spelling offset is part of the key"""
    l = n.get("loc") or {}
    sp = l.get("spellingLoc") or {}
    b = (n.get("range") or {}).get("begin") or {}
    bs = b.get("spellingLoc") or {}
    return (l.get("file"), l.get("offset"), sp.get("file"), sp.get("offset"), b.get("offset"), bs.get("offset"))


class AnalysisBroken(Exception):
    """An anchor vanished / clang failed / a construct cannot be interpreted.
    Reported as exit code 2: never a pass, never a violation."""


STD_OVERRIDE = None        # set by ./check when a property's rules are repeated under another language level (thorough tier)


def clang_cmd(std="gnu++17", defines=(), extra=()):
    if STD_OVERRIDE and std == "gnu++17":
        std = STD_OVERRIDE
    cmd = ["clang++", "-std=" + std, "-I" + os.path.join(REPO, "include")] + EXTRA_INC
    cmd += ["-fsyntax-only", "-UNDEBUG", "-Wno-everything"]
    for d in defines:
        cmd.append("-D" + d)
    cmd += list(extra)
    return cmd


def _fix_locs(root, state):
    """The dumper omits 'file'/'line' when unchanged from the previously
    printed location; re-materialise them while walking in document order."""
    stack = [root]
    # iterative pre-order walk honouring key order inside each node
    def fix(loc):
        if not isinstance(loc, dict):
            return
        if "spellingLoc" in loc or "expansionLoc" in loc:
            if "spellingLoc" in loc:
                fix(loc["spellingLoc"])
            if "expansionLoc" in loc:
                fix(loc["expansionLoc"])
                e = loc["expansionLoc"]
                loc.setdefault("file", e.get("file"))
                loc.setdefault("line", e.get("line"))
                loc.setdefault("offset", e.get("offset"))
                loc.setdefault("tokLen", e.get("tokLen", 0))
            return
        if "offset" not in loc:
            return
        if "file" in loc:
            state[0] = loc["file"]
        else:
            loc["file"] = state[0]
        if "line" in loc:
            state[1] = loc["line"]
        else:
            loc["line"] = state[1]
        loc.pop("includedFrom", None)

    while stack:
        n = stack.pop()
        if "loc" in n:
            fix(n["loc"])
        r = n.get("range")
        if r:
            fix(r.get("begin"))
            fix(r.get("end"))
        inner = n.get("inner")
        if inner:
            for c in reversed(inner):
                if isinstance(c, dict):
                    stack.append(c)


class Dump:
    """Parsed dump: list of top-level decl nodes + id index + parent links."""

    def __init__(self, tops, cmd, src):
        self.tops = tops
        self.cmd = cmd
        self.src = src
        self.by_id = {}
        self.parent = {}
        for t in tops:
            self._index(t)
        self._files = {}

    def _index(self, root):
        stack = [(root, None)]
        by_id = self.by_id
        parent = self.parent
        while stack:
            n, p = stack.pop()
            i = n.get("id")
            if i is not None:
                # a node with a body wins over a forward reference
                if i not in by_id or "inner" in n:
                    by_id[i] = n
                parent[id(n)] = p
            for c in n.get("inner", ()):
                if isinstance(c, dict):
                    stack.append((c, n))

    def walk(self, root=None):
        roots = [root] if root is not None else list(self.tops)
        stack = list(reversed(roots))
        while stack:
            n = stack.pop()
            yield n
            inner = n.get("inner")
            if inner:
                for c in reversed(inner):
                    if isinstance(c, dict):
                        stack.append(c)

    def parent_of(self, n):
        return self.parent.get(id(n))

    def text(self, n):
        """Source text of a node (for diagnostics only)."""
        r = n.get("range") or {}
        b, e = r.get("begin") or {}, r.get("end") or {}
        f = b.get("file")
        if not f or "offset" not in b or "offset" not in e or e.get("file") != f:
            return ""
        if f not in self._files:
            p = f if os.path.isabs(f) else os.path.join(os.path.dirname(self.src), f)
            try:
                self._files[f] = open(p, "rb").read()
            except OSError:
                self._files[f] = b""
        data = self._files[f]
        return data[b["offset"]: e["offset"] + e.get("tokLen", 0)].decode("utf-8", "replace")

    def where(self, n):
        while n is not None:
            l = n.get("loc") or (n.get("range") or {}).get("begin")
            if l and l.get("file"):
                f = l["file"]
                if f.startswith(REPO + "/"):
                    f = f[len(REPO) + 1:]
                return "%s:%s" % (f, l.get("line"))
            n = self.parent_of(n)
        return "?"


def dump(src, filt, std="gnu++17", defines=(), extra=()):
    """src: path of the driver TU, or literal source text (contains a newline)."""
    tmp = None
    if "\n" in src:
        tmp = tempfile.NamedTemporaryFile("w", suffix=".cpp", delete=False,
                                          dir=os.environ.get("TMPDIR", "/tmp"))
        tmp.write(src)
        tmp.close()
        path = tmp.name
    else:
        path = src
    cmd = clang_cmd(std, defines, extra) + ["-Xclang", "-ast-dump=json"]
    if filt:
        cmd += ["-Xclang", "-ast-dump-filter=" + filt]
    cmd.append(path)
    try:
        p = subprocess.run(cmd, stdout=subprocess.PIPE, stderr=subprocess.PIPE)
        if p.returncode != 0:
            raise AnalysisBroken("clang failed on %s:\n%s" % (path, p.stderr.decode()[:4000]))
        txt = p.stdout.decode("utf-8", "replace")
        dec = json.JSONDecoder()
        tops = []
        i, n = 0, len(txt)
        state = [None, None]
        while i < n:
            while i < n and txt[i] in " \r\n\t":
                i += 1
            if i >= n:
                break
            obj, i = dec.raw_decode(txt, i)
            if isinstance(obj, dict):
                _fix_locs(obj, state)
                tops.append(obj)
        d = Dump(tops, " ".join(cmd), path)
        if tmp:
            # keep the text for diagnostics
            d._files[path] = src.encode()
        # clang's JSON gives no name for UnresolvedMemberExpr (implicit-this member call in a template pattern):
        # recover it from the source text
        import re as _re
        for n in d.walk():
            if n.get("kind") == "DependentScopeDeclRefExpr" and "name" not in n:
                n["name"] = _re.sub(r"\s+", "", d.text(n))
            if n.get("kind") == "UnresolvedMemberExpr" and "member" not in n:
                name = None
                # inside a macro body the expansion range is the macro invocation: the member name is the token at the spelling location
                for end in ("end", "begin"):
                    loc = ((n.get("range") or {}).get(end) or {})
                    sp = loc.get("spellingLoc")
                    if sp and sp.get("offset") is not None and sp.get("tokLen") and sp.get("file"):
                        try:
                            raw = d._files.get(sp["file"])
                            if raw is None:
                                raw = open(sp["file"], "rb").read()
                                d._files[sp["file"]] = raw
                            tok = raw[sp["offset"]:sp["offset"] + sp["tokLen"]].decode("utf-8", "replace")
                        except OSError:
                            tok = ""
                        if _re.fullmatch(r"[A-Za-z_]\w*", tok) and tok != "this":
                            name = tok
                            break
                if name is None:
                    txt = d.text(n)
                    m = _re.search(r"([A-Za-z_]\w*)\s*(<[^()]*>)?\s*$", txt.split("(")[0])
                    name = m.group(1) if m else "?"
                n["member"] = name
        return d
    finally:
        if tmp:
            os.unlink(tmp.name)


def compile_only(src_text, std="gnu++17", compiler="clang++", defines=(), extra=(), error_limit0=True):
    """-fsyntax-only compile of a generated TU; returns (rc, stderr)."""
    with tempfile.NamedTemporaryFile("w", suffix=".cpp", delete=False,
                                     dir=os.environ.get("TMPDIR", "/tmp")) as f:
        f.write(src_text)
        path = f.name
    if STD_OVERRIDE and std == "gnu++17":
        std = STD_OVERRIDE
    try:
        cmd = [compiler, "-std=" + std, "-I" + os.path.join(REPO, "include")] + EXTRA_INC + ["-fsyntax-only", "-w"]
        if error_limit0:
            cmd.append("-ferror-limit=0" if compiler.startswith("clang") else "-fmax-errors=0")
        for d in defines:
            cmd.append("-D" + d)
        cmd += list(extra) + [path]
        p = subprocess.run(cmd, stdout=subprocess.PIPE, stderr=subprocess.PIPE)
        return p.returncode, p.stderr.decode("utf-8", "replace").replace(path, "<gen>"), " ".join(cmd[:-1])
    finally:
        os.unlink(path)
