"""Execution of small byte-assembling code over *symbolic bytes* and concrete counts.

A tail loader such as load_bytes(p, n) is run for one concrete n at a time; the bytes it reads stay symbolic.  A value is a
Python int or a `Sym`: an affine form over byte symbols with integer coefficients,

    ("b", i)   the byte p[i] as an unsigned value 0..255
    ("c", i)   the element p[i] as the (possibly negative) value of a plain `char`

so `(result << 8) + static_cast<unsigned char>(p[n])` is the form {("b", n): 1, <shifted terms of result>}; a missing conversion
to unsigned char leaves a ("c", i) term in the result and is visible as such.  `|` and `^` of forms whose terms occupy
disjoint bit ranges are additions.  Loops run with their concrete trip count (bounded); anything outside this fragment raises
Unknown, which the caller reports as inconclusive.
"""
from . import ir, ceval


class Unknown(Exception):
    pass


class Sym(dict):
    """term -> coefficient; "" -> constant"""

    def __add__(self, o):
        r = Sym(self)
        if isinstance(o, int):
            o = Sym({"": o}) if o else Sym()
        for k, v in o.items():
            r[k] = r.get(k, 0) + v
        return Sym({k: v for k, v in r.items() if v != 0})

    def scale(self, c, mod=None):
        r = Sym()
        for k, v in self.items():
            w = v * c
            if mod:
                w %= mod
            if w:
                r[k] = w
        return r

    def show(self):
        parts = []
        for k in sorted(self, key=lambda x: (x == "", x)):
            v = self[k]
            if k == "":
                parts.append(hex(v))
            else:
                nm = "%s[%d]" % ("byte" if k[0] == "b" else "char", k[1])
                sh = v.bit_length() - 1 if v > 0 and v & (v - 1) == 0 else None
                parts.append(nm if v == 1 else ("%s << %d" % (nm, sh) if sh is not None else "%d * %s" % (v, nm)))
        return " + ".join(parts) if parts else "0"

    def ranges(self):
        """bit ranges of the terms if every term is an unsigned byte times a power of two and there is no constant, else None"""
        out = []
        for k, v in self.items():
            if k == "" or k[0] != "b" or v <= 0 or v & (v - 1):
                return None
            s = v.bit_length() - 1
            out.append((s, s + 8))
        return out


def _disjoint(a, b):
    ra, rb = a.ranges(), b.ranges()
    if ra is None or rb is None:
        return False
    rs = sorted(ra + rb)
    return all(x[1] <= y[0] for x, y in zip(rs, rs[1:]))


class Machine:
    def __init__(self, d, ptrs, max_steps=4000):
        self.d = d
        self.ptrs = dict(ptrs)            # pointer variable name -> offset (int) into the symbolic byte array
        self.env = {}                     # integer variable name -> int | Sym
        self.reads = []                   # indices read
        self.steps = 0
        self.max_steps = max_steps

    # ---- expressions --------------------------------------------------------------------------------------------------
    def width(self, q):
        r = ceval.rng((q or "").replace("const ", "").replace("volatile ", "").strip())
        return None if r is None else (r[1] - r[0] + 1, r[0] == 0)

    def conv(self, v, q, from_q=None):
        if isinstance(v, int):
            try:
                return ceval.conv(v, q)
            except ceval.Unknown as e:
                raise Unknown(str(e))
        w = self.width(q)
        if w is None:
            raise Unknown("conversion of a byte form to %s" % q)
        mod, unsigned = w
        if mod == 256 and unsigned:
            # to unsigned char: exactly one element, taken as its unsigned value
            ks = [k for k in v if k != ""]
            if len(ks) == 1 and v[ks[0]] == 1 and "" not in v:
                return Sym({("b", ks[0][1]): 1})
            raise Unknown("conversion of `%s` to unsigned char" % v.show())
        if mod == 256 and not unsigned:
            ks = [k for k in v if k != ""]
            if len(ks) == 1 and v[ks[0]] == 1 and "" not in v and ks[0][0] == "c":
                return v
            raise Unknown("conversion of `%s` to char" % v.show())
        # widening / same-width conversions keep the mathematical value; unsigned targets reduce the coefficients
        if unsigned:
            return v.scale(1, mod)
        return v

    def ptr(self, n):
        """pointer expression -> offset, or None"""
        n = ir.strip(n)
        k = n.get("kind")
        ks = ir.ekids(n)
        if k in ("CStyleCastExpr", "CXXStaticCastExpr", "CXXReinterpretCastExpr", "CXXConstCastExpr", "CXXFunctionalCastExpr") and ks:
            return self.ptr(ks[-1])
        if k == "DeclRefExpr":
            return self.ptrs.get((n.get("referencedDecl") or {}).get("name"))
        if k == "BinaryOperator" and n.get("opcode") in ("+", "-"):
            a = self.ptr(ks[0])
            if a is not None:
                b = self.ev(ks[1])
                if not isinstance(b, int):
                    raise Unknown("pointer offset is not a number")
                return a + b if n.get("opcode") == "+" else a - b
            if n.get("opcode") == "+":
                b = self.ptr(ks[1])
                if b is not None:
                    a2 = self.ev(ks[0])
                    if isinstance(a2, int):
                        return b + a2
        return None

    def read(self, idx, node):
        self.reads.append(idx)
        q = ir.qtype(node).replace("const ", "").strip()
        return Sym({("b" if q in ("unsigned char", "uint8_t", "std::uint8_t") else "c", idx): 1})

    def ev(self, n):
        self.steps += 1
        if self.steps > self.max_steps:
            raise Unknown("step limit")
        k = n.get("kind")
        ks = ir.ekids(n)
        if k in ir.WRAPPERS and ks:
            return self.ev(ks[-1])
        if k in ("IntegerLiteral", "CharacterLiteral"):
            return int(n["value"])
        if k == "CXXBoolLiteralExpr":
            return 1 if n.get("value") else 0
        if k in ("ImplicitCastExpr", "CXXStaticCastExpr", "CXXFunctionalCastExpr", "CStyleCastExpr"):
            ck = n.get("castKind")
            v = self.ev(ks[-1])
            if ck in ("LValueToRValue", "NoOp"):
                return v
            if ck in ("IntegralCast", "IntegralToBoolean"):
                if ck == "IntegralToBoolean":
                    if isinstance(v, int):
                        return 1 if v else 0
                    raise Unknown("truth value of a byte form")
                return self.conv(v, ir.qtype(n))
            raise Unknown("cast kind %s" % ck)
        if k == "DeclRefExpr":
            nm = (n.get("referencedDecl") or {}).get("name")
            if nm in self.env:
                return self.env[nm]
            try:
                return ceval.ev(n, ceval.Ctx(self.d))
            except (ceval.Unknown, ceval.UB) as e:
                raise Unknown("value of `%s`: %s" % (nm, e))
        if k == "ArraySubscriptExpr":
            base = self.ptr(ks[0])
            idx = self.ev(ks[1])
            if base is None or not isinstance(idx, int):
                raise Unknown("subscript `%s`" % ir.show(ir.sx(n))[:40])
            return self.read(base + idx, n)
        if k == "UnaryOperator":
            op = n.get("opcode")
            if op == "*":
                base = self.ptr(ks[0])
                if base is None:
                    raise Unknown("dereference `%s`" % ir.show(ir.sx(n))[:40])
                return self.read(base, n)
            if op in ("++", "--"):
                t = ir.strip(ks[0])
                nm = (t.get("referencedDecl") or {}).get("name") if t.get("kind") == "DeclRefExpr" else None
                dlt = 1 if op == "++" else -1
                if nm in self.ptrs:
                    old = self.ptrs[nm]
                    self.ptrs[nm] = old + dlt
                    return None
                if nm in self.env and isinstance(self.env[nm], int):
                    old = self.env[nm]
                    new = self.conv(old + dlt, ir.qtype(ks[0]))
                    self.env[nm] = new
                    return old if n.get("isPostfix") else new
                raise Unknown("%s on `%s`" % (op, nm))
            v = self.ev(ks[0])
            if not isinstance(v, int):
                raise Unknown("unary %s of a byte form" % op)
            if op == "-":
                return self.conv(-v, ir.qtype(n))
            if op == "~":
                return self.conv(~v, ir.qtype(n))
            if op == "!":
                return 0 if v else 1
            if op == "+":
                return v
            raise Unknown("unary %s" % op)
        if k == "UnaryExprOrTypeTraitExpr" or k == "ConstantExpr":
            try:
                return ceval.ev(n, ceval.Ctx(self.d))
            except (ceval.Unknown, ceval.UB) as e:
                raise Unknown(str(e))
        if k == "ConditionalOperator":
            c = self.ev(ks[0])
            if not isinstance(c, int):
                raise Unknown("condition on a byte form")
            return self.ev(ks[1] if c else ks[2])
        if k in ("BinaryOperator", "CompoundAssignOperator"):
            op = n.get("opcode")
            if op == "=" or (k == "CompoundAssignOperator"):
                t = ir.strip(ks[0])
                nm = (t.get("referencedDecl") or {}).get("name") if t.get("kind") == "DeclRefExpr" else None
                if nm is None:
                    raise Unknown("store to `%s`" % ir.show(ir.sx(ks[0]))[:40])
                if nm in self.ptrs or ("*" in ir.qtype(t)):
                    if op == "=":
                        o = self.ptr(ks[1])
                        if o is None:
                            raise Unknown("pointer `%s` leaves the buffer" % nm)
                        self.ptrs[nm] = o
                        return None
                    b = self.ev(ks[1])
                    if op in ("+=", "-=") and isinstance(b, int) and nm in self.ptrs:
                        self.ptrs[nm] += b if op == "+=" else -b
                        return None
                    raise Unknown("pointer update %s" % op)
                rhs = self.ev(ks[1])
                if op == "=":
                    val = rhs
                else:
                    ctype = (n.get("computeResultType") or {}).get("qualType") or ir.qtype(n)
                    cur = self.env.get(nm)
                    if cur is None:
                        raise Unknown("`%s` used before it has a value" % nm)
                    cur = self.conv(cur, (n.get("computeLHSType") or {}).get("qualType") or ctype)
                    val = self.binop(op[:-1], cur, rhs, ctype)
                val = self.conv(val, ir.qtype(ks[0]))
                self.env[nm] = val
                return val
            if op == ",":
                self.ev(ks[0])
                return self.ev(ks[1])
            if op in ("&&", "||"):
                a = self.ev(ks[0])
                if not isinstance(a, int):
                    raise Unknown("condition on a byte form")
                if (op == "&&" and not a) or (op == "||" and a):
                    return 1 if a else 0
                b = self.ev(ks[1])
                if not isinstance(b, int):
                    raise Unknown("condition on a byte form")
                return 1 if b else 0
            if op in ("-",) and self.ptr(ks[0]) is not None and self.ptr(ks[1]) is not None:
                return self.ptr(ks[0]) - self.ptr(ks[1])
            if op in ("<", "<=", ">", ">=", "==", "!=") and self.ptr(ks[0]) is not None and self.ptr(ks[1]) is not None:
                a, b = self.ptr(ks[0]), self.ptr(ks[1])
                return int({"<": a < b, "<=": a <= b, ">": a > b, ">=": a >= b, "==": a == b, "!=": a != b}[op])
            a = self.ev(ks[0])
            b = self.ev(ks[1])
            return self.binop(op, a, b, ir.qtype(n))
        raise Unknown("expression kind %s" % k)

    def binop(self, op, a, b, q):
        if isinstance(a, int) and isinstance(b, int):
            if op in ("<", "<=", ">", ">=", "==", "!="):
                return int({"<": a < b, "<=": a <= b, ">": a > b, ">=": a >= b, "==": a == b, "!=": a != b}[op])
            try:
                if op == "+":
                    return ceval.checked(a + b, q, "+")
                if op == "-":
                    return ceval.checked(a - b, q, "-")
                if op == "*":
                    return ceval.checked(a * b, q, "*")
                if op == "<<":
                    return ceval.checked(a << b, q, "<<") if 0 <= b < 64 else self._ub("shift by %d" % b)
                if op == ">>":
                    return a >> b if 0 <= b < 64 else self._ub("shift by %d" % b)
                if op == "&":
                    return ceval.conv(a & b, q)
                if op == "|":
                    return ceval.conv(a | b, q)
                if op == "^":
                    return ceval.conv(a ^ b, q)
                if op in ("/", "%") and b != 0 and a >= 0 and b > 0:
                    return a // b if op == "/" else a % b
            except (ceval.UB, ceval.Unknown) as e:
                raise Unknown(str(e))
            raise Unknown("operator %s" % op)
        w = self.width(q)
        mod = w[0] if w and w[1] else None
        sa = a if isinstance(a, Sym) else (Sym({"": a}) if a else Sym())
        sb = b if isinstance(b, Sym) else (Sym({"": b}) if b else Sym())
        if op == "+":
            return (sa + sb).scale(1, mod)
        if op == "<<" and isinstance(b, int) and 0 <= b < 64:
            return sa.scale(1 << b, mod)
        if op == "*" and (isinstance(b, int) or isinstance(a, int)):
            return (sa.scale(b, mod) if isinstance(b, int) else sb.scale(a, mod))
        if op in ("|", "^"):
            if not sa:
                return sb
            if not sb:
                return sa
            if _disjoint(sa, sb):
                return (sa + sb).scale(1, mod)
            raise Unknown("`%s` %s `%s`: the operands do not occupy disjoint bits" % (sa.show(), op, sb.show()))
        raise Unknown("operator %s on a byte form" % op)

    def _ub(self, what):
        raise Unknown("undefined behaviour: %s" % what)

    # ---- statements -----------------------------------------------------------------------------------------------------
    def truth(self, n):
        v = self.ev(n)
        if not isinstance(v, int):
            raise Unknown("condition on a byte form")
        return bool(v)

    def run(self, s):
        """-> ("fall", None) | ("return", value) | ("break", None) | ("continue", None)"""
        self.steps += 1
        if self.steps > self.max_steps:
            raise Unknown("step limit")
        k = s.get("kind")
        ks = ir.kids(s)
        if k == "CompoundStmt":
            for x in ks:
                r = self.run(x)
                if r[0] != "fall":
                    return r
            return ("fall", None)
        if k == "NullStmt":
            return ("fall", None)
        if k == "DeclStmt":
            for v in ks:
                if v.get("kind") != "VarDecl":
                    continue
                init = ir.ekids(v)
                if "*" in ir.qtype(v):
                    o = self.ptr(init[-1]) if init else None
                    if o is None:
                        raise Unknown("pointer local `%s`" % v.get("name"))
                    self.ptrs[v.get("name")] = o
                elif init:
                    self.env[v.get("name")] = self.conv(self.ev(init[-1]), ir.qtype(v))
                else:
                    self.env.pop(v.get("name"), None)
            return ("fall", None)
        if k == "ReturnStmt":
            e = ir.ekids(s)
            return ("return", self.ev(e[0]) if e else None)
        if k == "BreakStmt":
            return ("break", None)
        if k == "ContinueStmt":
            return ("continue", None)
        if k == "IfStmt":
            raw = [c for c in s.get("inner", []) if isinstance(c, dict) and c.get("kind")]
            if self.truth(raw[0]):
                return self.run(raw[1])
            if len(raw) > 2:
                return self.run(raw[2])
            return ("fall", None)
        if k in ("WhileStmt", "DoStmt", "ForStmt"):
            raw = s.get("inner", [])

            def node(x):
                return x if isinstance(x, dict) and x.get("kind") else None
            if k == "ForStmt":
                init, cond, inc, body = node(raw[0]), node(raw[2]), node(raw[3]), node(raw[4])
            elif k == "WhileStmt":
                r2 = [c for c in raw if node(c)]
                init, cond, inc, body = None, r2[-2], None, r2[-1]
            else:
                r2 = [c for c in raw if node(c)]
                init, cond, inc, body = None, r2[1], None, r2[0]
            if init is not None:
                self.run(init)
            first = True
            for _ in range(300):
                if not (k == "DoStmt" and first):
                    if cond is not None and not self.truth(cond):
                        return ("fall", None)
                first = False
                r = self.run(body)
                if r[0] == "return":
                    return r
                if r[0] == "break":
                    return ("fall", None)
                if inc is not None:
                    self.ev(inc)
            raise Unknown("loop does not end within 300 iterations")
        if k == "SwitchStmt":
            raw = [c for c in s.get("inner", []) if isinstance(c, dict) and c.get("kind")]
            v = self.ev(raw[-2])
            if not isinstance(v, int):
                raise Unknown("switch on a byte form")
            flat = []

            def flatten(st):
                if st.get("kind") in ("CaseStmt", "DefaultStmt"):
                    flat.append(("label", st))
                    kk = ir.kids(st)
                    if kk and kk[-1].get("kind"):
                        flatten(kk[-1])
                else:
                    flat.append(("stmt", st))
            body = raw[-1]
            for st in (ir.kids(body) if body.get("kind") == "CompoundStmt" else [body]):
                flatten(st)
            start = None
            for i, (t, st) in enumerate(flat):
                if t == "label" and st.get("kind") == "CaseStmt":
                    try:
                        cv = ceval.ev(ir.ekids(st)[0], ceval.Ctx(self.d))
                    except (ceval.Unknown, ceval.UB) as e:
                        raise Unknown("case label: %s" % e)
                    if cv == v:
                        start = i
                        break
            if start is None:
                for i, (t, st) in enumerate(flat):
                    if t == "label" and st.get("kind") == "DefaultStmt":
                        start = i
            if start is None:
                return ("fall", None)
            for t, st in flat[start:]:
                if t == "stmt":
                    r = self.run(st)
                    if r[0] == "break":
                        return ("fall", None)
                    if r[0] != "fall":
                        return r
            return ("fall", None)
        # expression statement
        self.ev(s)
        return ("fall", None)


def little_endian(n):
    return Sym({("b", i): 1 << (8 * i) for i in range(n)})
