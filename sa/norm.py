"""Small normalisers shared by the rules: so that a rule sees through hoisted locals, swapped operands, negated conditions and the
for/while spelling of a loop, and decides on what the code computes rather than on how it is written."""
from . import ir
from .linear import Lin

FLIP = {"<": ">", ">": "<", "<=": ">=", ">=": "<=", "==": "==", "!=": "!="}
NEGOP = {"<": ">=", ">=": "<", ">": "<=", "<=": ">", "==": "!=", "!=": "=="}


def uncast(t):
    while isinstance(t, tuple) and t and (t[0] == "cast" or (t[0] == "construct" and len(t) == 3)):
        t = t[3] if t[0] == "cast" else t[2]
    return t


def deep_uncast(t):
    if not isinstance(t, tuple):
        return t
    t = uncast(t)
    return tuple(deep_uncast(x) if isinstance(x, tuple) else x for x in t)


def norm_cmp(t, is_subject):
    """a (possibly negated / operand-swapped) comparison -> (op, subject, other) with the subject on the left; None if t is not one"""
    t = uncast(t)
    neg = False
    while t[0] == "un" and t[1] == "!":
        neg = not neg
        t = uncast(t[2])
    if t[0] != "bin" or t[1] not in FLIP:
        return None
    op, a, b = t[1], uncast(t[2]), uncast(t[3])
    if not is_subject(a) and is_subject(b):
        op, a, b = FLIP[op], b, a
    if not is_subject(a):
        return None
    if neg:
        op = NEGOP[op]
    return op, a, b


def int_of(t):
    t = uncast(t)
    if t[0] == "lit":
        try:
            return int(str(t[1]), 0)
        except ValueError:
            try:
                return int(str(t[1]).rstrip("uUlL"), 0)
            except ValueError:
                return None
    if t[0] == "un" and t[1] == "-":
        v = int_of(t[2])
        return None if v is None else -v
    if t[0] == "sizeof":
        return None
    return None


def loop_parts(loop):
    """(condition node or None, [expression nodes of one iteration in execution order: top-level body statements, then the increment])"""
    raw = [x for x in loop.get("inner", [])]
    k = loop.get("kind")

    def node(x):
        return x if isinstance(x, dict) and x.get("kind") else None
    if k == "ForStmt":
        cond, inc, body = node(raw[2]), node(raw[3]), node(raw[4])
    elif k == "WhileStmt":
        r2 = [c for c in raw if node(c)]
        cond, inc, body = r2[-2], None, r2[-1]
    elif k == "DoStmt":
        r2 = [c for c in raw if node(c)]
        cond, inc, body = r2[1], None, r2[0]
    else:
        return None, [], None
    seq = []
    if body is not None:
        seq += list(ir.kids(body)) if body.get("kind") == "CompoundStmt" else [body]
    parts = []

    def flat(x):
        x = ir.strip(x)
        if x.get("kind") == "BinaryOperator" and x.get("opcode") == ",":
            for y in ir.ekids(x):
                flat(y)
        else:
            parts.append(x)
    for x in seq:
        if x.get("kind") in ("DeclStmt", "IfStmt", "ForStmt", "WhileStmt", "SwitchStmt", "CompoundStmt", "ReturnStmt", "BreakStmt", "ContinueStmt", "NullStmt", "DoStmt"):
            parts.append(x)
        else:
            flat(x)
    if inc is not None:
        flat(inc)
    return cond, parts, body


def sym_step(parts, on_part=None):
    """execute the parts of one iteration symbolically over linear forms of the variables' values at the loop head.
    -> env: variable name -> Lin (missing = unchanged).  A variable assigned something non-linear becomes a fresh symbol name'."""
    from . import linear
    env = {}

    def lin_of(node):
        lf = linear.lin(ir.sx(node), lambda x: x[1] if x[0] == "ref" else None)
        if lf is None:
            return None
        out = Lin()
        for k_, c_ in lf.items():
            if k_ in env:
                out = out + Lin({a_: b_ * c_ for a_, b_ in env[k_].items()})
            else:
                out = out + Lin({k_: c_})
        return out
    for x in parts:
        if on_part is not None:
            on_part(x, env, lin_of)
        k = x.get("kind")
        ks = ir.ekids(x)
        if k in ("BinaryOperator", "CompoundAssignOperator") and x.get("opcode") in ("=", "-=", "+=") and ir.strip(ks[0]).get("kind") == "DeclRefExpr":
            nm = (ir.strip(ks[0]).get("referencedDecl") or {}).get("name")
            rhs = lin_of(ks[1])
            cur = env.get(nm, Lin({nm: 1}))
            if rhs is None:
                env[nm] = Lin({nm + "'": 1})
            elif x.get("opcode") == "=":
                env[nm] = rhs
            else:
                env[nm] = cur - rhs if x.get("opcode") == "-=" else cur + rhs
        elif k in ("BinaryOperator", "CompoundAssignOperator") and x.get("opcode", "").endswith("=") and x.get("opcode") not in ("==", "!=", "<=", ">=") \
                and ir.strip(ks[0]).get("kind") == "DeclRefExpr":
            nm = (ir.strip(ks[0]).get("referencedDecl") or {}).get("name")
            env[nm] = Lin({nm + "'": 1})
        elif k == "UnaryOperator" and x.get("opcode") in ("++", "--") and ir.strip(ks[0]).get("kind") == "DeclRefExpr":
            nm = (ir.strip(ks[0]).get("referencedDecl") or {}).get("name")
            cur = env.get(nm, Lin({nm: 1}))
            env[nm] = cur + Lin({"": 1 if x.get("opcode") == "++" else -1})
    return env


class Undecided(Exception):
    pass


def truth_table(d, fn, classify, n_atoms):
    """{assignment tuple: bool} of a bool-returning function over n abstract atoms, decided along every path (if/early return, ?:, && ||, !,
    hoisted bool locals).  classify(term) -> f(assignment) -> bool for an atomic comparison, or None if the term is not one."""
    import itertools
    from . import flow
    from . import fstring as fs
    loc = fs.local_sx(fn)

    def tv(t, assign):
        t = uncast(t)
        k = t[0]
        if k == "lit" and t[1] in ("true", "false"):
            return t[1] == "true"
        c = classify(t)
        if c is not None:
            return c(assign)
        if k == "un" and t[1] == "!":
            x = tv(t[2], assign)
            return None if x is None else not x
        if k == "cond":
            c_ = tv(t[1], assign)
            return None if c_ is None else tv(t[2] if c_ else t[3], assign)
        if k == "bin" and t[1] in ("&&", "||"):
            x = tv(t[2], assign)
            if x is None:
                return None
            if x == (t[1] == "||"):
                return x
            return tv(t[3], assign)
        return None
    paths = flow.function_paths(fn, with_ctor_inits=False)
    table = {}
    for assign in itertools.product((True, False), repeat=n_atoms):
        got = set()
        for path in paths:
            feas = True
            for st in path:
                if st[0] == "cond":
                    x = tv(fs.subst_locals(ir.sx(st[1]), loc), assign)
                    if x is None:
                        raise Undecided("condition `%s`" % d.text(st[1])[:60])
                    if x != st[2]:
                        feas = False
                        break
            if not feas:
                continue
            end = path[-1]
            if end[0] != "return" or not ir.ekids(end[1]):
                raise Undecided("a path does not return a value")
            x = tv(fs.subst_locals(ir.sx(ir.ekids(end[1])[0]), loc), assign)
            if x is None:
                lastc = [st for st in path if st[0] == "cond"]
                rt = uncast(fs.subst_locals(ir.sx(ir.ekids(end[1])[0]), loc))
                if lastc and rt[0] in ("bin", "un", "cond"):
                    x = None
                raise Undecided("returned expression `%s`" % d.text(ir.ekids(end[1])[0])[:60]) if x is None else None
            got.add(x)
        if len(got) != 1:
            raise Undecided("paths disagree or none is feasible for %s" % (assign,))
        table[assign] = got.pop()
    return table
