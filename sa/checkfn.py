"""Symbolic summaries of small checking functions (check_size, check_index, at, ...).

A function is executed over linear forms: parameters are symbols, integer locals are forms over them, a pure call that is
not followed (size(), data(), ...) is a symbol named by its text.  Conditions fork the execution and leave linear facts on
each branch; a call of a function of the repository that has a body is followed (its outcomes are spliced in), so a body
split into helpers, a guard written the other way round, a ternary, an early return or a never-returning reporter all give
the same summary as the plain form.

summarise(d, fn, args) -> list of (facts, end)
    facts  list of Lin, each meaning form >= 0 on that path
    end    ("ret", Lin | None)  |  ("throw", type-string)  |  ("noreturn", callee-name)

Anything that is not understood raises Undecided: the caller reports the instance as inconclusive, never as a violation.
"""
from . import ir, ceval
from .linear import Lin, atom_facts, NEG


class Undecided(Exception):
    pass


NORETURN_STD = {"terminate", "abort", "exit", "_Exit", "quick_exit", "unreachable", "__builtin_unreachable", "__builtin_trap"}
CMP = {"<", "<=", ">", ">=", "==", "!="}
MAX_DEPTH = 5
MAX_FORKS = 256


class _Frame:
    def __init__(self, env, this_alias, depth):
        self.env = env                 # name -> Lin
        self.this_alias = this_alias   # names of locals that are *this
        self.depth = depth


class Summariser:
    def __init__(self, d, follow=None):
        self.d = d
        self.follow = follow           # optional predicate on a callee declaration: follow it or keep the call as a symbol
        self.followed = []             # names of the functions that were inlined (for evidence)

    # ---- declarations ---------------------------------------------------------------------------------------------
    def callee_decl(self, n):
        """the declaration with a body a call resolves to, or None"""
        n0 = ir.strip(ir.ekids(n)[0]) if ir.ekids(n) else None
        if n0 is None:
            return None, None, None
        rd = None
        base = None
        if n0.get("kind") == "MemberExpr":
            rd = (n0.get("referencedMemberDecl") and self.d.by_id.get(n0.get("referencedMemberDecl"))) or None
            base = ir.ekids(n0)[0] if ir.ekids(n0) else None
            name = (n0.get("name") or "").lstrip("->.")
        elif n0.get("kind") == "DeclRefExpr":
            r = n0.get("referencedDecl") or {}
            rd = self.d.by_id.get(r.get("id"))
            name = r.get("name")
        else:
            return None, None, None
        if rd is not None and ir.body(rd) is None:
            # a later definition of the same entity
            for g in self.d.redecls(rd) if hasattr(self.d, "redecls") else []:
                if ir.body(g) is not None:
                    rd = g
                    break
        return rd, base, name

    def is_this(self, base, fr):
        if base is None:
            return True
        b = ir.strip(base)
        while b.get("kind") in ("CXXConstCastExpr", "CXXStaticCastExpr", "ParenExpr") and ir.ekids(b):
            b = ir.strip(ir.ekids(b)[-1])
        if b.get("kind") == "CXXThisExpr":
            return True
        if b.get("kind") == "UnaryOperator" and b.get("opcode") == "*":
            return self.is_this(ir.ekids(b)[0], fr)
        if b.get("kind") == "DeclRefExpr":
            return (b.get("referencedDecl") or {}).get("name") in fr.this_alias
        return False

    # ---- values ------------------------------------------------------------------------------------------------------
    def const(self, n):
        try:
            v = ceval.ev(n, ceval.Ctx(self.d))
        except Exception:
            return None
        if isinstance(v, bool):
            v = int(v)
        return v if isinstance(v, int) else None

    def val(self, n, fr, facts):
        """-> list of (facts, Lin | ("throw", ty) | ("noreturn", nm))"""
        n = ir.strip(n)
        k = n.get("kind")
        ks = ir.ekids(n)
        if k in ("CXXStaticCastExpr", "CXXFunctionalCastExpr", "CStyleCastExpr", "CXXConstCastExpr") and ks:
            return self.val(ks[-1], fr, facts)
        if k == "IntegerLiteral":
            v = int(n.get("value"))
            return [(facts, Lin({"": v}) if v else Lin())]
        if k == "DeclRefExpr":
            nm = (n.get("referencedDecl") or {}).get("name")
            if nm in fr.env:
                return [(facts, fr.env[nm])]
            c = self.const(n)
            if c is not None:
                return [(facts, Lin({"": c}) if c else Lin())]
            raise Undecided("value of `%s` unknown" % nm)
        if k == "SubstNonTypeTemplateParmExpr" and ks:
            return self.val(ks[-1], fr, facts)
        if k == "MemberExpr" and (not ks or self.is_this(ks[0], fr)) and n.get("referencedMemberDecl") and \
                (self.d.by_id.get(n.get("referencedMemberDecl")) or {}).get("kind") == "FieldDecl":
            return [(facts, Lin({(n.get("name") or "").lstrip("->."): 1}))]          # a data member of *this: an observable named by the member
        if k == "BinaryOperator" and n.get("opcode") in ("+", "-"):
            out = []
            for f1, a in self.val(ks[0], fr, facts):
                if not isinstance(a, Lin):
                    out.append((f1, a))
                    continue
                for f2, b in self.val(ks[1], fr, f1):
                    out.append((f2, b if not isinstance(b, Lin) else (a + b if n.get("opcode") == "+" else a - b)))
            return out
        if k == "BinaryOperator" and n.get("opcode") == ",":
            out = []
            for f1, a in self.val(ks[0], fr, facts) if self.mentions_repo_call(ks[0]) else [(facts, Lin())]:
                if not isinstance(a, Lin):
                    out.append((f1, a))
                else:
                    out += self.val(ks[1], fr, f1)
            return out
        if k == "ConditionalOperator":
            out = []
            for f1, truth in self.cond(ks[0], fr, facts):
                out += self.val(ks[1] if truth else ks[2], fr, f1)
            return out
        if k == "CXXThrowExpr":
            return [(facts, ("throw", ir.qtype(ks[0]) if ks else "rethrow"))]
        if k in ("CallExpr", "CXXMemberCallExpr"):
            return self.call(n, fr, facts)
        c = self.const(n)
        if c is not None:
            return [(facts, Lin({"": c}) if c else Lin())]
        raise Undecided("expression `%s` not evaluable" % ir.show(ir.sx(n))[:60])

    def mentions_repo_call(self, n):
        for x in ir.walk_expr(n):
            if x.get("kind") in ("CallExpr", "CXXMemberCallExpr"):
                rd, _, _ = self.callee_decl(x)
                if rd is not None and ir.in_repo(rd) and ir.body(rd) is not None:
                    return True
            if x.get("kind") == "CXXThrowExpr":
                return True
        return n.get("kind") == "CXXThrowExpr"

    def call(self, n, fr, facts):
        rd, base, name = self.callee_decl(n)
        args = ir.ekids(n)[1:]
        short = (name or "").split("::")[-1]
        if short in NORETURN_STD:
            return [(facts, ("noreturn", short))]
        if rd is not None and ir.in_repo(rd) and ir.body(rd) is not None and fr.depth < MAX_DEPTH and (self.follow is None or self.follow(rd)) \
                and (rd.get("kind") != "CXXMethodDecl" or rd.get("storageClass") == "static" or self.is_this(base, fr)):
            ps = ir.params(rd)
            # evaluate the arguments that are integers; others (messages, tags) are not needed
            combos = [(facts, [])]
            for p, a in zip(ps, args):
                nxt = []
                for f1, got in combos:
                    if a.get("kind") == "CXXDefaultArgExpr" or not self.integral(p):
                        nxt.append((f1, got + [None]))
                        continue
                    for f2, v in self.val(a, fr, f1):
                        if not isinstance(v, Lin):
                            return [(f2, v)]
                        nxt.append((f2, got + [v]))
                combos = nxt
            out = []
            try:
                probe = [e for f1, got in combos for _f, e in self.run(rd, got, f1, fr.depth + 1)]
            except Undecided:
                probe = None
            if probe is not None and all(e == ("ret", None) for e in probe):
                return self.observer(n, base, args, fr, facts)      # no outcome of its own: an observer, named by its text
            self.followed.append(rd.get("name"))
            for f1, got in combos:
                for f2, end in self.run(rd, got, f1, fr.depth + 1):
                    if end[0] == "ret":
                        # a result that is not an integer form (a reference, a pointer, void) is an opaque symbol
                        out.append((f2, end[1] if end[1] is not None else Lin({"ret:%s" % rd.get("name"): 1})))
                    else:
                        out.append((f2, end))
            if len(out) > MAX_FORKS:
                raise Undecided("too many paths")
            return out
        return self.observer(n, base, args, fr, facts)

    def observer(self, n, base, args, fr, facts):
        """a call that is not followed: a pure observer, represented by its text"""
        if args and any(self.mentions_repo_call(a) for a in args):
            raise Undecided("call `%s` with effectful arguments" % ir.show(ir.sx(n))[:60])
        t = ir.sx(n)
        if t[0] == "call" and t[1][0] == "mem" and self.is_this(base, fr):
            t = ("call", ("mem", ("this",), t[1][2])) + tuple(t[2:])
        sym = ir.show(self.subst(t, fr))
        return [(facts, Lin({sym: 1}))]

    def subst(self, t, fr):
        if isinstance(t, tuple):
            if t[0] == "ref" and t[1] in fr.env:
                return ("ref", "{" + fr.env[t[1]].show() + "}")
            return tuple(self.subst(x, fr) for x in t)
        return t

    @staticmethod
    def integral(p):
        ty = ir.qtype(p).replace("const ", "").strip()
        return not any(x in ty for x in ("*", "&", "string", "char")) or ty in ("char", "unsigned char", "signed char")

    @staticmethod
    def integral_ret(fn):
        ty = (fn.get("type") or {}).get("qualType", "")
        r = ty.split("(")[0].strip()
        return r not in ("void", "") and "*" not in r and "&" not in r and "bool" != r

    # ---- conditions ----------------------------------------------------------------------------------------------------
    def cond(self, n, fr, facts):
        """-> list of (facts, truth); an end value (throw / noreturn) inside a condition propagates as truth = end tuple"""
        n = ir.strip(n)
        k = n.get("kind")
        ks = ir.ekids(n)
        if k == "UnaryOperator" and n.get("opcode") == "!":
            return [(f, (not t) if isinstance(t, bool) else t) for f, t in self.cond(ks[0], fr, facts)]
        if k == "BinaryOperator" and n.get("opcode") in ("&&", "||"):
            is_and = n.get("opcode") == "&&"
            out = []
            for f1, t1 in self.cond(ks[0], fr, facts):
                if not isinstance(t1, bool) or t1 != is_and:
                    out.append((f1, t1))
                else:
                    out += self.cond(ks[1], fr, f1)
            return out
        if k == "BinaryOperator" and n.get("opcode") in CMP:
            out = []
            for f1, a in self.val(ks[0], fr, facts):
                if not isinstance(a, Lin):
                    out.append((f1, a))
                    continue
                for f2, b in self.val(ks[1], fr, f1):
                    if not isinstance(b, Lin):
                        out.append((f2, b))
                        continue
                    op = n.get("opcode")
                    dlt = a - b
                    if not (set(dlt) - {""}):
                        c = dlt.const()
                        out.append((f2, {"<": c < 0, "<=": c <= 0, ">": c > 0, ">=": c >= 0, "==": c == 0, "!=": c != 0}[op]))
                        continue
                    out.append((f2 + atom_facts(op, a, b), True))
                    out.append((f2 + atom_facts(NEG[op], a, b), False))
            return out
        if k == "CXXBoolLiteralExpr":
            return [(facts, bool(n.get("value")))]
        if k == "ConditionalOperator":
            out = []
            for f1, t1 in self.cond(ks[0], fr, facts):
                if not isinstance(t1, bool):
                    out.append((f1, t1))
                else:
                    out += self.cond(ks[1] if t1 else ks[2], fr, f1)
            return out
        c = self.const(n)
        if c is not None:
            return [(facts, bool(c))]
        raise Undecided("condition `%s` not evaluable" % ir.show(ir.sx(n))[:60])

    # ---- statements -----------------------------------------------------------------------------------------------------
    def stmts(self, body, fr, facts):
        """-> list of (facts, env, end | None)"""
        states = [(facts, dict(fr.env), None)]
        for s in body:
            nxt = []
            for f1, env, end in states:
                if end is not None:
                    nxt.append((f1, env, end))
                    continue
                fr1 = _Frame(env, fr.this_alias, fr.depth)
                nxt += self.stmt(s, fr1, f1)
            states = nxt
            if len(states) > MAX_FORKS:
                raise Undecided("too many paths")
        return states

    def stmt(self, s, fr, facts):
        k = s.get("kind")
        ks = ir.kids(s)
        if k == "CompoundStmt":
            return self.stmts(ks, fr, facts)
        if k == "NullStmt":
            return [(facts, fr.env, None)]
        if k == "IfStmt":
            eks = [x for x in ks]
            if s.get("hasInit") or s.get("hasVar"):
                raise Undecided("if with an initialiser")
            c, th = eks[0], eks[1]
            el = eks[2] if len(eks) > 2 else None
            out = []
            for f1, t in self.cond(c, fr, facts):
                if not isinstance(t, bool):
                    out.append((f1, fr.env, t))
                elif t:
                    out += self.stmt(th, _Frame(dict(fr.env), fr.this_alias, fr.depth), f1)
                elif el is not None:
                    out += self.stmt(el, _Frame(dict(fr.env), fr.this_alias, fr.depth), f1)
                else:
                    out.append((f1, fr.env, None))
            return out
        if k == "ReturnStmt":
            eks = ir.ekids(s)
            if not eks:
                return [(facts, fr.env, ("ret", None))]
            try:
                return [(f1, fr.env, ("ret", v) if isinstance(v, Lin) else v) for f1, v in self.val(eks[0], fr, facts)]
            except Undecided:
                if self.mentions_repo_call(eks[0]):
                    return self.effects(eks[0], fr, facts, ("ret", None))
                return [(facts, fr.env, ("ret", None))]
        if k == "DeclStmt":
            states = [(facts, fr.env, None)]
            for v in ks:
                if v.get("kind") != "VarDecl":
                    continue
                nxt = []
                for f1, env, end in states:
                    if end is not None:
                        nxt.append((f1, env, end))
                        continue
                    fr1 = _Frame(env, fr.this_alias, fr.depth)
                    init = ir.ekids(v)[-1] if ir.ekids(v) else None
                    if init is not None and "&" in ir.qtype(v) and self.is_this_expr(init, fr1):
                        fr.this_alias.add(v.get("name"))
                        nxt.append((f1, env, None))
                        continue
                    if init is None or not self.integral(v):
                        if init is not None and self.mentions_repo_call(init):
                            nxt += self.effects(init, fr1, f1, None)
                        else:
                            nxt.append((f1, env, None))
                        continue
                    try:
                        for f2, val in self.val(init, fr1, f1):
                            if isinstance(val, Lin):
                                e2 = dict(env)
                                e2[v.get("name")] = val
                                nxt.append((f2, e2, None))
                            else:
                                nxt.append((f2, env, val))
                    except Undecided:
                        if self.mentions_repo_call(init):
                            raise
                        nxt.append((f1, env, None))
                states = nxt
            return states
        if k == "CXXThrowExpr":
            eks = ir.ekids(s)
            return [(facts, fr.env, ("throw", ir.qtype(eks[0]) if eks else "rethrow"))]
        if k in ("ForStmt", "WhileStmt", "DoStmt", "SwitchStmt", "CXXTryStmt", "CXXForRangeStmt", "GotoStmt", "BreakStmt", "ContinueStmt"):
            raise Undecided("%s in a checking function" % k)
        # an expression statement
        n = ir.strip(s)
        if n.get("kind") == "CXXThrowExpr":
            eks = ir.ekids(n)
            return [(facts, fr.env, ("throw", ir.qtype(eks[0]) if eks else "rethrow"))]
        if n.get("kind") in ("CallExpr", "CXXMemberCallExpr"):
            out = []
            for f1, v in self.call_stmt(n, fr, facts):
                out.append((f1, fr.env, None if isinstance(v, Lin) else v))
            return out
        if n.get("kind") == "BinaryOperator" and n.get("opcode") == "=" and ir.strip(ir.ekids(n)[0]).get("kind") == "DeclRefExpr":
            nm = (ir.strip(ir.ekids(n)[0]).get("referencedDecl") or {}).get("name")
            if nm in fr.env:
                out = []
                for f1, v in self.val(ir.ekids(n)[1], fr, facts):
                    if isinstance(v, Lin):
                        e2 = dict(fr.env)
                        e2[nm] = v
                        out.append((f1, e2, None))
                    else:
                        out.append((f1, fr.env, v))
                return out
        if self.mentions_repo_call(n):
            return self.effects(n, fr, facts, None)
        self.kill_assigned(n, fr)
        return [(facts, fr.env, None)]

    def kill_assigned(self, n, fr):
        for x in ir.walk_expr(n):
            if x.get("kind") in ("BinaryOperator", "CompoundAssignOperator", "UnaryOperator") and \
                    (x.get("opcode") in ("=", "+=", "-=", "*=", "/=", "++", "--", "|=", "&=", "<<=", ">>=", "%=", "^=")):
                t = ir.strip(ir.ekids(x)[0])
                if t.get("kind") == "DeclRefExpr" and (t.get("referencedDecl") or {}).get("name") in fr.env:
                    raise Undecided("`%s` is modified in a form that is not followed" % (t.get("referencedDecl") or {}).get("name"))

    def is_this_expr(self, n, fr):
        b = ir.strip(n)
        while b.get("kind") in ("CXXConstCastExpr", "CXXStaticCastExpr", "ParenExpr") and ir.ekids(b):
            b = ir.strip(ir.ekids(b)[-1])
        return b.get("kind") == "UnaryOperator" and b.get("opcode") == "*" and self.is_this(ir.ekids(b)[0], fr) and \
            ir.strip(ir.ekids(b)[0]).get("kind") == "CXXThisExpr" or (b.get("kind") == "DeclRefExpr" and (b.get("referencedDecl") or {}).get("name") in fr.this_alias)

    def call_stmt(self, n, fr, facts):
        try:
            return self.call(n, fr, facts)
        except Undecided:
            if self.mentions_repo_call(n):
                raise
            return [(facts, Lin())]

    def effects(self, n, fr, facts, end):
        """an expression that is not evaluable as an integer but contains followed calls: run those for their outcomes, in
        evaluation order of a left-to-right walk (only straight-line nesting: no short-circuit operators above the calls)"""
        n = ir.strip(n)
        k = n.get("kind")
        ks = ir.ekids(n)
        if k in ("CallExpr", "CXXMemberCallExpr"):
            rd, base, name = self.callee_decl(n)
            if rd is not None and ir.in_repo(rd) and ir.body(rd) is not None and (self.follow is None or self.follow(rd)) and \
                    (rd.get("kind") != "CXXMethodDecl" or rd.get("storageClass") == "static" or self.is_this(base, fr)):
                return [(f1, fr.env, end if isinstance(v, Lin) else v) for f1, v in self.call(n, fr, facts)]
        if k in ("ConditionalOperator",):
            out = []
            for f1, t in self.cond(ks[0], fr, facts):
                if not isinstance(t, bool):
                    out.append((f1, fr.env, t))
                else:
                    br = ks[1] if t else ks[2]
                    out += self.effects(br, fr, f1, end) if self.mentions_repo_call(br) else [(f1, fr.env, end)]
            return out
        if k == "BinaryOperator" and n.get("opcode") in ("&&", "||"):
            raise Undecided("followed call under a short-circuit operator")
        if k == "CXXThrowExpr":
            return [(facts, fr.env, ("throw", ir.qtype(ks[0]) if ks else "rethrow"))]
        states = [(facts, fr.env, None)]
        for c in ks:
            if not self.mentions_repo_call(c):
                continue
            nxt = []
            for f1, env, e1 in states:
                if e1 is not None:
                    nxt.append((f1, env, e1))
                else:
                    nxt += self.effects(c, fr, f1, None)
            states = nxt
        return [(f1, env, e1 if e1 is not None else end) for f1, env, e1 in states]

    # ---- functions -------------------------------------------------------------------------------------------------------
    def run(self, fn, args, facts=None, depth=0, this_alias=None):
        b = ir.body(fn)
        if b is None:
            raise Undecided("`%s` has no body" % fn.get("name"))
        env = {}
        for p, a in zip(ir.params(fn), args):
            if a is not None:
                env[p.get("name")] = a
        fr = _Frame(env, set(this_alias or ()), depth)
        out = []
        for f1, _env, end in self.stmts(ir.kids(b), fr, list(facts or [])):
            out.append((f1, end if end is not None else ("ret", None)))
        return out


def summarise(d, fn, args, follow=None):
    s = Summariser(d, follow)
    return s.run(fn, args), s
