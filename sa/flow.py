"""Path enumeration over clang's structured statements (xtl's bodies are goto-free).

A path is a list of steps in evaluation order:
  ("ev", node)            an effectful / interesting expression node, emitted in post-order (operands before operator,
                          arguments before the call; the right operand of an assignment before the left, as in C++17)
  ("cond", node, bool)    a branch atom (&&, ||, !, ?: and statement conditions are split down to atoms)
  ("decl", vardecl)       a local variable comes into existence (its initialiser's events precede it)
  ("return", node|None)   normal exit through a return statement
  ("throw", node)         a throw expression was evaluated / a call raised (node = the throwing call)
  ("catch", handler)      control entered a catch handler
  ("end",)                fell off the end of the body
Every enumerated path ends with exactly one of return / end / ("escape", node) (an exception leaves the function).

Loops are unrolled `unroll` times (default: 0 and 1 iterations, which is exact for the idempotent typestates used here);
`may_throw(node)` decides which call events fork an exceptional successor.
"""
from . import ir
from .clangjson import AnalysisBroken

EVENT_KINDS = {"CallExpr", "CXXMemberCallExpr", "CXXOperatorCallExpr", "CXXConstructExpr", "CXXTemporaryObjectExpr",
               "CXXNewExpr", "CXXDeleteExpr", "CompoundAssignOperator", "CXXUnresolvedConstructExpr", "CXXPseudoDestructorExpr"}


class Limit(Exception):
    pass


class Walker:
    def __init__(self, may_throw=None, unroll=1, max_paths=20000, events=None):
        self.may_throw = may_throw or (lambda n: False)
        self.unroll = unroll
        self.max_paths = max_paths
        self.extra_events = events or (lambda n: False)
        self.count = 0

    # ---- expressions ----------------------------------------------------------------------------------------------
    def expr(self, n):
        """yield (steps, outcome) with outcome 'ok' or 'throw'"""
        if n is None or not isinstance(n, dict) or not n.get("kind"):
            yield [], "ok"
            return
        k = n.get("kind")
        ks = ir.ekids(n)
        if k == "LambdaExpr":
            yield [("ev", n)], "ok"
            return
        if k == "ConditionalOperator":
            for st, out, val in self.cond(ks[0]):
                if out != "ok":
                    yield st, out
                    continue
                arm = ks[1] if val else ks[2]
                for st2, out2 in self.expr(arm):
                    yield st + st2, out2
            return
        if k == "BinaryOperator" and n.get("opcode") in ("&&", "||"):
            for st, out, val in self.cond(n):
                yield st, out
            return
        if k == "CXXThrowExpr":
            for st, out in self.seq_exprs(ks):
                if out != "ok":
                    yield st, out
                else:
                    yield st + [("throw", n)], "throw"
            return
        order = ks
        if k in ("BinaryOperator", "CompoundAssignOperator") and n.get("opcode", "").endswith("=") and n.get("opcode") not in ("==", "!=", "<=", ">="):
            order = list(reversed(ks))
        is_event = (k in EVENT_KINDS or (k == "BinaryOperator" and n.get("opcode") == "=")
                    or (k == "UnaryOperator" and n.get("opcode") in ("++", "--")) or self.extra_events(n))
        for st, out in self.seq_exprs(order):
            if out != "ok":
                yield st, out
                continue
            if is_event:
                if self.may_throw(n):
                    yield st + [("throw", n)], "throw"
                yield st + [("ev", n)], "ok"
            else:
                yield st, "ok"

    def seq_exprs(self, nodes):
        if not nodes:
            yield [], "ok"
            return
        head, rest = nodes[0], nodes[1:]
        for st, out in self.expr(head):
            if out != "ok":
                yield st, out
                continue
            for st2, out2 in self.seq_exprs(rest):
                yield st + st2, out2

    def cond(self, n):
        """yield (steps, outcome, truth)"""
        s = n
        while s.get("kind") in ir.WRAPPERS or (s.get("kind") == "ImplicitCastExpr"):
            kk = ir.ekids(s)
            if not kk:
                break
            s = kk[-1] if s.get("kind") in ir.WRAPPERS else kk[0]
        k = s.get("kind")
        ks = ir.ekids(s)
        if k == "BinaryOperator" and s.get("opcode") in ("&&", "||"):
            is_and = s.get("opcode") == "&&"
            for st, out, v in self.cond(ks[0]):
                if out != "ok":
                    yield st, out, None
                    continue
                if v != is_and:          # short circuit
                    yield st, "ok", v
                    continue
                for st2, out2, v2 in self.cond(ks[1]):
                    yield st + st2, out2, v2
            return
        if k == "UnaryOperator" and s.get("opcode") == "!":
            for st, out, v in self.cond(ks[0]):
                yield st, out, (None if v is None else not v)
            return
        if k == "CXXBoolLiteralExpr":
            yield [], "ok", bool(s.get("value"))
            return
        for st, out in self.expr(s):
            if out != "ok":
                yield st, out, None
                continue
            yield st + [("cond", s, True)], "ok", True
            yield st + [("cond", s, False)], "ok", False

    # ---- statements -----------------------------------------------------------------------------------------------
    def stmt(self, s):
        """yield (steps, outcome): outcome in fall/return/break/continue/throw"""
        if s is None or not isinstance(s, dict) or not s.get("kind"):
            yield [], "fall"
            return
        k = s.get("kind")
        if k == "CompoundStmt":
            yield from self.block(ir.kids(s))
            return
        if k == "DeclStmt":
            yield from self.decls([v for v in ir.kids(s)])
            return
        if k == "ReturnStmt":
            ks = ir.ekids(s)
            for st, out in self.expr(ks[0] if ks else None):
                if out != "ok":
                    yield st, "throw"
                else:
                    yield st + [("return", s)], "return"
            return
        if k == "IfStmt":
            raw = [c for c in s.get("inner", []) if isinstance(c, dict)]
            idx = 0
            init = None
            if s.get("hasInit"):
                init = raw[idx]; idx += 1
            if s.get("hasVar"):
                idx += 1
            cond = raw[idx]; then = raw[idx + 1] if len(raw) > idx + 1 else None
            els = raw[idx + 2] if (s.get("hasElse") and len(raw) > idx + 2) else None
            for st0, out0 in (self.stmt(init) if init is not None else [([], "fall")]):
                if out0 != "fall":
                    yield st0, out0
                    continue
                if s.get("isConstexpr") and cond.get("kind") == "ConstantExpr" and "value" in cond:
                    truth = cond["value"] not in ("false", "0", 0, False)
                    for st2, out2 in self.stmt(then if truth else els):
                        yield st0 + st2, out2
                    continue
                for st, out, v in self.cond(cond):
                    if out != "ok":
                        yield st0 + st, "throw"
                        continue
                    for st2, out2 in self.stmt(then if v else els):
                        yield st0 + st + st2, out2
            return
        if k in ("ForStmt", "WhileStmt", "DoStmt", "CXXForRangeStmt"):
            yield from self.loop(s)
            return
        if k == "CXXTryStmt":
            ks = ir.kids(s)
            tryblock, handlers = ks[0], [h for h in ks[1:] if h.get("kind") == "CXXCatchStmt"]
            for st, out in self.stmt(tryblock):
                if out != "throw":
                    yield st, out
                    continue
                if not handlers:
                    yield st, out
                    continue
                # the first handler that is a catch-all, else every handler is a possible successor (+ escape)
                catch_all = [h for h in handlers if not any(c.get("kind") == "VarDecl" for c in ir.kids(h))]
                succ = handlers if not catch_all else handlers[:handlers.index(catch_all[0]) + 1]
                for h in succ:
                    hb = [c for c in ir.kids(h) if c.get("kind") == "CompoundStmt"]
                    for st2, out2 in self.stmt(hb[0] if hb else None):
                        yield st + [("catch", h)] + st2, out2
                if not catch_all:
                    yield st, "throw"
            return
        if k == "SwitchStmt":
            yield from self.switch(s)
            return
        if k == "BreakStmt":
            yield [], "break"
            return
        if k == "ContinueStmt":
            yield [], "continue"
            return
        if k in ("NullStmt", "StaticAssertDecl", "TypeAliasDecl", "UsingDecl", "TypedefDecl", "UsingDirectiveDecl"):
            yield [], "fall"
            return
        if k in ("CaseStmt", "DefaultStmt"):
            ks = ir.kids(s)
            yield from self.stmt(ks[-1] if ks else None)
            return
        if k == "AttributedStmt":
            ks = [c for c in ir.kids(s) if not c.get("kind", "").endswith("Attr")]
            yield from self.stmt(ks[-1] if ks else None)
            return
        if k == "GotoStmt" or k == "LabelStmt":
            raise AnalysisBroken("goto in an analysed body")
        # expression statement
        for st, out in self.expr(s):
            yield st, ("fall" if out == "ok" else "throw")

    def decls(self, vs):
        if not vs:
            yield [], "fall"
            return
        v, rest = vs[0], vs[1:]
        if v.get("kind") != "VarDecl":
            yield from self.decls(rest)
            return
        init = ir.ekids(v)
        for st, out in self.expr(init[-1] if init else None):
            if out != "ok":
                yield st, "throw"
                continue
            for st2, out2 in self.decls(rest):
                yield st + [("decl", v)] + st2, out2

    def block(self, stmts):
        if not stmts:
            yield [], "fall"
            return
        head, rest = stmts[0], stmts[1:]
        for st, out in self.stmt(head):
            self.count += 1
            if self.count > self.max_paths * 50:
                raise Limit()
            if out != "fall":
                yield st, out
                continue
            for st2, out2 in self.block(rest):
                yield st + st2, out2

    def loop(self, s):
        k = s.get("kind")
        raw = s.get("inner", [])
        def node(x):
            return x if isinstance(x, dict) and x.get("kind") else None
        if k == "ForStmt":
            init, cond, inc, body = node(raw[0]), node(raw[2]), node(raw[3]), node(raw[4])
        elif k == "WhileStmt":
            raw2 = [c for c in raw if isinstance(c, dict) and c.get("kind")]
            init, cond, inc, body = None, raw2[-2], None, raw2[-1]
        elif k == "DoStmt":
            raw2 = [c for c in raw if isinstance(c, dict) and c.get("kind")]
            init, cond, inc, body = None, raw2[1], None, raw2[0]
        else:   # CXXForRangeStmt: [init?], range decl, begin, end, cond, inc, loopvar decl, body
            raw2 = [c for c in raw if isinstance(c, dict) and c.get("kind")]
            init, cond, inc, body = raw2[0], None, None, raw2[-1]

        def cond_paths():
            if cond is None:
                yield [("cond", s, True)], "ok", True
                yield [("cond", s, False)], "ok", False
            else:
                yield from self.cond(cond)

        def iterate(depth):
            # returns (steps, outcome) where outcome fall = loop left normally
            for st, out, v in cond_paths():
                if out != "ok":
                    yield st, "throw"
                    continue
                if not v:
                    yield st, "fall"
                    continue
                if depth >= self.unroll:
                    continue        # deeper iterations are not enumerated
                for st2, out2 in self.stmt(body):
                    if out2 in ("return", "throw"):
                        yield st + st2, out2
                        continue
                    if out2 == "break":
                        yield st + st2, "fall"
                        continue
                    for st3, out3 in self.expr(inc):
                        if out3 != "ok":
                            yield st + st2 + st3, "throw"
                            continue
                        for st4, out4 in iterate(depth + 1):
                            yield st + st2 + st3 + st4, out4

        for st0, out0 in (self.stmt(init) if init is not None else [([], "fall")]):
            if out0 != "fall":
                yield st0, out0
                continue
            if k == "DoStmt":
                for st2, out2 in self.stmt(body):
                    if out2 in ("return", "throw"):
                        yield st0 + st2, out2
                    elif out2 == "break":
                        yield st0 + st2, "fall"
                    else:
                        for st4, out4 in iterate(1):
                            yield st0 + st2 + st4, out4
                continue
            for st, out in iterate(0):
                yield st0 + st, out

    def switch(self, s):
        raw = [c for c in s.get("inner", []) if isinstance(c, dict) and c.get("kind")]
        cond, body = raw[-2], raw[-1]
        # flatten the body into a statement list with label markers
        flat = []

        def flatten(st):
            if st.get("kind") in ("CaseStmt", "DefaultStmt"):
                flat.append(("label", st))
                ks = ir.kids(st)
                sub = ks[-1] if ks else None
                if sub is not None and sub.get("kind"):
                    flatten(sub)
            else:
                flat.append(("stmt", st))
        for st in (ir.kids(body) if body.get("kind") == "CompoundStmt" else [body]):
            flatten(st)
        labels = [i for i, (t, _) in enumerate(flat) if t == "label"]
        has_default = any(flat[i][1].get("kind") == "DefaultStmt" for i in labels)
        for st0, out0 in self.expr(cond):
            if out0 != "ok":
                yield st0, "throw"
                continue
            for li in labels:
                stmts = [x for t, x in flat[li + 1:] if t == "stmt"]
                for st, out in self.block(stmts):
                    yield st0 + [("case", flat[li][1])] + st, ("fall" if out == "break" else out)
            if not has_default:
                yield st0 + [("case", None)], "fall"


def function_paths(fn, may_throw=None, unroll=1, max_paths=20000, events=None, with_ctor_inits=True):
    """all paths through a function definition (constructor initialisers first); each ends in return/end/escape"""
    w = Walker(may_throw, unroll, max_paths, events)
    inits = [c for c in ir.kids(fn) if c.get("kind") == "CXXCtorInitializer"] if with_ctor_inits else []
    b = ir.body(fn)
    out = []

    def init_paths(i):
        if i == len(inits):
            yield [], "ok"
            return
        ks = ir.ekids(inits[i])
        for st, o in w.expr(ks[0] if ks else None):
            if o != "ok":
                yield st, o
                continue
            for st2, o2 in init_paths(i + 1):
                yield st + [("init", inits[i])] + st2, o2

    try:
        for st0, o0 in init_paths(0):
            if o0 != "ok":
                out.append(st0 + [("escape", st0[-1][1] if st0 else None)])
                continue
            for st, o in (w.stmt(b) if b is not None else [([], "fall")]):
                if o == "return":
                    out.append(st0 + st)
                elif o == "throw":
                    out.append(st0 + st + [("escape", st[-1][1] if st else None)])
                else:
                    out.append(st0 + st + [("end",)])
                if len(out) > max_paths:
                    raise Limit()
    except Limit:
        raise AnalysisBroken("more than %d paths through %s" % (max_paths, fn.get("name")))
    return out
