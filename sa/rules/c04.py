"""C04 — missing/masked values propagate through every operator and are never evaluated.

Every overload body (template pattern) with an xoptional / xmasked_value operand is abstractly evaluated under every
presence assignment (sa/presence.py) and checked against the obligations of DESIGN.md section 4.4.
"""
import itertools
import os
import re
from .. import ir
from .. import clangjson as cj
from ..report import Report
from ..presence import FlagMisuse, Evaluator, Obj, Unknown, is_opt_type, contains_v, fmt, COMPOUND_OPS

DRIVER = '#include "xtl/xoptional.hpp"\n#include "xtl/xmasked_value.hpp"\n#include "xtl/xfunctional.hpp"\n#include "xtl/xoptional_sequence.hpp"\n'

OPT_CLASSES = ("xoptional", "xmasked_value")

# frozen scope table: names that are NOT operations on the optional's value in the statement's sense
OUT_OF_SCOPE = {
    "value": "accessor", "has_value": "accessor", "visible": "accessor", "swap": "exchanges two optionals wholesale",
    "optional": "factory", "missing": "factory", "masked": "factory", "masked_value": "factory",
    "mime_bundle_repr": "display", "to_json": "serialisation", "from_json": "serialisation",
    "operator=": "plain assignment replaces the target", "operator<<": "stream insertion", "operator>>": "stream extraction",
    "get": "accessor", "closure": "factory", "const_closure": "factory",
}
FUNC_KINDS = ("FunctionDecl", "CXXMethodDecl")


def class_of(d, n):
    """name of the optional class a method belongs to (in-class or out-of-line definition), else None"""
    p = d.parent_of(n)
    hops = 0
    while p is not None and hops < 3:
        if p.get("kind") == "CXXRecordDecl":
            return p.get("name")
        if p.get("kind") not in ("FunctionTemplateDecl",):
            break
        p = d.parent_of(p)
        hops += 1
    pid = n.get("parentDeclContextId")
    if pid and pid in d.by_id:
        c = d.by_id[pid]
        if c.get("kind") == "CXXRecordDecl":
            return c.get("name")
    return None


def is_instantiation(d, n):
    p = d.parent_of(n)
    if p is not None and p.get("kind") == "FunctionTemplateDecl":
        firsts = [c for c in p.get("inner", ()) if isinstance(c, dict) and c.get("kind") in FUNC_KINDS]
        if firsts and firsts[0] is not n:
            return True
    while p is not None:
        if p.get("kind") in ("ClassTemplateSpecializationDecl",):
            return True
        p = d.parent_of(p)
    return False


def has_body(n):
    return any(isinstance(c, dict) and c.get("kind") == "CompoundStmt" for c in n.get("inner", ()))


HELPERS = {}


def collect(d):
    """in-scope candidate bodies: (decl, class name or None, params)"""
    out = []
    HELPERS.clear()
    classes = {c: {} for c in OPT_CLASSES}
    seen = set()
    for n in d.walk():
        if n.get("kind") not in FUNC_KINDS or not has_body(n):
            continue
        loc = n.get("loc") or {}
        f = loc.get("file") or ""
        if not f.startswith(os.path.join(cj.REPO, "include")):
            continue
        if is_instantiation(d, n):
            continue
        key = cj.loc_key(n)
        if key in seen:
            continue
        seen.add(key)
        cls = class_of(d, n) if n.get("kind") == "CXXMethodDecl" else None
        par = d.parent_of(n)
        if par is not None and par.get("kind") == "FunctionTemplateDecl":
            par = d.parent_of(par)
        if cls is None and par is not None and par.get("kind") == "NamespaceDecl" and par.get("name") == "detail" and not (n.get("name") or "").startswith("operator"):
            # an implementation helper (not an overload users call): followed from the bodies that use it, never judged as an operation of its own
            HELPERS.setdefault(n.get("name"), []).append(n)
            continue
        if cls in OPT_CLASSES:
            classes[cls].setdefault(n.get("name"), []).append(n)
        params = [c for c in n.get("inner", ()) if isinstance(c, dict) and c.get("kind") == "ParmVarDecl"]
        optp = [is_opt_type((p.get("type") or {}).get("qualType", "")) for p in params]
        if cls in OPT_CLASSES or any(optp) or (n.get("name") == "select" and len(params) == 3 and "xoptional" in d.text(d.parent_of(n) or n)):
            if cls is not None and cls not in OPT_CLASSES:
                continue      # members of other classes (sequences, iterators) taking an optional: not operator overloads
            out.append((n, cls if cls in OPT_CLASSES else None, params, optp))
    return out, classes


def category(n, cls, params, optp):
    name = n.get("name", "")
    if name in OUT_OF_SCOPE:
        ptypes = " ".join((p.get("type") or {}).get("qualType", "") for p in params)
        if name in ("operator<<", "operator>>") and "basic_ostream" not in ptypes and "basic_istream" not in ptypes:
            return "binary"
        return None
    if n.get("kind") == "CXXMethodDecl" and cls:
        if name.startswith("operator") and name[8:] in COMPOUND_OPS:
            return "compound"
        if name == "equal":
            return "equal"
        if name == "value_or":
            return "value_or"
        if name == "operator&" and not params:
            return None           # address-of
        return None               # other members: accessors / conversions
    if name in ("operator==", "operator!="):
        return "eq" if name == "operator==" else "ne"
    if name == "select":
        return "select"
    if name.startswith("operator"):
        return {1: "unary_op", 2: "binary", 3: "ternary"}.get(len(params))
    return {1: "unary_fn", 2: "binary", 3: "ternary"}.get(len(params))


def scenarios(n_opt):
    return list(itertools.product((True, False), repeat=n_opt))


def pres_str(names, assign):
    return " ".join("%s=%s" % (nm, "present" if p else "missing") for nm, p in zip(names, assign))


def check_function(rep, d, ev_classes, n, cls, params, optp, cat):
    name = n.get("name")
    where = d.where(n)
    sig = "%s(%s)" % (name, ", ".join(("opt" if o else "plain") for o in optp))
    if cls:
        sig = "%s::%s" % (cls, sig)
    fn_label = sig
    operands = []         # (kind, name, param decl or None)
    if cls:
        operands.append(("opt", "this", None))
    for p, o in zip(params, optp):
        operands.append(("opt" if o else "plain", p.get("name", "arg"), p))
    if cat == "select":
        # the condition's kind is a template parameter: analyse it as optional (both presences) and as plain
        variants = [("opt",), ("plain",)]
    else:
        variants = [None]
    for variant in variants:
        ops_ = list(operands)
        if variant is not None:
            ops_[0] = (variant[0], ops_[0][1], ops_[0][2])
        opt_names = [nm for k, nm, _ in ops_ if k == "opt"]
        for assign in scenarios(len(opt_names)):
            pmap = dict(zip(opt_names, assign))
            scen = pres_str(opt_names, assign) if opt_names else "no optional operand"
            if variant is not None:
                scen = "condition %s; %s" % (variant[0], scen)
            ev = Evaluator(d, ev_classes)
            ev.helpers = HELPERS
            env = {}
            objs = {}
            for kind, nm, p in ops_:
                if kind == "opt":
                    o = Obj(nm, pmap[nm])
                    objs[nm] = o
                    val = ("optref", o)
                else:
                    val = ("term", ("a", nm))
                if p is None:
                    env["this"] = val
                else:
                    env[p["id"]] = val
            try:
                res = ev.run_body(n, env)
                res = ev.deref(res)
                judge(rep, cat, name, fn_label, where, scen, ops_, pmap, objs, res, ev)
                if ev.identity_tests and len(opt_names) == 2 and assign[0] == assign[1] and assign[0]:
                    # the body branches on `this == &rhs`: evaluate the aliased call too (both operands are one present object)
                    ev2 = Evaluator(d, ev_classes)
                    ev2.helpers = HELPERS
                    ev2.alias = True
                    shared = Obj(opt_names[0], True)
                    env2 = {}
                    for kind, nm, p in ops_:
                        val = ("optref", shared) if kind == "opt" else ("term", ("a", nm))
                        if p is None:
                            env2["this"] = val
                        else:
                            env2[p["id"]] = val
                    res2 = ev2.deref(ev2.run_body(n, env2))
                    if res2[0] == "bool" and not ev2.ops:
                        rep.violates("C04.val", fn_label, "aliased operands", where=d.where(ev.identity_tests[0]), scenario="rhs is *this; present",
                                     detail="an identity shortcut returns the constant %s without applying the underlying operation to the values: x == x "
                                            "must still be what the value type says (false for NaN)" % res2[1])
                    else:
                        rep.holds("C04.val", fn_label, "aliased operands", where=where, scenario="rhs is *this; present")
            except FlagMisuse as e:
                rep.violates("C04.pres", fn_label, "flag combination", where=where, scenario=scen, detail=str(e))
            except Unknown as e:
                rep.inconclusive("C04.eval", fn_label, "body", where=where, scenario=scen, detail=str(e))


def expected_args(ops_):
    return [("v", nm) if k == "opt" else ("a", nm) for k, nm, _ in ops_]


def norm_result(res):
    """-> (present?, term)"""
    if res[0] == "optref":
        return res[1].pres, res[1].val
    if res[0] == "opt":
        return res[1], res[2]
    if res[0] == "term":
        return True, res[1]          # a plain value converted to the optional return type is present
    if res[0] == "bool":
        return True, ("lit", "true" if res[1] else "false")
    return None, None


def judge(rep, cat, name, fn, where, scen, ops_, pmap, objs, res, ev):
    allp = all(pmap.values()) if pmap else True
    opname = name[8:] if name.startswith("operator") else name
    exp_args = expected_args(ops_)

    def ok(rule, construct, detail="", nontrivial=True):
        rep.holds(rule, fn, construct, where=where, scenario=scen, detail=detail, nontrivial=nontrivial)

    def bad(rule, construct, detail):
        rep.violates(rule, fn, construct, where=where, scenario=scen, detail=detail)

    if cat in ("binary", "ternary", "unary_op", "unary_fn"):
        pres, term = norm_result(res)
        if pres is None:
            rep.inconclusive("C04.pres", fn, "result presence", where=where, scenario=scen, detail="result %r" % (res,))
        elif pres != allp:
            bad("C04.pres", "result presence", "result is %s but %s" % ("present" if pres else "missing",
                "every optional operand is present" if allp else "an optional operand is missing"))
        else:
            ok("C04.pres", "result presence")
        if allp and pres:
            want = ("op", opname, exp_args)
            alt = [want]
            if cat == "unary_op" and opname == "+":
                alt.append(exp_args[0])          # unary plus is the identity on the value
            if term in alt:
                ok("C04.val", "result value", detail=fmt(term))
            else:
                bad("C04.val", "result value", "all operands present: result is `%s`, expected `%s` (the function's own "
                    "operation on the operands' values in parameter order)" % (fmt(term), fmt(want)))
        if cat != "unary_op":
            check_noeval(rep, fn, where, scen, pmap, ev, ok, bad)
        return
    if cat == "compound":
        this = objs["this"]
        if this.pres is None:
            rep.inconclusive("C04.cassign", fn, "flag", where=where, scenario=scen, detail="flag not a known boolean")
            return
        if this.pres != allp:
            bad("C04.cassign", "flag", "target flag becomes %s but the conjunction of the operands' flags is %s" % (this.pres, allp))
        else:
            ok("C04.cassign", "flag")
        want = ("op", opname, exp_args)
        if allp:
            if this.val == want:
                ok("C04.val", "target value", detail=fmt(this.val))
            else:
                bad("C04.val", "target value", "all present: target value becomes `%s`, expected `%s`" % (fmt(this.val), fmt(want)))
        else:
            if this.val == ("v", "this"):
                ok("C04.cassign", "target untouched")
            else:
                bad("C04.cassign", "target untouched", "an operand is missing but the target value is changed to `%s`" % fmt(this.val))
        if res[0] != "optref" or res[1] is not this:
            bad("C04.cassign", "returns *this", "compound assignment does not return the target")
        check_noeval(rep, fn, where, scen, pmap, ev, ok, bad)
        return
    if cat in ("equal", "eq", "ne"):
        neg = cat == "ne"
        vals = list(pmap.values())
        names = list(pmap.keys())
        if len(vals) == 2:
            if all(vals):
                want = "cmp"
            elif not any(vals):
                want = True
            else:
                want = False
        else:
            want = "cmp" if vals[0] else False
        if want != "cmp":
            if neg:
                want = not want
            if res[0] == "bool" and res[1] == want:
                ok("C04.eq", "truth table")
            else:
                bad("C04.eq", "truth table", "expected the constant %s, got %s" % (want, fmt(ev.as_term(res)) if res[0] != "bool" else res[1]))
        else:
            a = exp_args
            cands = [("op", "==", [a[0], a[1]]), ("op", "==", [a[1], a[0]])]
            if neg:
                cands = [("op", "!", [c]) for c in cands] + [("op", "!=", [a[0], a[1]]), ("op", "!=", [a[1], a[0]])]
            t = res[1] if res[0] == "term" else None
            if t in cands:
                ok("C04.eq", "truth table", detail=fmt(t))
            else:
                bad("C04.eq", "truth table", "all present: expected %s of the two values, got %s" % (
                    "the inequality" if neg else "the equality", fmt(ev.as_term(res))))
        return
    if cat == "select":
        cond_kind, cond_name, _ = ops_[0]
        a = expected_args(ops_)
        if cond_kind == "opt" and not pmap[cond_name]:
            pres, term = norm_result(res)
            if pres is False:
                ok("C04.select", "missing condition")
            else:
                bad("C04.select", "missing condition", "the condition is missing but the result is not missing")
            used = [t for t in ev.ops if contains_v(t, cond_name)]
            if used:
                bad("C04.select", "missing condition", "the missing condition's value is used: " + fmt(used[0]))
        else:
            # branches are the other two parameters, passed through unchanged
            branch = [("optobj", nm) if k == "opt" else ("a", nm) for k, nm, _ in ops_[1:]]
            want = ("op", "?:", [a[0], branch[0], branch[1]])
            t = res[1] if res[0] == "term" else None
            if t == want:
                ok("C04.select", "chosen branch", detail=fmt(t))
            else:
                bad("C04.select", "chosen branch", "present condition: expected `cond ? v1 : v2` with both branches unchanged, got %s" % fmt(ev.as_term(res)))
        return
    if cat == "value_or":
        t = ev.as_term(res) if res[0] != "opt" else None
        want = ("v", "this") if pmap["this"] else ("a", ops_[1][1])
        if t == want:
            ok("C04.valueor", "result", detail=fmt(t))
        else:
            bad("C04.valueor", "result", "expected %s, got %s" % (fmt(want), fmt(t)))
        return


def check_noeval(rep, fn, where, scen, pmap, ev, ok, bad):
    missing = [nm for nm, p in pmap.items() if not p]
    hit = None
    for t in ev.ops:
        for nm in missing:
            if contains_v(t, nm):
                hit = (t, nm)
                break
        if hit:
            break
    if hit:
        bad("C04.noeval", "non-evaluation", "`%s` is evaluated although %s is missing" % (fmt(hit[0]), hit[1]))
    else:
        ok("C04.noeval", "non-evaluation", nontrivial=bool(missing))


NORETURN = {"__assert_fail", "__assert_perror_fail", "__assert", "abort", "terminate", "exit", "_Exit", "quick_exit", "__builtin_trap", "__builtin_abort", "__builtin_unreachable"}


def rule_total(rep, d, std):
    """no accessor, constructor, operator or lifted function of the optional / masked value has a failure exit: an operand that is missing must
    give a missing result, so none of them may stop (assert - the analysis sees the bodies without NDEBUG -, abort, terminate) or throw"""
    R = "C04.total"
    n = 0
    for f in ir.functions(d):
        w = d.where(f) or ""
        if not re.search(r"xtl/(xoptional|xoptional_meta|xmasked_value|xmasked_value_meta)\.hpp", w) or ir.body(f) is None:
            continue
        if not ir.is_template_pattern(d, f) and (ir.enclosing_class(d, f) or {}).get("kind") == "ClassTemplateSpecializationDecl":
            continue                      # instantiations repeat their pattern
        n += 1
        bad = None
        for x in ir.walk_expr(ir.body(f)):
            if x.get("kind") == "CXXThrowExpr":
                bad = (x, "throws")
                break
            if x.get("kind") == "CallExpr" and ir.ekids(x):
                c = ir.strip(ir.ekids(x)[0])
                nm = (c.get("referencedDecl") or {}).get("name") if c.get("kind") == "DeclRefExpr" else (c.get("name") if c.get("kind") in ("UnresolvedLookupExpr",) else None)
                if nm in NORETURN:
                    bad = (x, "calls %s()" % nm)
                    break
        if bad and bad[1].startswith("calls __assert"):
            # an assertion is a failure exit for a missing operand only if it tests presence; one about something else is not judged here
            par = d.parent_of(bad[0])
            hops = 0
            while par is not None and par.get("kind") != "ConditionalOperator" and hops < 6:
                par = d.parent_of(par)
                hops += 1
            cond_t = ir.sx(ir.ekids(par)[0]) if par is not None and par.get("kind") == "ConditionalOperator" else None
            presence = cond_t is not None and any(
                (x[0] == "mem" and x[2] in ("m_flag", "m_visible", "has_value", "visible")) or (x[0] == "ref" and x[1] in ("m_flag", "m_visible"))
                for x in ir.subterms(cond_t) if isinstance(x, tuple))
            if not presence:
                cls = ir.enclosing_class(d, f)
                rep.inconclusive(R, "%s%s" % ((cls.get("name") + "::") if cls else "", f.get("name")), "no failure exit", where=d.where(bad[0]), scenario="-std=%s" % std,
                                 detail="an assertion whose condition `%s` does not mention the presence flag: whether a missing operand can make it fail is not decided" % (ir.show(cond_t)[:60] if cond_t else "?"))
                continue
        if bad:
            cls = ir.enclosing_class(d, f)
            rep.violates(R, "%s%s" % ((cls.get("name") + "::") if cls else "", f.get("name")), "no failure exit", where=d.where(bad[0]), scenario="-std=%s" % std,
                         detail="%s (`%s`): with a missing operand the operation must yield a missing result, not stop - the bodies are analysed without NDEBUG, "
                                "as a build without it compiles them" % (bad[1], d.text(bad[0])[:70].replace("\n", " ")))
    if n < 100:
        raise cj.AnalysisBroken("C04.total: only %d function bodies of the optional / masked-value headers seen" % n)
    rep.holds(R, "xoptional.hpp, xmasked_value.hpp", "no failure exit", scenario="-std=%s: %d function bodies" % (std, n), detail="no throw, assert or abort in any body")


# ---------------------------------------------------------------------------------------------------------------------
# constructors, assignments and conversions between optional types: the presence evaluator takes `T(value, flag)` and a copy from another optional at face
# value; that the constructors and assignment operators really carry the flag is decided here, on instantiations
CTOR_DRIVER = r"""
#include "xtl/xmasked_value.hpp"
#include "xtl/xoptional.hpp"
#include <utility>
namespace xtl { namespace wx_ctor {
using M = xmasked_value<double, bool>; using MR = xmasked_value<double&, bool&>; using MI = xmasked_value<int, bool>;
using O = xoptional<double, bool>; using OR = xoptional<double&, bool&>; using OI = xoptional<int, bool>; using OCR = xoptional<const double&, const bool&>;
inline void ctors(const OI& a, OI&& b, double& x, bool& fl, const O& same, const OCR& cr)
{
    O c1(a); O c2(std::move(b)); O c3(2.0); O c4; O c5(2.0, true); OR r(x, fl); O c6(r); O c7(cr); O c8(x, fl);
    c1 = a; c1 = std::move(c2); c1 = 2.0; c1 = r; c1 = cr; r = same; r = 3.0; r = a;
    M m1; M m2(1.0); M m3(1.0, false); MR m4(x, fl); m1 = m4; m1 = 2.0; m4 = m2; m4 = 1.0;
}
inline void ops(const M& a, const MR& r, const MI& i, const O& o, const OR& orf, const OI& oi)
{
    auto m1 = -a; auto m2 = +a; auto m3 = -r; auto m4 = +r; auto m5 = ~i; auto m6 = !i; auto m7 = a + r; auto m8 = a * 2.; auto m9 = 2. - r; auto m10 = a / i;
    M c = a; c += r; c -= 1.; c *= i; bool b1 = a == r; bool b2 = a != 1.; bool b3 = a < r; bool b4 = 1. >= a;
    auto o1 = -o; auto o2 = +orf; auto o3 = o + orf; auto o4 = o * 2.; auto o5 = 2. / orf; auto o6 = o && oi; auto o7 = !oi; auto o8 = o < orf; auto o9 = o - oi;
    O d = o; d += orf; d *= 2.; bool e1 = o == orf; bool e2 = o != 1.; auto f1 = fma(o, orf, 2.); auto f2 = select(oi, o, orf); auto f3 = abs(orf); auto f4 = pow(o, 2.);
    (void)m1; (void)m2; (void)m3; (void)m4; (void)m5; (void)m6; (void)m7; (void)m8; (void)m9; (void)m10; (void)b1; (void)b2; (void)b3; (void)b4;
    (void)o1; (void)o2; (void)o3; (void)o4; (void)o5; (void)o6; (void)o7; (void)o8; (void)o9; (void)e1; (void)e2; (void)f1; (void)f2; (void)f3; (void)f4;
}
} }
"""
OPT_TYPE_RE = re.compile(r"\bx(optional|masked_value)<")


def _ctor_src(d, e, params):
    """where does this initialiser / right-hand side take its value from?  -> ("true"|"false"|"default"|"flag_of", P|"value_of", P|"param", P|"other", text)"""
    if e is None:
        return ("default",)
    n = e
    for _ in range(12):
        n = ir.strip(n)
        k = n.get("kind")
        ks = ir.ekids(n)
        if k in ("ImplicitCastExpr", "MaterializeTemporaryExpr", "ExprWithCleanups", "CXXBindTemporaryExpr", "CXXStaticCastExpr", "CXXFunctionalCastExpr") and ks:
            n = ks[-1]
            continue
        if k == "CXXConstructExpr" and len(ks) == 1:
            n = ks[0]
            continue
        if k == "CallExpr" and len(ks) == 2 and (ir.strip(ks[0]).get("referencedDecl") or {}).get("name") in ("move", "forward"):
            n = ks[1]
            continue
        break
    k = n.get("kind")
    ks = ir.ekids(n)
    if k == "CXXBoolLiteralExpr":
        return ("true",) if n.get("value") else ("false",)
    if k in ("CXXConstructExpr", "CXXScalarValueInitExpr", "ImplicitValueInitExpr", "InitListExpr") and not ks:
        return ("default",)
    if k == "DeclRefExpr" and (n.get("referencedDecl") or {}).get("name") in params:
        return ("param", (n.get("referencedDecl") or {}).get("name"))
    if k == "CXXMemberCallExpr" and ks:
        me = ir.strip(ks[0])
        if me.get("kind") == "MemberExpr" and ir.ekids(me):
            obj = _ctor_src(d, ir.ekids(me)[0], params)
            nm = me.get("name")
            if obj[0] == "param":
                if nm in ("has_value", "visible"):
                    return ("flag_of", obj[1])
                if nm == "value":
                    return ("value_of", obj[1])
    if k == "MemberExpr" and ks:
        obj = _ctor_src(d, ks[0], params)
        if obj[0] == "param":
            if n.get("name") in ("m_flag", "m_visible"):
                return ("flag_of", obj[1])
            if n.get("name") == "m_value":
                return ("value_of", obj[1])
    return ("other", re.sub(r"\s+", " ", d.text(e))[:50])


def rule_ctor(rep, tier, strict=False):
    rep.rule("C04.ctor", "constructors and assignment operators of xoptional / xmasked_value carry the presence: from another optional the flag is that optional's flag (never "
                         "a constant), from a plain value it is true, from (value, flag) it is the flag argument, default construction is missing (xoptional) / visible "
                         "(xmasked_value); a delegating constructor is judged by the arguments it delegates")
    rep.rule("C04.conv", "inside the library's own operators and functions no xoptional / xmasked_value is turned into its bare value by an implicit user-defined conversion "
                         "(the conversion operator drops the flag: a result built from it is always present)")
    d = cj.dump(CTOR_DRIVER, "xtl::")
    rep.cmd(d.cmd)
    n_ctor = n_fn = 0
    seen = set()
    for f in list(d.by_id.values()):
        kind = f.get("kind")
        if kind not in ("CXXConstructorDecl", "CXXMethodDecl") or ir.is_template_pattern(d, f) or f.get("isImplicit") or f.get("explicitlyDefaulted"):
            continue
        cls = ir.enclosing_class(d, f)
        cname = (cls or {}).get("name")
        if cname not in ("xoptional", "xmasked_value"):
            continue
        if kind == "CXXMethodDecl" and (f.get("name") != "operator=" or cname != "xoptional"):
            continue        # xmasked_value's `=` is one of its compound assignments (the mask is sticky): rule C04.cassign
        w = d.where(f) or ""
        fq = (f.get("type") or {}).get("qualType", "")
        key = (w, fq)
        if key in seen:
            continue
        flagname = "m_flag" if cname == "xoptional" else "m_visible"
        params = [p.get("name") for p in ir.params(f)]
        ptypes = [ir.qtype(p) for p in ir.params(f)]
        from_opt = len(params) == 1 and OPT_TYPE_RE.search(ptypes[0] or "") is not None
        vsrc = fsrc = None
        deleg = None
        conditional = []
        if kind == "CXXConstructorDecl":
            inits = [c for c in f.get("inner", []) if c.get("kind") == "CXXCtorInitializer"]
            if not inits:
                continue
            for i_ in inits:
                e = (i_.get("inner") or [None])[0]
                nm = (i_.get("anyInit") or {}).get("name")
                if nm == "m_value":
                    vsrc = _ctor_src(d, e, params)
                elif nm == flagname:
                    fsrc = _ctor_src(d, e, params)
                elif i_.get("delegatingInit"):
                    args = [a for a in ir.ekids(ir.strip(e)) if a.get("kind") != "CXXDefaultArgExpr"] if e is not None else []
                    deleg = [_ctor_src(d, a, params) for a in args]
            what = "constructor"
        else:
            if not ir.has_body(f):
                continue
            for st in ir.walk_expr(ir.body(f)):
                if st.get("kind") in ("BinaryOperator", "CXXOperatorCallExpr") and (st.get("opcode") == "=" or (st.get("kind") == "CXXOperatorCallExpr" and len(ir.ekids(st)) == 3)):
                    ks = ir.ekids(st)
                    l_, r_ = (ks[0], ks[1]) if st.get("kind") == "BinaryOperator" else (ks[1], ks[2])
                    l_ = ir.strip(l_)
                    while l_.get("kind") in ("ImplicitCastExpr",) and ir.ekids(l_):
                        l_ = ir.strip(ir.ekids(l_)[0])
                    if l_.get("kind") == "MemberExpr" and l_.get("name") in ("m_value", flagname):
                        # an assignment that only happens under a condition does not always take the source over
                        up, hops = d.parent_of(st), 0
                        while up is not None and up is not f and hops < 30:
                            if up.get("kind") in ("IfStmt", "ConditionalOperator", "SwitchStmt", "WhileStmt", "ForStmt"):
                                conditional.append((l_.get("name"), up))
                                break
                            up, hops = d.parent_of(up), hops + 1
                    if l_.get("kind") == "MemberExpr" and l_.get("name") == "m_value" and vsrc is None:
                        vsrc = _ctor_src(d, r_, params)
                    elif l_.get("kind") == "MemberExpr" and l_.get("name") == flagname and fsrc is None:
                        fsrc = _ctor_src(d, r_, params)
            if vsrc is None and fsrc is None:
                continue
            what = "assignment"
        seen.add(key)
        n_ctor += 1
        lab = "%s::%s(%s)" % (cname, "operator=" if kind == "CXXMethodDecl" else cname, ", ".join(ptypes))
        if deleg is not None:
            if len(deleg) == 2:
                vsrc, fsrc = deleg
            elif len(deleg) == 1:
                vsrc, fsrc = deleg[0], ("true",)       # the one-argument constructor of a plain value
            elif len(deleg) == 0:
                vsrc, fsrc = ("default",), (("false",) if cname == "xoptional" else ("true",))
            else:
                rep.inconclusive("C04.ctor", lab, what, where=w, detail="delegates with %d arguments" % len(deleg))
                continue
        bad = inc = None
        if conditional:
            cnd = re.sub(r"\s+", " ", d.text(ir.kids(conditional[0][1])[0]))[:40] if ir.kids(conditional[0][1]) else "?"
            msg = "`%s` is assigned only under the condition `%s`: otherwise the target keeps its old %s while the other half is taken over" % (
                conditional[0][0], cnd, "value" if conditional[0][0] == "m_value" else "flag")
            if strict:
                bad = msg
            else:
                inc = msg
        if bad or inc:
            pass
        elif from_opt:
            P = params[0]
            if fsrc in (("true",), ("false",)):
                bad = "a copy/conversion from another optional sets the flag to the constant `%s`%s: a missing source becomes present" % (fsrc[0], " (it delegates to the constructor of a plain value)" if deleg is not None else "")
            elif fsrc != ("flag_of", P):
                inc = "the flag is taken from `%s`" % (fsrc,)
            elif vsrc not in (("value_of", P),):
                inc = "the value is taken from `%s`" % (vsrc,)
        elif len(params) == 0:
            want = ("false",) if cname == "xoptional" else ("true",)
            if fsrc in (("true",), ("false",)) and fsrc != want:
                bad = "default construction sets the flag to %s" % fsrc[0]
            elif fsrc != want:
                inc = "the flag is `%s`" % (fsrc,)
        elif len(params) == 1:
            if fsrc == ("false",):
                bad = "construction/assignment from a plain value gives a missing result"
            elif fsrc != ("true",):
                inc = "the flag is `%s`" % (fsrc,)
            elif vsrc != ("param", params[0]):
                inc = "the value is `%s`" % (vsrc,)
        elif len(params) == 2:
            if fsrc in (("true",), ("false",)):
                bad = "the flag argument `%s` is ignored: the flag is the constant %s" % (params[1], fsrc[0])
            elif fsrc == ("param", params[0]) or vsrc == ("param", params[1]):
                bad = "value and flag arguments are crossed"
            elif fsrc != ("param", params[1]) or vsrc != ("param", params[0]):
                inc = "value from `%s`, flag from `%s`" % (vsrc, fsrc)
        else:
            inc = "%d parameters" % len(params)
        if bad:
            rep.violates("C04.ctor", lab, what, where=w, detail=bad)
        elif inc:
            rep.inconclusive("C04.ctor", lab, what, where=w, detail=inc)
        else:
            rep.holds("C04.ctor", lab, what, where=w, detail="value from %s, flag from %s" % (" ".join(vsrc), " ".join(fsrc)))
    # implicit conversions to the bare value inside library functions
    for f in ir.functions(d):
        if ir.is_template_pattern(d, f):
            continue
        w = d.where(f) or ""
        if not any(h in w for h in ("xmasked_value.hpp", "xoptional.hpp", "xoptional_meta.hpp")):
            continue
        n_fn += 1
        hit = None
        for x in ir.walk_expr(f):
            if x.get("kind") == "ImplicitCastExpr" and x.get("castKind") == "UserDefinedConversion" and ir.ekids(x):
                sub = ir.strip(ir.ekids(x)[0])
                if sub.get("kind") == "CXXMemberCallExpr" and ir.ekids(sub):
                    me = ir.strip(ir.ekids(sub)[0])
                    obj_t = ir.qtype(ir.ekids(me)[0]) if me.get("kind") == "MemberExpr" and ir.ekids(me) else ""
                    if OPT_TYPE_RE.search(obj_t or "") and not OPT_TYPE_RE.search(ir.qtype(x) or ""):
                        hit = (x, obj_t)
                        break
        if hit:
            rep.violates("C04.conv", "%s [%s]" % (f.get("name"), (f.get("type") or {}).get("qualType", "")[:90]), "implicit conversion to the bare value", where=d.where(hit[0]),
                         detail="`%s` of type %s is converted to %s by its conversion operator: the flag is dropped and whatever is built from the value is present/visible" % (
                             re.sub(r"\s+", " ", d.text(hit[0]))[:40], hit[1], ir.qtype(hit[0])))
    if n_fn:
        rep.holds("C04.conv", "instantiated operators and functions of the optional headers", "implicit conversion to the bare value", detail="%d instantiations, none converts an optional to its value implicitly" % n_fn)
    if n_ctor < 12:
        rep.broke("C04.ctor: only %d constructors/assignments of xoptional/xmasked_value were found instantiated (12 expected)" % n_ctor)


def rule_types(rep, tier):
    rep.rule("C04.type", "the result type of an operator or lifted function over mixed arithmetic operands is the optional of their common type, whatever position the widest "
                         "operand is in (a narrower declared result silently converts the value the body computed)")
    from ..witness import WitnessTU
    w = WitnessTU('#include "xtl/xoptional.hpp"\n#include <type_traits>\nnamespace w { using namespace xtl;\n'
                  'template <class E, class T> constexpr bool is_opt_of() { return std::is_same<std::decay_t<E>, xoptional<T, bool>>::value; }\n')
    OI, OD = "std::declval<const xoptional<int, bool>&>()", "std::declval<const xoptional<double, bool>&>()"
    rows = [("fma", "fma(%s, 2.5, 1)" % OI, "double"), ("fma", "fma(1, %s, 2.5)" % OI, "double"), ("fma", "fma(1, 2, %s)" % OD, "double"), ("fma", "fma(%s, 2, 1)" % OI, "int"),
            ("fma", "fma(%s, %s, 1)" % (OI, OD), "double"), ("fma", "fma(2.5, %s, %s)" % (OI, OI), "double"),
            ("operator+", "%s + 2.5" % OI, "double"), ("operator+", "2.5 + %s" % OI, "double"), ("operator*", "%s * %s" % (OI, OD), "double"),
            ("operator-", "%s - %s" % (OD, OI), "double"), ("operator/", "%s / 2" % OI, "int"), ("pow", "pow(%s, 2.5)" % OD, "double"),
            ("fmax", "fmax(%s, %s)" % (OD, OD), "double"), ("select", "select(true, %s, %s)" % (OI, OD), "double"), ("select", "select(true, %s, 2.5)" % OI, "double")]
    for fn_, e, t in rows:
        w.must_hold("is_opt_of<decltype(%s), %s>()" % (e, t), "C04.type", fn_, "result type", e.replace("std::declval<const xoptional<int, bool>&>()", "opt<int>").replace("std::declval<const xoptional<double, bool>&>()", "opt<double>"))
    w.raw("}")
    for comp, std in ([("clang++", "gnu++17")] if tier == "quick" else [("clang++", "gnu++14"), ("clang++", "gnu++20"), ("g++", "gnu++17")]):
        w.run(rep, std=std, compiler=comp)


def run(tier):
    rep = Report("C04", tier, "proof",
                 "Abstract evaluation of every xoptional/xmasked_value overload body (template patterns, so never-instantiated "
                 "overloads are covered) under every presence assignment of its optional operands; obligations: result presence = "
                 "conjunction, value = the function's own operation on the operand values in parameter order, no operation applied to "
                 "a missing operand's value (binary/ternary/compound/lifted), compound-assignment flag/target rules, ==/!= truth "
                 "table, select, value_or.  Decides the property at the level of the overload bodies.",
                 trusted_base=["clang 14 AST of the template patterns", "sa/presence.py (abstract semantics of && || ! ?: if, accessors and factories)"],
                 assumptions=["the underlying operation on the value types computes what its name says",
                              "non-evaluation is not demanded of unary operators and of ==/!= (property statement)",
                              "a call to another optional-level overload is assumed to satisfy this property (it is checked separately)"])
    rep.rule("C04.eval", "every in-scope body can be interpreted by the presence evaluator")
    rep.rule("C04.pres", "result is present exactly when every optional operand is present")
    rep.rule("C04.val", "when all are present the result is the function's own operation on the operands' values, in parameter order")
    rep.rule("C04.noeval", "binary/ternary operators, compound assignments and lifted functions apply no operation to a missing operand's value")
    rep.rule("C04.cassign", "compound assignment: new flag = conjunction of flags; target value changed only when all present; returns the target")
    rep.rule("C04.eq", "==/equal: both missing -> true, one missing -> false, both present -> equality of the values; != is its negation")
    rep.rule("C04.select", "select: missing condition -> missing; otherwise `cond ? v1 : v2` with the branches unchanged")
    rep.rule("C04.total", "no function of the optional / masked-value headers has a failure exit (throw, assert without NDEBUG, abort/terminate): a missing operand gives a missing result")
    rep.rule("C04.valueor", "value_or returns the value when present and the default otherwise")
    stds = ["gnu++17"] if tier == "quick" else ["gnu++14", "gnu++17", "gnu++20"]
    for std in stds:
        d = cj.dump(DRIVER, "xtl::", std=std)
        rep.cmd(d.cmd)
        cands, classes = collect(d)
        nbody = 0
        skipped = {}
        for n, cls, params, optp in cands:
            cat = category(n, cls, params, optp)
            if cat is None:
                skipped[n.get("name")] = skipped.get(n.get("name"), 0) + 1
                continue
            nbody += 1
            check_function(rep, d, classes, n, cls, params, optp, cat)
        rule_total(rep, d, std)
        rep.unit("-std=%s: %d in-scope overload bodies evaluated; out of scope by the frozen table: %s" % (
            std, nbody, ", ".join("%s x%d" % kv for kv in sorted(skipped.items()))))
        rep.holds("C04.eval", "all", "bodies interpreted", scenario="-std=%s: %d bodies" % (std, nbody), nontrivial=False)
    rule_ctor(rep, tier)
    rule_types(rep, tier)
    return rep
