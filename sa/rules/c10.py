"""C10 — xcomplex arithmetic is complex arithmetic; IEEE mode follows C99 Annex G.

The numeric clauses (rounding, scaling accuracy, special-value results) are not decidable statically.  Decided:
C10.fwd     forwarded elementary functions call the same-named std function on std::complex<value_type>(arg) in order
C10.eq      == compares both parts, != negates it, unary minus negates both parts, unary plus is the identity
C10.opname  binary operator X builds its result from the LEFT operand and applies X= with the RIGHT one; compound scalar forms
            touch the parts complex arithmetic says; member assignments/compound ops treat (real, imag) symmetrically
C10.poly    textbook mul/div and the Annex G recomputations are the right polynomials in (a, b, c, d)
C10.box     Annex G boxing idioms classify the component they box; the divisor scale is logb(max(|c|, |d|)) and all scalbn use -ilogbw
C10.kinds   every closure-kind combination of = += -= *= /= and the binary operators compiles (witnesses)
"""
import itertools
import re
from .. import clangjson as cj
from .. import ir
from ..report import Report
from ..witness import WitnessTU
from .c12 import Poly

DRIVER = '#include "xtl/xcomplex.hpp"\n'
NOT_FORWARDERS = {"real", "imag", "forward_real", "forward_imag", "forward_offset", "mime_bundle_repr", "polar"}


def strip_casts(t):
    if not isinstance(t, tuple):
        return t
    if t[0] == "cast":
        return strip_casts(t[3])
    if t[0] == "construct" and len(t) == 3:
        return strip_casts(t[2])
    return (t[0],) + tuple(strip_casts(x) for x in t[1:])


def is_xc(p):
    return "xcomplex<" in ir.wtype(p)


# ---- symbolic evaluation of the small operator / wrapper bodies ------------------------------------------------------------------
class Giveup(Exception):
    pass


def _is_cx_type(q):
    return "xcomplex<" in q or "complex<" in q or "xcomplex_t<" in q or "common_xcomplex" in q or "temporary_xcomplex" in q


class CxSim:
    """Straight-line symbolic execution of an xcomplex operator or wrapper body.  Values: ("P", name) a parameter; ("THIS",) the initial
    *this; ("cx", re, im) a complex built from parts (normalised back to X when re/im are the parts of the same X); ("re"|"im", X);
    ("op", o, a, b); ("neg", a); ("call", name, args...); ("cxop", "+=", a, b) a compound operator applied to a complex local;
    ("fromscalar", v); ("zero",); ("lit", v).  Two bodies that compute the same thing in different spellings evaluate to the same value."""

    def __init__(self, d, fn):
        self.d = d
        self.fn = fn
        self.cxparam = {p["name"]: _is_cx_type(ir.wtype(p)) for p in ir.params(fn)}
        self.loc = {}
        self.loc_cx = {}
        self.state = {"m_real": ("re", ("THIS",)), "m_imag": ("im", ("THIS",))}
        self.ret = None
        self.calls = []          # (name, node text) of the calls met, for the std:: qualification check

    @staticmethod
    def cx(re_, im_):
        if re_[0] == "re" and im_[0] == "im" and re_[1] == im_[1]:
            return re_[1]
        return ("cx", re_, im_)

    @staticmethod
    def part(v, which):
        if v[0] == "cx":
            return v[1] if which == "re" else v[2]
        if v[0] == "fromscalar":
            return v[1] if which == "re" else ("zero",)
        return (which, v)

    def is_cx(self, v):
        if v[0] in ("cx", "THIS", "cxop", "fromscalar"):
            return True
        if v[0] == "P":
            return self.cxparam.get(v[1], False)
        if v[0] == "call":
            return v[1] in ("mul", "div") or (len(v) > 2 and any(self.is_cx(a) for a in v[2:]) and v[1] not in ("abs", "arg", "norm", "real", "imag"))
        return False

    def this_val(self):
        return self.cx(self.state["m_real"], self.state["m_imag"])

    def ev(self, t):
        k = t[0]
        if k == "cast":
            return self.ev(t[3])
        if k == "lit":
            return ("lit", str(t[1]))
        if k == "ref":
            if t[1] in self.loc:
                return self.loc[t[1]]
            return ("P", t[1])
        if k == "this":
            return ("THISPTR",)
        if k == "un" and t[1] == "*" and t[2] == ("this",):
            return self.this_val()
        if k == "un" and t[1] == "-":
            return ("neg", self.ev(t[2]))
        if k == "un" and t[1] == "+":
            return self.ev(t[2])
        if k == "un" and t[1] == "!":
            return ("not", self.ev(t[2]))
        if k == "mem" and t[2] in ("m_real", "m_imag"):
            if t[1] == ("this",):
                return self.state[t[2]]
            return self.part(self.ev(t[1]), "re" if t[2] == "m_real" else "im")
        if k == "call":
            callee = t[1]
            args = t[2:]
            if callee[0] == "mem" and callee[2] in ("real", "imag") and not args:
                base = self.this_val() if callee[1] == ("this",) else self.ev(callee[1])
                return self.part(base, "re" if callee[2] == "real" else "im")
            nm = (callee[2] if callee[0] == "mem" else str(callee[1])).split("::")[-1]
            if nm in ("move", "forward") and len(args) == 1:
                return self.ev(args[0])
            if callee[0] == "mem" and callee[2].startswith("operator") and len(args) == 1:
                return ("op", callee[2][8:], self.ev(callee[1]), self.ev(args[0]))
            return ("call", nm) + tuple(self.ev(a) for a in args)
        if k == "construct":
            args = t[2:]
            if len(args) == 0:
                return ("zero",)
            if len(args) == 1:
                v = self.ev(args[0])
                if self.is_cx(v):
                    return v
                if _is_cx_type(str(t[1])):
                    return ("fromscalar", v)
                return v if str(t[1]) != "NULL TYPE" else ("ctor1", v)
            if len(args) == 2:
                return self.cx(self.ev(args[0]), self.ev(args[1]))
            raise Giveup("construction with %d arguments" % len(args))
        if k == "bin":
            op = t[1]
            if op in ("&&", "||", "==", "!=", "+", "-", "*", "/", "<", ">", "<=", ">="):
                return ("op", op, self.ev(t[2]), self.ev(t[3]))
            if op.endswith("=") and op not in ("==", "!=", "<=", ">="):
                # an assignment used as a value (`return *this = f(...)`): performed, then its target is the value
                self.assign(t)
                return self.ev(t[2])
            raise Giveup("operator %s inside an expression" % op)
        if k == "cond":
            return ("cond", self.ev(t[1]), self.ev(t[2]), self.ev(t[3]))
        raise Giveup("expression form %s" % k)

    def assign(self, t):
        op, lhs, rhs = t[1], t[2], self.ev(t[3])
        while lhs[0] == "cast":
            lhs = lhs[3]
        if lhs[0] == "call" and len(lhs) == 2 and lhs[1][0] == "mem" and lhs[1][1] == ("this",) and lhs[1][2] in ("real", "imag"):
            lhs = ("mem", ("this",), "m_" + lhs[1][2])          # real() / imag() of *this return references to the parts (C10.opname checks the accessors too)
        if lhs[0] == "mem" and lhs[1] == ("this",) and lhs[2] in ("m_real", "m_imag"):
            self.state[lhs[2]] = rhs if op == "=" else ("op", op[:-1], self.state[lhs[2]], rhs)
            return
        if lhs == ("un", "*", ("this",)):
            if op != "=":
                v = ("cxop", op, self.this_val(), rhs)
            else:
                v = rhs
            self.state["m_real"], self.state["m_imag"] = self.part(v, "re"), self.part(v, "im")
            return
        if lhs[0] == "ref" and lhs[1] in self.loc:
            old = self.loc[lhs[1]]
            if op == "=":
                self.loc[lhs[1]] = rhs
            elif self.loc_cx.get(lhs[1]):
                self.loc[lhs[1]] = ("cxop", op, old, rhs)
            else:
                self.loc[lhs[1]] = ("op", op[:-1], old, rhs)
            return
        raise Giveup("assignment to `%s`" % ir.show(lhs))

    def run(self):
        d = self.d
        for s_ in ir.kids(ir.body(self.fn)):
            k = s_.get("kind")
            if k == "DeclStmt":
                for v in ir.kids(s_):
                    if v.get("kind") != "VarDecl":
                        continue
                    init = ir.ekids(v)
                    q = ir.qtype(v)
                    if not init:
                        self.loc[v["name"]] = ("zero",)
                    else:
                        t = ir.sx(init[-1])
                        val = self.ev(t)
                        if val[0] == "ctor1":
                            val = ("fromscalar", val[1]) if _is_cx_type(q) else val[1]
                        self.loc[v["name"]] = val
                    self.loc_cx[v["name"]] = _is_cx_type(q) or (q.strip() in ("auto", "const auto") and self.is_cx(self.loc[v["name"]]))
                continue
            if k in ("BinaryOperator", "CompoundAssignOperator") and s_.get("opcode", "").endswith("=") and s_.get("opcode") not in ("==", "!=", "<=", ">="):
                self.assign(ir.sx(s_))
                continue
            if k == "ReturnStmt":
                self.ret = self.ev(ir.sx(ir.ekids(s_)[0])) if ir.ekids(s_) else None
                return self
            if k in ("NullStmt",):
                continue
            raise Giveup("statement kind %s" % k)
        return self


def cx_runs(d, fn):
    """one finished CxSim per path: the straight-line body itself, or - when the body branches - every path through it (conditions are not
    interpreted: each branch must produce the expected effect on its own)"""
    from .. import flow
    try:
        return [CxSim(d, fn).run()]
    except Giveup as e:
        if "statement kind" not in str(e):
            raise
    out = []
    for path in flow.function_paths(fn, with_ctor_inits=False):
        sim = CxSim(d, fn)
        for st in path:
            if st[0] == "decl":
                v = st[1]
                init = ir.ekids(v)
                q = ir.qtype(v)
                val = sim.ev(ir.sx(init[-1])) if init else ("zero",)
                if val[0] == "ctor1":
                    val = ("fromscalar", val[1]) if _is_cx_type(q) else val[1]
                sim.loc[v["name"]] = val
                sim.loc_cx[v["name"]] = _is_cx_type(q) or (q.strip() in ("auto", "const auto") and sim.is_cx(val))
            elif st[0] == "ev" and st[1].get("kind") in ("BinaryOperator", "CompoundAssignOperator") and st[1].get("opcode", "").endswith("=") \
                    and st[1].get("opcode") not in ("==", "!=", "<=", ">="):
                sim.assign(ir.sx(st[1]))
            elif st[0] == "return":
                sim.ret = sim.ev(ir.sx(ir.ekids(st[1])[0])) if ir.ekids(st[1]) else None
            elif st[0] in ("throw", "escape"):
                raise Giveup("a path throws")
        out.append(sim)
    return out


def vshow(v):
    if not isinstance(v, tuple):
        return str(v)
    k = v[0]
    if k == "P":
        return v[1]
    if k == "THIS":
        return "*this"
    if k in ("re", "im"):
        return "%s(%s)" % ("real" if k == "re" else "imag", vshow(v[1]))
    if k == "cx":
        return "(%s, %s)" % (vshow(v[1]), vshow(v[2]))
    if k == "op":
        return "(%s %s %s)" % (vshow(v[2]), v[1], vshow(v[3]))
    if k == "neg":
        return "-%s" % vshow(v[1])
    if k == "call":
        return "%s(%s)" % (v[1], ", ".join(vshow(a) for a in v[2:]))
    if k == "cxop":
        return "(%s %s %s)" % (vshow(v[2]), v[1], vshow(v[3]))
    if k == "fromscalar":
        return "complex(%s)" % vshow(v[1])
    if k == "zero":
        return "0"
    if k == "lit":
        return v[1]
    return str(v)


def rule_fwd(rep, d):
    rep.rule("C10.fwd", "a free function F over xcomplex returns std::F applied to std::complex<value_type>(x) for every xcomplex "
                        "parameter and to the scalar parameters as they are, in parameter order")
    n = 0
    for fn in ir.functions(d):
        name = fn.get("name", "")
        if name.startswith("operator") or name in NOT_FORWARDERS or not ir.is_template_pattern(d, fn) or fn.get("kind") != "FunctionDecl":
            continue
        ps = ir.params(fn)
        if not ps or not any(is_xc(p) for p in ps):
            continue
        label = "%s(%s)" % (name, ", ".join("xcomplex" if is_xc(p) else "scalar" for p in ps))
        try:
            sim = CxSim(d, fn).run()
        except Giveup as e:
            rep.inconclusive("C10.fwd", name, "body", where=d.where(fn), detail="not straight-line: %s" % e)
            continue
        n += 1
        want = ("call", name) + tuple(("P", p["name"]) for p in ps)
        got = sim.ret
        why = ""
        ok = got == want
        if not ok:
            why = "returns `%s`, expected std::%s(%s) of its parameters in order" % (vshow(got) if got else "nothing", name, ", ".join(p["name"] for p in ps))
        # the callee must be the std function, and the conversion must be to std::complex over the value type (not a narrower one)
        body_txt = d.text(ir.body(fn))
        if ok and ("std::" + name) not in body_txt:
            ok, why = False, "the callee is not written as std::%s" % name
        if ok:
            for x in ir.walk_expr(ir.body(fn)):
                q = None
                if x.get("kind") in ("CXXUnresolvedConstructExpr", "CXXFunctionalCastExpr", "CXXTemporaryObjectExpr", "CXXConstructExpr"):
                    q = ir.qtype(x)
                elif x.get("kind") == "VarDecl":
                    q = ir.qtype(x)
                if q and "complex<" in q and "xcomplex" not in q:
                    inner = q[q.index("complex<") + 8:]
                    if "value_type" not in inner:
                        ok, why = False, "converts to `%s`, expected std::complex<value_type>" % q
        (rep.holds if ok else rep.violates)("C10.fwd", label, "forwards to std::" + name, where=d.where(fn),
                                            detail=vshow(got)[:120] if ok else why)
    rep.unit("%d forwarding wrappers" % n)


def part(t, names):
    """('call', ('mem', ('ref', X), 'real')) or member access -> (X, 'real'|'imag')"""
    t = strip_casts(t)
    if t[0] == "call" and len(t) == 2 and t[1][0] == "mem" and t[1][2] in ("real", "imag") and t[1][1][0] == "ref":
        return t[1][1][1], t[1][2]
    if t[0] == "mem" and t[2] in ("m_real", "m_imag"):
        who = t[1][1] if t[1][0] == "ref" else "this"
        return who, t[2][2:]
    return None


def rule_eq(rep, d):
    rep.rule("C10.eq", "== is (real == real) && (imag == imag) between the two operands, != is its negation, unary minus negates both "
                       "parts, unary plus returns its operand")
    from .. import flow
    from .. import fstring as fs
    for fn in ir.functions(d):
        name = fn.get("name")
        ps = ir.params(fn)
        if not ir.is_template_pattern(d, fn) or fn.get("kind") != "FunctionDecl" or not ps or not all(is_xc(p) for p in ps):
            continue
        where = d.where(fn)
        if name in ("operator==", "operator!=") and len(ps) == 2:
            # a comparison of the object representation is not the comparison of the parts: +0 == -0 and NaN != NaN are decided by ==, not by the bytes.
            # The library helpers the operator calls (tag-dispatched fast paths) are searched as well.
            seen_f, todo, hit = {fn.get("id")}, [fn], None
            depth_ = 0
            while todo and depth_ < 4 and hit is None:
                nxt = []
                for g in todo:
                    for c_ in ir.walk_expr(ir.body(g) or {}):
                        if c_.get("kind") not in ("CallExpr",) or not ir.ekids(c_):
                            continue
                        cal = ir.strip(ir.ekids(c_)[0])
                        cn = cal.get("name") or (cal.get("referencedDecl") or {}).get("name") or ""
                        if cn in ("memcmp", "bcmp", "__builtin_memcmp"):
                            hit = (c_, g)
                            break
                        for h in ir.functions(d, cn) if cn else []:
                            if h.get("id") not in seen_f and h.get("kind") == "FunctionDecl":
                                seen_f.add(h.get("id"))
                                nxt.append(h)
                    if hit:
                        break
                todo = nxt
                depth_ += 1
            if hit:
                rep.violates("C10.eq", name, "both parts", where=d.where(hit[0]),
                             detail="`%s`%s compares the object representation: (+0, x) and (-0, x) become unequal and a NaN part equal to itself, unlike the part-wise == of "
                                    "std::complex and of the reference closures" % (re.sub(r"\s+", " ", d.text(hit[0]))[:60], "" if hit[1] is fn else " (in %s, reached from the operator)" % hit[1].get("name")))
                continue
            # truth table over (real parts equal, imaginary parts equal), along every path
            l, r = ps[0]["name"], ps[1]["name"]
            loc = fs.local_sx(fn)
            sim = CxSim(d, fn)
            bad = None
            for er, ei in itertools.product((True, False), repeat=2):
                def tv(v):
                    k = v[0]
                    if k == "lit":
                        return {"true": True, "false": False, "1": True, "0": False}.get(v[1])
                    if k == "not":
                        x = tv(v[1])
                        return None if x is None else not x
                    if k == "cond":
                        c = tv(v[1])
                        return None if c is None else tv(v[2] if c else v[3])
                    if k == "op" and v[1] in ("&&", "||"):
                        x = tv(v[2])
                        if x is None:
                            return None
                        if x == (v[1] == "||"):
                            return x
                        return tv(v[3])
                    if k == "op" and v[1] in ("==", "!="):
                        a_, b_ = v[2], v[3]
                        res = None
                        if {a_, b_} == {("re", ("P", l)), ("re", ("P", r))}:
                            res = er
                        elif {a_, b_} == {("im", ("P", l)), ("im", ("P", r))}:
                            res = ei
                        elif {a_, b_} == {("P", l), ("P", r)}:
                            res = er and ei        # the sibling operator==, decided on its own
                        if res is None:
                            return None
                        return res if v[1] == "==" else not res
                    return None
                want = (er and ei) if name == "operator==" else not (er and ei)
                got = set()
                try:
                    for path in flow.function_paths(fn, with_ctor_inits=False):
                        feas = True
                        for s_ in path:
                            if s_[0] == "cond":
                                x = tv(sim.ev(fs.subst_locals(ir.sx(s_[1]), loc)))
                                if x is None:
                                    raise Giveup("condition `%s`" % d.text(s_[1])[:50])
                                if x != s_[2]:
                                    feas = False
                                    break
                        if not feas:
                            continue
                        end = path[-1]
                        if end[0] != "return":
                            raise Giveup("a path does not return")
                        x = tv(sim.ev(fs.subst_locals(ir.sx(ir.ekids(end[1])[0]), loc)))
                        if x is None:
                            lastc = [s_ for s_ in path if s_[0] == "cond"]
                            rt = strip_casts(ir.sx(ir.ekids(end[1])[0]))
                            if lastc and rt[0] == "bin" and rt[1] in ("&&", "||"):
                                x = lastc[-1][2]
                            else:
                                raise Giveup("returned expression `%s`" % d.text(ir.ekids(end[1])[0])[:60])
                        got.add(x)
                except Giveup as e:
                    bad = ("inconclusive", "not evaluable: %s" % e)
                    break
                if got != {want}:
                    bad = ("violates", "with real parts %s and imaginary parts %s it yields %s, expected %s" % (
                        "equal" if er else "different", "equal" if ei else "different", sorted(got), want))
                    break
            cons = "both parts" if name == "operator==" else "negation of =="
            if bad is None:
                rep.holds("C10.eq", name, cons, where=where, detail="truth table over (real equal, imag equal)")
            elif bad[0] == "violates":
                rep.violates("C10.eq", name, cons, where=where, detail=bad[1])
            else:
                rep.inconclusive("C10.eq", name, cons, where=where, detail=bad[1])
        elif name in ("operator-", "operator+") and len(ps) == 1:
            p = ("P", ps[0]["name"])
            try:
                got = CxSim(d, fn).run().ret
            except Giveup as e:
                rep.inconclusive("C10.eq", "%s(x)" % name, "unary", where=where, detail=str(e))
                continue
            if name == "operator-":
                ok = got == ("cx", ("neg", ("re", p)), ("neg", ("im", p)))
                (rep.holds if ok else rep.violates)("C10.eq", "operator-(x)", "negates both parts", where=where,
                                                    detail=vshow(got) if ok else "expected (-x.real(), -x.imag()); found `%s`" % vshow(got))
            else:
                ok = got == p
                (rep.holds if ok else rep.violates)("C10.eq", "operator+(x)", "identity", where=where, detail=vshow(got))


def rule_opname(rep, d):
    rep.rule("C10.opname", "binary operator X(lhs, rhs): result constructed from lhs, `res X= rhs`, returned; compound assignment with a "
                           "scalar touches real only (+= -=) or both parts (*= /=); member (compound) assignments from another xcomplex treat "
                           "m_real/m_imag symmetrically (real<-real, imag<-imag); *= and /= assign mul/div(*this, rhs)")
    THIS = ("THIS",)
    for fn in ir.functions(d):
        name = fn.get("name", "")
        if not ir.is_template_pattern(d, fn):
            continue
        ps = ir.params(fn)
        where = d.where(fn)
        if fn.get("kind") == "FunctionDecl" and name in ("operator+", "operator-", "operator*", "operator/") and len(ps) == 2 and any(is_xc(p) for p in ps):
            op = name[8:]
            label = "%s(%s)" % (name, ", ".join("xcomplex" if is_xc(p) else "scalar" for p in ps))
            try:
                got = CxSim(d, fn).run().ret
            except Giveup as e:
                rep.inconclusive("C10.opname", label, "built from the left operand with %s=" % op, where=where, detail=str(e))
                continue
            l, r = ("P", ps[0]["name"]), ("P", ps[1]["name"])
            want = ("cxop", op + "=", l if is_xc(ps[0]) else ("fromscalar", l), r)
            ok = got == want
            (rep.holds if ok else rep.violates)("C10.opname", label, "built from the left operand with %s=" % op, where=where,
                                                detail=vshow(got) if ok else "expected `R res(lhs); res %s= rhs; return res;`, i.e. %s; found %s" % (op, vshow(want), vshow(got) if got else "?"))
            continue
        cls = ir.enclosing_class(d, fn)
        if cls is None or cls.get("name") != "xcomplex" or fn.get("kind") != "CXXMethodDecl":
            continue
        if not name.startswith("operator") or not name.endswith("=") or name in ("operator==", "operator!="):
            continue
        op = name[8:]
        arg_xc = bool(ps) and is_xc(ps[0])
        if not ps:
            continue
        label = "xcomplex::%s(%s)" % (name, "xcomplex" + ("&&" if "&&" in ir.wtype(ps[0]) else "") if arg_xc else "scalar")
        try:
            sims = cx_runs(d, fn)
        except Giveup as e:
            rep.inconclusive("C10.opname", label, "effect on (m_real, m_imag)", where=where, detail=str(e))
            continue
        R = ("P", ps[0]["name"])
        re0, im0 = ("re", THIS), ("im", THIS)
        for sim in sims:
          got = (sim.state["m_real"], sim.state["m_imag"])
          pathnote = "" if len(sims) == 1 else " on one of the %d paths" % len(sims)
          if arg_xc and op in ("=", "+=", "-="):
              want = (("re", R), ("im", R)) if op == "=" else (("op", op[:-1], re0, ("re", R)), ("op", op[:-1], im0, ("im", R)))
              ok = got == want
              (rep.holds if ok else rep.violates)("C10.opname", label, "part-wise", where=where,
                                                  detail=vshow(("cx",) + got) if ok else "leaves (m_real, m_imag) = (%s, %s); expected (%s, %s)" % (vshow(got[0]), vshow(got[1]), vshow(want[0]), vshow(want[1])))
          elif arg_xc and op in ("*=", "/="):
              fnname = "mul" if op == "*=" else "div"
              m = ("call", fnname, THIS, R)
              ok = got == (("re", m), ("im", m))
              det = vshow(("cx",) + got)
              if ok and "B || OB" not in d.text(ir.body(fn)).replace("  ", " "):
                  ok, det = False, "the multiplier is not selected with `B || OB` (either operand may ask for IEEE semantics)"
              (rep.holds if ok else rep.violates)("C10.opname", label, "assigns %s(*this, rhs)" % fnname, where=where,
                                                  detail=det if ok else ("leaves (%s, %s); expected the parts of %s(*this, rhs)" % (vshow(got[0]), vshow(got[1]), fnname) if det == vshow(("cx",) + got) else det))
          elif not arg_xc and op in ("+=", "-=", "*=", "/="):
              want = (("op", op[:-1], re0, R), im0) if op in ("+=", "-=") else (("op", op[:-1], re0, R), ("op", op[:-1], im0, R))
              ok = got == want
              (rep.holds if ok else rep.violates)("C10.opname", label, "parts touched", where=where,
                                                  detail=vshow(("cx",) + got) if ok else "%s with a real scalar leaves (%s, %s); expected (%s, %s)" % (op, vshow(got[0]), vshow(got[1]), vshow(want[0]), vshow(want[1])))
          elif not arg_xc and op == "=":
              ok = got[0] == R and got[1][0] in ("zero", "lit") and (got[1][0] == "zero" or got[1][1] in ("0", "0.0", "0.", "0.0f"))
              (rep.holds if ok else rep.violates)("C10.opname", label, "real <- scalar, imag <- 0", where=where, detail="(%s, %s)" % (vshow(got[0]), vshow(got[1])))


# ---- polynomial identities -------------------------------------------------------------------------------------------------
class PolyEval:
    """evaluate straight-line value_type arithmetic to polynomials / quotients over the symbols a b c d"""
    def __init__(self, env):
        self.env = dict(env)

    def ev(self, t):
        t = strip_casts(t)
        k = t[0]
        if k == "ref":
            if t[1] in self.env:
                return self.env[t[1]]
            return ("sym", t[1])
        if k == "lit":
            try:
                return Poly.const(int(float(str(t[1]))))
            except ValueError:
                return ("sym", str(t[1]))
        if k == "bin" and t[1] in ("+", "-", "*", "/"):
            a, b = self.ev(t[2]), self.ev(t[3])
            if t[1] == "/":
                return ("div", a, b)
            if t[1] == "*" and isinstance(a, Poly) and isinstance(b, Poly) and (len(a) == 0 or len(b) == 0):
                # a literal zero factor (Annex G "finite / infinity = signed zero"): keep the other factor visible
                return ("*", ("sym", "zero"), b if len(a) == 0 else a)
            if isinstance(a, Poly) and isinstance(b, Poly):
                return a + b if t[1] == "+" else a - b if t[1] == "-" else a * b
            return (t[1], a, b)
        if k == "un" and t[1] == "-":
            a = self.ev(t[2])
            return -a if isinstance(a, Poly) else ("neg", a)
        if k == "call":
            return ("call", ir.show(t[1]).split("::")[-1]) + tuple(self.ev(x) for x in t[2:])
        if k == "construct":
            return ("construct",) + tuple(self.ev(x) for x in t[2:])
        return ("opaque", ir.show(t))


def P(*monos):
    r = Poly()
    for coef, syms in monos:
        r = r + Poly({tuple(sorted(syms)): coef})
    return r


RE_MUL = P((1, "ac"), (-1, "bd"))
IM_MUL = P((1, "ad"), (1, "bc"))
RE_DIVN = P((1, "ac"), (1, "bd"))
IM_DIVN = P((1, "bc"), (-1, "ad"))
DEN = P((1, "cc"), (1, "dd"))


def rule_poly(rep, d):
    rep.rule("C10.poly", "with a+bi = lhs, c+di = rhs: textbook mul returns (ac-bd, ad+bc); textbook div returns ((ac+bd)/(cc+dd), "
                         "(bc-ad)/(cc+dd)); the Annex G paths compute the same polynomials (first attempt, infinity recovery, scaled "
                         "quotient and its special cases)")
    found = 0
    for fn in ir.functions(d):
        name = fn.get("name")
        cls = ir.enclosing_class(d, fn)
        if name not in ("mul", "div") or cls is None or cls.get("name") != "xcomplex_multiplier":
            continue
        ieee = cls.get("kind") == "ClassTemplateSpecializationDecl"
        label = "xcomplex_multiplier<%s>::%s" % ("true" if ieee else "false", name)
        where = d.where(fn)
        found += 1
        ps = [p["name"] for p in ir.params(fn)]
        env = {}
        pe = PolyEval(env)
        roles = {}
        # a, b, c, d are the locals initialised from lhs.real(), lhs.imag(), rhs.real(), rhs.imag()
        for v in ir.walk_expr(ir.body(fn)):
            if v.get("kind") == "VarDecl" and ir.ekids(v):
                pt = part(ir.sx(ir.ekids(v)[-1]), None)
                if pt and pt[0] in ps:
                    sym = {(0, "real"): "a", (0, "imag"): "b", (1, "real"): "c", (1, "imag"): "d"}[(ps.index(pt[0]), pt[1])]
                    roles[v["name"]] = sym
                    pe.env[v["name"]] = Poly.sym(sym)
        if sorted(roles.values()) != ["a", "b", "c", "d"]:
            rep.inconclusive("C10.poly", label, "operand parts", where=where, detail="locals for the four parts not recognised: %s" % roles)
            continue
        # other value locals with arithmetic initialisers (ac, bd, x, y, e, denom ...)
        checks = []
        for s in ir.walk_expr(ir.body(fn)):
            if s.get("kind") == "VarDecl" and s["name"] not in roles and ir.ekids(s):
                val = pe.ev(ir.sx(ir.ekids(s)[-1]))
                pe.env[s["name"]] = val
                checks.append((s["name"], val, s))
            elif s.get("kind") == "BinaryOperator" and s.get("opcode") == "=":
                t = ir.sx(s)
                if t[2][0] == "ref" and t[2][1] in ("x", "y"):
                    # recomputation: evaluated with the parts as *fresh* symbols (boxed values keep their roles)
                    pe2 = PolyEval({n_: Poly.sym(r_) for n_, r_ in roles.items()})
                    for k_, v_ in pe.env.items():
                        if k_ not in roles and k_ in ("denom", "e"):
                            pe2.env[k_] = v_
                    checks.append((t[2][1] + " (recomputed)", pe2.ev(t[3]), s))
        rets = [s for s in ir.walk_expr(ir.body(fn)) if s.get("kind") == "ReturnStmt"]
        rt = pe.ev(ir.sx(ir.ekids(rets[-1])[0])) if rets else None

        def core(v):
            """strip inf*(...), 0*(...), scalbn(..., k) wrappers: the polynomial that decides the value"""
            while isinstance(v, tuple):
                if v[0] == "*" and (not isinstance(v[1], Poly) or not isinstance(v[2], Poly)):
                    v = v[2] if not isinstance(v[1], Poly) or v[1] == Poly() or len(v[1]) == 0 else v[1]
                    continue
                if v[0] == "call" and v[1] == "scalbn":
                    v = v[2]
                    continue
                break
            return v
        want_re = RE_MUL if name == "mul" else ("div", RE_DIVN, DEN)
        want_im = IM_MUL if name == "mul" else ("div", IM_DIVN, DEN)
        # final result
        parts = None
        if isinstance(rt, tuple) and rt[0] == "construct" and len(rt) == 3:
            parts = (rt[1], rt[2])
        if parts is None:
            rep.inconclusive("C10.poly", label, "result", where=where, detail="result construction not recognised")
            continue
        for which, val, want in (("real", parts[0], want_re), ("imag", parts[1], want_im)):
            c = core(val)
            ok = c == want
            (rep.holds if ok else rep.violates)("C10.poly", label, "%s part" % which, where=where,
                                                detail=pshow(c) if ok else "computes %s, complex %s needs %s" % (pshow(c), "multiplication" if name == "mul" else "division", pshow(want)))
        for nm, val, node in checks:
            if nm.startswith("x") or nm.startswith("y"):
                c = core(val)
                which = "real" if nm.startswith("x") else "imag"
                want = want_re if which == "real" else want_im
                # special-case branches multiply by +-inf or 0 and drop the division: numerator only is acceptable there
                alts = [want]
                if name == "div":
                    alts.append(want[1])
                if nm.endswith("(recomputed)") and name == "div":
                    alts += [Poly.sym("a"), Poly.sym("b")] if False else []
                if c in alts:
                    rep.holds("C10.poly", label, "%s = ..." % nm, where=d.where(node), detail=pshow(c))
                elif isinstance(c, Poly) and name == "div" and c in (Poly.sym("a"), Poly.sym("b")) and ((which == "real") == (c == Poly.sym("a"))):
                    rep.holds("C10.poly", label, "%s = ..." % nm, where=d.where(node), detail="division by zero: inf * %s" % pshow(c))
                else:
                    rep.violates("C10.poly", label, "%s = ..." % nm, where=d.where(node),
                                 detail="computes %s, the %s part needs %s" % (pshow(c), which, pshow(want)))
    if found < 4:
        rep.broke("expected mul and div in both xcomplex_multiplier variants, found %d" % found)


def pshow(v):
    if isinstance(v, Poly):
        return v.show()
    if isinstance(v, tuple):
        return "%s(%s)" % (v[0], ", ".join(pshow(x) for x in v[1:]))
    return str(v)


def rule_box(rep, d):
    rep.rule("C10.box", "Annex G idioms: `v = copysign(isinf(w) ? 1 : 0, u)` has v, w, u the same variable; `if (isnan(v)) v = "
                        "copysign(0, v)` one variable; the divisor scale is logb(fmax(fabs(c), fabs(d))) of the two divisor parts and every "
                        "scalbn uses +-ilogbw consistently")
    n_box = 0
    for fn in ir.functions(d):
        cls = ir.enclosing_class(d, fn)
        if fn.get("name") not in ("mul", "div") or cls is None or cls.get("name") != "xcomplex_multiplier" or cls.get("kind") != "ClassTemplateSpecializationDecl":
            continue
        label = "xcomplex_multiplier<true>::" + fn["name"]
        roles = {}
        ps = [p["name"] for p in ir.params(fn)]
        for v in ir.walk_expr(ir.body(fn)):
            if v.get("kind") == "VarDecl" and ir.ekids(v):
                pt = part(ir.sx(ir.ekids(v)[-1]), None)
                if pt and pt[0] in ps:
                    roles[v["name"]] = (ps.index(pt[0]), pt[1])
        def helper(nm):
            """a function of the library with a body (an idiom extracted from mul/div), by name"""
            if not nm or nm in ("copysign", "isinf", "isnan", "logb", "fmax", "fabs", "scalbn", "isfinite", "abs", "max", "mul", "div"):
                return None
            for f in ir.functions(d, nm):
                if ir.body(f) is not None and "xcomplex.hpp" in (d.where(f) or ""):
                    return f
            return None

        def subst(x, m):
            if not isinstance(x, tuple):
                return x
            if x[0] == "ref" and x[1] in m:
                return m[x[1]]
            return tuple(subst(y, m) if isinstance(y, tuple) else y for y in x)

        def expand(t, depth=0):
            if not isinstance(t, tuple):
                return t
            t = tuple(expand(x, depth) if isinstance(x, tuple) else x for x in t)
            if len(t) >= 2 and t[0] == "call" and isinstance(t[1], tuple) and t[1][0] == "ref" and depth < 3:
                h = helper(str(t[1][1]).split("::")[-1])
                if h is not None:
                    ks_ = ir.kids(ir.body(h))
                    if len(ks_) == 1 and ks_[0].get("kind") == "ReturnStmt" and ir.ekids(ks_[0]):
                        m = dict(zip([p_.get("name") for p_ in ir.params(h)], t[2:]))
                        return expand(subst(ir.sx(ir.ekids(ks_[0])[0]), m), depth + 1)
            return t

        def scan(root, sub, depth=0):
            nonlocal n_box
            for s in ir.walk_expr(root):
                if s.get("kind") == "CallExpr" and depth < 3 and (d.parent_of(s) or {}).get("kind") in ("CompoundStmt", "IfStmt", "ExprWithCleanups"):
                    tc = ir.sx(s)
                    h = helper(str(tc[1][1]).split("::")[-1]) if tc[0] == "call" and tc[1][0] == "ref" else None
                    if h is not None:
                        m = dict(zip([p_.get("name") for p_ in ir.params(h)], [subst(strip_casts(x), sub) for x in tc[2:]]))
                        scan(ir.body(h), m, depth + 1)
                        continue
                if s.get("kind") == "BinaryOperator" and s.get("opcode") == "=":
                    t = subst(strip_casts(expand(ir.sx(s))), sub)
                    lhs, rhs = strip_casts(t[2]), strip_casts(t[3])
                    if rhs[0] == "call" and ir.show(rhs[1]).endswith("copysign") and len(rhs) == 4 and lhs[0] == "ref" and not under_isnan(s, root):
                        n_box += 1
                        mag, sign = strip_casts(rhs[2]), strip_casts(rhs[3])
                        v = lhs[1]
                        vars_ = {v}
                        if sign[0] == "ref":
                            vars_.add(sign[1])
                        else:
                            vars_.add("?" + ir.show(sign))
                        if mag[0] == "cond":
                            c = strip_casts(mag[1])
                            if c[0] == "call" and ir.show(c[1]).endswith("isinf") and strip_casts(c[2])[0] == "ref":
                                vars_.add(strip_casts(c[2])[1])
                            else:
                                vars_.add("?" + ir.show(c))
                        # a sign taken from another variable is legitimate only for the infinity results (x, y from c)
                        if lhs[1] in ("x", "y"):
                            continue
                        if len(vars_) == 1:
                            rep.holds("C10.box", label, "boxing of %s" % v, where=d.where(s), detail=ir.show(t)[:100])
                        else:
                            rep.violates("C10.box", label, "boxing of %s" % v, where=d.where(s),
                                         detail="`%s` boxes %s but classifies/takes the sign of %s: the component being boxed must be the one tested" % (
                                             d.text(s)[:90], v, sorted(vars_ - {v})))
                if s.get("kind") == "IfStmt":
                    ks = ir.ekids(s)
                    c = subst(strip_casts(expand(ir.sx(ks[0]))), sub)
                    if c[0] == "call" and ir.show(c[1]).endswith("isnan") and strip_casts(c[2])[0] == "ref":
                        cv = strip_casts(c[2])
                        inner = [x for x in ir.walk_expr(ks[1]) if x.get("kind") == "BinaryOperator" and x.get("opcode") == "="]
                        for a in inner:
                            ta = subst(strip_casts(expand(ir.sx(a))), sub)
                            r_ = strip_casts(ta[3])
                            if r_[0] == "call" and ir.show(r_[1]).endswith("copysign"):
                                n_box += 1
                                ok = strip_casts(ta[2]) == cv and strip_casts(r_[3]) == cv
                                (rep.holds if ok else rep.violates)("C10.box", label, "NaN -> signed zero of %s" % cv[1], where=d.where(a),
                                                                    detail=ir.show(ta)[:90] if ok else "tests isnan(%s) but rewrites `%s`" % (cv[1], ir.show(ta)[:80]))

        def under_isnan(s, root):
            p_ = d.parent_of(s)
            while p_ is not None and p_ is not root:
                if p_.get("kind") == "IfStmt":
                    c_ = strip_casts(ir.sx(ir.ekids(p_)[0]))
                    if c_[0] == "call" and ir.show(c_[1]).endswith("isnan") and len(c_) == 3:
                        return True
                p_ = d.parent_of(p_)
            return False
        scan(ir.body(fn), {})
        if fn["name"] == "div":
            # scale
            cd = {n_ for n_, r_ in roles.items() if r_[0] == 1}
            direct = [v for v in ir.walk_expr(ir.body(fn)) if v.get("kind") == "VarDecl" and v["name"] == "logbw" and ir.ekids(v)
                      and any(s_[0] == "call" and ir.show(s_[1]).endswith("logb") for s_ in ir.subterms(strip_casts(ir.sx(ir.ekids(v)[-1]))))]
            if not direct:
                # the scale may be computed in a helper the divisor parts are handed to: logb(fmax(fabs(p), fabs(q))) of two of its parameters
                found_h = None
                for c_ in ir.walk_expr(ir.body(fn)):
                    if c_.get("kind") == "CallExpr":
                        tc = strip_casts(ir.sx(c_))
                        nm_ = str(tc[1][1]).split("::")[-1] if tc[0] == "call" and tc[1][0] == "ref" else (tc[1][2] if tc[0] == "call" and tc[1][0] == "mem" else None)
                        h_ = helper(nm_) if nm_ else None
                        if h_ is None:
                            continue
                        hp = [p_["name"] for p_ in ir.params(h_)]
                        passed = {hp[i_] for i_, a_ in enumerate(tc[2:]) if i_ < len(hp) and strip_casts(a_)[0] == "ref" and strip_casts(a_)[1] in cd}
                        for x_ in ir.walk_expr(ir.body(h_)):
                            tx = strip_casts(ir.sx(x_)) if x_.get("kind") in ("BinaryOperator", "VarDecl") and (x_.get("kind") != "VarDecl" or ir.ekids(x_)) else None
                            if x_.get("kind") == "VarDecl" and ir.ekids(x_):
                                tx = ("bin", "=", ("ref", x_["name"]), strip_casts(ir.sx(ir.ekids(x_)[-1])))
                            if tx and tx[0] == "bin" and tx[1] == "=" and tx[3][0] == "call" and ir.show(tx[3][1]).endswith("logb") and len(tx[3]) == 3:
                                m = tx[3][2]
                                names = set()
                                good = m[0] == "call" and ir.show(m[1]).split("::")[-1] == "fmax" and len(m) == 4
                                if good:
                                    for a_ in m[2:]:
                                        if a_[0] == "call" and ir.show(a_[1]).endswith(("fabs", "abs")) and a_[2][0] == "ref":
                                            names.add(a_[2][1])
                                        else:
                                            good = False
                                found_h = (x_, good and names == passed and len(passed) == 2, ir.show(tx[3]))
                if found_h is None:
                    rep.inconclusive("C10.box", label, "divisor scale", where=d.where(fn), detail="no logb(...) of the divisor found in div or in a helper it hands the divisor to")
                else:
                    (rep.holds if found_h[1] else rep.violates)("C10.box", label, "divisor scale", where=d.where(found_h[0]),
                                                               detail=found_h[2] if found_h[1] else "the scale must be logb(fmax(fabs(c), fabs(d))) of the two divisor parts; found `%s`" % found_h[2])
            for v in direct:
                if True:
                    t = strip_casts(ir.sx(ir.ekids(v)[-1]))
                    ok = False
                    if t[0] == "call" and ir.show(t[1]).endswith("logb") and len(t) == 3:
                        m = t[2]
                        if m[0] == "call" and ir.show(m[1]).split("::")[-1] == "fmax" and len(m) == 4:
                            args = m[2:]
                            names = set()
                            good = True
                            for a in args:
                                if a[0] == "call" and ir.show(a[1]).endswith(("fabs", "abs")) and a[2][0] == "ref":
                                    names.add(a[2][1])
                                else:
                                    good = False
                            ok = good and names == cd
                    nanmax = (not ok) and t[0] == "call" and len(t) == 3 and t[2][0] == "call" and ir.show(t[2][1]).split("::")[-1] in ("max", "min")
                    (rep.holds if ok else rep.violates)("C10.box", label, "divisor scale", where=d.where(v),
                                                        detail=ir.show(t) if ok else ("the scale must be logb(fmax(fabs(c), fabs(d))) of the two divisor parts; found `%s`%s" % (
                                                            ir.show(t), " - std::max returns its first argument when that is NaN, fmax ignores a NaN: (1,1)/(NaN,inf) then misses the "
                                                                        "'finite / infinite = 0' recovery" if nanmax else "")))
            exps = []
            for c in ir.walk_expr(ir.body(fn)):
                if c.get("kind") == "CallExpr":
                    t = strip_casts(ir.sx(c))
                    if ir.show(t[1]).endswith("scalbn") and len(t) == 4:
                        exps.append((ir.show(t[3]), c))
            # Annex G scales the divisor whenever its exponent is finite: the rescaling may depend on isfinite(logbw) only
            extra = None
            for e_, c in exps[:2]:
                p_ = d.parent_of(c)
                while p_ is not None and p_ is not fn:
                    if p_.get("kind") == "IfStmt":
                        ct = strip_casts(ir.sx(ir.ekids(p_)[0]))
                        atoms = []

                        def flat(x):
                            if x[0] == "bin" and x[1] in ("&&", "||"):
                                flat(x[2]); flat(x[3])
                            else:
                                atoms.append(x)
                        flat(ct)
                        for a_ in atoms:
                            mentions = any(s_[0] == "ref" and s_[1] in ("logbw", "ilogbw") for s_ in ir.subterms(a_))
                            isfin = a_[0] == "call" and ir.show(a_[1]).endswith("isfinite")
                            if mentions and not isfin:
                                extra = (p_, ir.show(a_))
                    p_ = d.parent_of(p_)
            if exps:
                (rep.violates if extra else rep.holds)("C10.box", label, "divisor rescaled whenever its exponent is finite", where=d.where(extra[0]) if extra else d.where(fn),
                                                       detail=("the rescaling is additionally conditioned on `%s`: for exponents it excludes the quotient is computed unscaled "
                                                               "(overflow/underflow of c*c + d*d depends on the value type)" % extra[1]) if extra else "guarded by isfinite(logbw) only")
            okx = bool(exps) and all(e == "-ilogbw" for e, _ in exps) and len(exps) == 4
            has_il = any(v_.get("kind") == "VarDecl" and v_.get("name") == "ilogbw" for v_ in ir.walk_expr(ir.body(fn)))
            if okx or has_il or not exps and not any("scalbn" in d.text(h_) for h_ in ir.functions(d) if "xcomplex.hpp" in (d.where(h_) or "") and ir.body(h_) is not None):
                (rep.holds if okx else rep.violates)("C10.box", label, "scalbn exponents", where=d.where(fn),
                                                     detail="4 x scalbn(., -ilogbw)" if okx else "expected scalbn(c|d|x|y, -ilogbw) four times; found %s" % [e for e, _ in exps])
            else:
                rep.inconclusive("C10.box", label, "scalbn exponents", where=d.where(fn), detail="the exponent is not kept in a local `ilogbw` here (%s): not followed" % [e for e, _ in exps])
    if n_box < 10:
        rep.broke("Annex G boxing idioms not found (%d)" % n_box)


def rule_kinds(rep, tier):
    rep.rule("C10.kinds", "for closure kinds {T, T&, const T&} on the right and writable kinds on the left, ieee in {false,true}: "
                          "= += -= *= /= and the binary operators compile")
    w = WitnessTU('#include "xtl/xcomplex.hpp"\n#include <complex>\nnamespace w { using namespace xtl;\n')
    k = 0
    kinds = [("double", "double"), ("double&", "double&"), ("const double&", "const double&")]
    for ieee in ("false", "true"):
        for (lr, li), (rr, ri) in itertools.product(kinds[:2], kinds):
            L = "xcomplex<%s, %s, %s>" % (lr, li, ieee)
            Rt = "xcomplex<%s, %s, %s>" % (rr, ri, ieee)
            for op in ("=", "+=", "-=", "*=", "/="):
                if op == "=" and L == Rt and "&" in lr:
                    continue        # same-type assignment of reference closures is the (deleted) copy assignment: not in the property
                k += 1
                w.must_compile("inline void f%d(%s& l, const %s& r) { l %s r; }" % (k, L, Rt, op), "C10.kinds", "xcomplex::operator" + op, "compiles",
                               "%s %s %s" % (L, op, Rt))
            for op in ("+", "-", "*", "/"):
                k += 1
                w.must_compile("inline auto g%d(const %s& l, const %s& r) { return l %s r; }" % (k, L, Rt, op), "C10.kinds", "operator" + op, "compiles",
                               "%s %s %s" % (L, op, Rt))
            k += 1
            w.must_compile("inline void h%d(%s& l) { l += 2.; l -= 2.; l *= 2.; l /= 2.; l = 3.; }" % (k, L), "C10.kinds", "scalar compound ops", "compiles", L)
        k += 1
        w.must_compile("inline auto s%d(const xcomplex<double, double, %s>& l, const std::complex<double>& c) { xcomplex<double, double, %s> x(c); std::complex<double> y = l; return x + l; }"
                       % (k, ieee, ieee), "C10.kinds", "std::complex conversion", "compiles", "ieee=" + ieee)
    # the IEEE (Annex G) mode is contagious: a binary operation with at least one IEEE operand yields an IEEE xcomplex, in either operand order
    w.raw("template <class T> struct ieee_of; template <class R, class I, bool B> struct ieee_of<xcomplex<R, I, B>> { static constexpr bool value = B; };")
    for op in ("+", "-", "*", "/"):
        for a, b in (("true", "false"), ("false", "true"), ("true", "true"), ("false", "false")):
            for rk in ("double", "double&", "const double&"):
                want = "true" if "true" in (a, b) else "false"
                w.must_hold("ieee_of<std::decay_t<decltype(std::declval<const xcomplex<double, double, %s>&>() %s std::declval<const xcomplex<%s, %s, %s>&>())>>::value == %s"
                            % (a, op, rk, rk, b, want), "C10.kinds", "operator" + op, "IEEE mode of the result", "ieee(%s) %s ieee(%s) [%s]" % (a, op, b, rk))
    # ... and it is kept by everything that builds its result through temporary_xcomplex: unary operators, conj, operations with a scalar, the elementary
    # functions - otherwise the second step of an expression such as (-p) * (-q) silently falls back to the textbook formula
    for ie in ("true", "false"):
        for rk in ("double", "double&", "const double&"):
            X = "std::declval<const xcomplex<%s, %s, %s>&>()" % (rk, rk, ie)
            for what, e in (("operator- (unary)", "-" + X), ("operator+ (unary)", "+" + X), ("conj", "conj(%s)" % X), ("operator* with a scalar", X + " * 2."),
                            ("operator* with a scalar (left)", "2. * " + X), ("operator/ with a scalar", X + " / 2."), ("operator/ with a scalar (left)", "2. / " + X),
                            ("operator+ with a scalar", X + " + 2."), ("operator- with a scalar (left)", "2. - " + X), ("exp", "exp(%s)" % X), ("sqrt", "sqrt(%s)" % X)):
                w.must_hold("ieee_of<std::decay_t<decltype(%s)>>::value == %s" % (e, ie), "C10.kinds", what, "IEEE mode of the result", "ieee(%s) [%s]" % (ie, rk))
    # the imaginary closure defaults to the kind of the real one: xcomplex<double&> is a reference closure in both parts
    for rk in ("double", "double&", "const double&"):
        w.must_hold("std::is_same<xcomplex<%s>, xcomplex<%s, %s, false>>::value" % (rk, rk, rk), "C10.kinds", "xcomplex<CTR>", "defaulted template arguments", rk)
    w.raw("}")
    for comp, std in ([("clang++", "gnu++17"), ("g++", "gnu++14")] if tier == "quick" else [("clang++", "gnu++14"), ("clang++", "gnu++17"), ("clang++", "gnu++20"), ("g++", "gnu++14"), ("g++", "gnu++17")]):
        w.run(rep, std=std, compiler=comp)


def run(tier):
    rep = Report("C10", tier, "other",
                 "Structural clauses only: forwarding agreement of 27 wrappers, shape of ==/!=/unary ops, operator-name agreement of the "
                 "binary and compound operators and (real, imag) symmetry of the member assignments, polynomial identity of the textbook "
                 "and Annex G mul/div formulas in (a,b,c,d), Annex G boxing idioms and scale consistency, closure-kind compile witnesses. "
                 "Every numeric clause (rounding, special-value results, scaling accuracy) is NOT decided.",
                 trusted_base=["clang 14 pattern AST", "polynomial evaluator (sa/rules/c12.Poly, c10.PolyEval)", "clang++/g++ for the witnesses"],
                 assumptions=["std::complex and <cmath> functions behave as specified"])
    d = cj.dump(DRIVER, "xtl::")
    rep.cmd(d.cmd)
    rule_fwd(rep, d)
    rule_eq(rep, d)
    rule_opname(rep, d)
    rule_poly(rep, d)
    rule_box(rep, d)
    rule_kinds(rep, tier)
    return rep
