"""C10 — xcomplex arithmetic is complex arithmetic; IEEE mode follows C99 Annex G.

The numeric clauses (rounding, scaling accuracy, special-value results) are not decidable statically.  Decided:
C10.fwd     forwarded elementary functions call the same-named std function on std::complex<value_type>(arg) in order
C10.eq      == compares both parts, != negates it, unary minus negates both parts, unary plus is the identity
C10.opname  binary operator X builds its result from the LEFT operand and applies X= with the RIGHT one; compound scalar forms
            touch the parts complex arithmetic says; member assignments/compound ops treat (real, imag) symmetrically
C10.poly    textbook mul/div and the Annex G recomputations are the right polynomials in (a, b, c, d)
C10.box     Annex G boxing idioms classify the component they box; the divisor scale is logb(max(|c|, |d|)) and all scalbn use -ilogbw
C10.kinds   every closure-kind combination of = += -= *= /= and the binary operators compiles (witnesses)
"""
import itertools
from .. import clangjson as cj
from .. import ir
from ..report import Report
from ..witness import WitnessTU
from .c12 import Poly

DRIVER = '#include "xtl/xcomplex.hpp"\n'
NOT_FORWARDERS = {"real", "imag", "forward_real", "forward_imag", "forward_offset", "mime_bundle_repr", "polar"}


def strip_casts(t):
    if not isinstance(t, tuple):
        return t
    if t[0] == "cast":
        return strip_casts(t[3])
    if t[0] == "construct" and len(t) == 3:
        return strip_casts(t[2])
    return (t[0],) + tuple(strip_casts(x) for x in t[1:])


def is_xc(p):
    return "xcomplex<" in ir.wtype(p)


def rule_fwd(rep, d):
    rep.rule("C10.fwd", "a free function F over xcomplex returns std::F applied to std::complex<value_type>(x) for every xcomplex "
                        "parameter and to the scalar parameters as they are, in parameter order")
    n = 0
    for fn in ir.functions(d):
        name = fn.get("name", "")
        if name.startswith("operator") or name in NOT_FORWARDERS or not ir.is_template_pattern(d, fn) or fn.get("kind") != "FunctionDecl":
            continue
        ps = ir.params(fn)
        if not ps or not any(is_xc(p) for p in ps):
            continue
        stmts = [s for s in ir.kids(ir.body(fn)) if s.get("kind") != "DeclStmt"]
        if len(stmts) != 1 or stmts[0].get("kind") != "ReturnStmt":
            rep.inconclusive("C10.fwd", name, "body", where=d.where(fn), detail="not a single return statement")
            continue
        n += 1
        raw = ir.sx(ir.ekids(stmts[0])[0])
        label = "%s(%s)" % (name, ", ".join("xcomplex" if is_xc(p) else "scalar" for p in ps))
        t = raw
        while t[0] == "cast" or (t[0] == "construct" and len(t) == 3):
            t = t[3] if t[0] == "cast" else t[2]
        ok = t[0] == "call" and t[1] == ("ref", name) and len(t) == 2 + len(ps)
        why = ""
        if not ok:
            why = "does not return std::%s(...) of its %d parameters" % (name, len(ps))
        else:
            for p, a in zip(ps, t[2:]):
                pn = ("ref", p["name"])
                if is_xc(p):
                    good = (a[0] in ("construct", "cast") and a[-1] == pn and "complex<" in str(a[1] if a[0] == "construct" else a[2])) or a == pn
                    if not good:
                        ok = False
                        why = "argument for `%s` is `%s`, expected std::complex<value_type>(%s)" % (p["name"], ir.show(a), p["name"])
                else:
                    if strip_casts(a) != pn:
                        ok = False
                        why = "scalar argument `%s` is passed as `%s`" % (p["name"], ir.show(a))
        # the callee must be the std function: written qualified
        if ok and ("std::" + name) not in d.text(stmts[0]):
            ok = False
            why = "the callee is not written as std::%s" % name
        (rep.holds if ok else rep.violates)("C10.fwd", label, "forwards to std::" + name, where=d.where(fn),
                                            detail=ir.show(t)[:120] if ok else why + " (`%s`)" % ir.show(raw)[:140])
    rep.unit("%d forwarding wrappers" % n)


def part(t, names):
    """('call', ('mem', ('ref', X), 'real')) or member access -> (X, 'real'|'imag')"""
    t = strip_casts(t)
    if t[0] == "call" and len(t) == 2 and t[1][0] == "mem" and t[1][2] in ("real", "imag") and t[1][1][0] == "ref":
        return t[1][1][1], t[1][2]
    if t[0] == "mem" and t[2] in ("m_real", "m_imag"):
        who = t[1][1] if t[1][0] == "ref" else "this"
        return who, t[2][2:]
    return None


def rule_eq(rep, d):
    rep.rule("C10.eq", "== is (real == real) && (imag == imag) between the two operands, != is its negation, unary minus negates both "
                       "parts, unary plus returns its operand")
    for fn in ir.functions(d):
        name = fn.get("name")
        ps = ir.params(fn)
        if not ir.is_template_pattern(d, fn) or fn.get("kind") != "FunctionDecl" or not ps or not all(is_xc(p) for p in ps):
            continue
        where = d.where(fn)
        rets = [s for s in ir.walk_expr(ir.body(fn)) if s.get("kind") == "ReturnStmt"]
        if len(rets) != 1:
            continue
        t = strip_casts(ir.sx(ir.ekids(rets[0])[0]))
        if name == "operator==" and len(ps) == 2:
            conj = []

            def flat(x):
                if x[0] == "bin" and x[1] == "&&":
                    flat(x[2]); flat(x[3])
                else:
                    conj.append(x)
            flat(t)
            seen = set()
            bad = []
            for c in conj:
                pa, pb = (part(c[2], None), part(c[3], None)) if c[0] == "bin" and c[1] == "==" else (None, None)
                if not pa or not pb or pa[1] != pb[1] or {pa[0], pb[0]} != {ps[0]["name"], ps[1]["name"]}:
                    bad.append("`%s` is not an equality of the same part of both operands" % ir.show(c))
                else:
                    seen.add(pa[1])
            if seen != {"real", "imag"}:
                bad.append("parts compared: %s" % sorted(seen))
            (rep.holds if not bad else rep.violates)("C10.eq", "operator==", "both parts", where=where, detail="; ".join(bad) or ir.show(t))
        elif name == "operator!=" and len(ps) == 2:
            l, r = ("ref", ps[0]["name"]), ("ref", ps[1]["name"])
            ok = t in (("un", "!", ("bin", "==", l, r)), ("un", "!", ("bin", "==", r, l)))
            (rep.holds if ok else rep.violates)("C10.eq", "operator!=", "negation of ==", where=where, detail=ir.show(t))
        elif name == "operator-" and len(ps) == 1:
            p = ps[0]["name"]
            ok = t[0] == "construct" and len(t) == 4 and all(
                a[0] == "un" and a[1] == "-" and part(a[2], None) == (p, w) for a, w in zip(t[2:], ("real", "imag")))
            (rep.holds if ok else rep.violates)("C10.eq", "operator-(x)", "negates both parts", where=where,
                                                detail=ir.show(t) if ok else "expected (-x.real(), -x.imag()); found `%s`" % ir.show(t))
        elif name == "operator+" and len(ps) == 1:
            ok = t == ("ref", ps[0]["name"])
            (rep.holds if ok else rep.violates)("C10.eq", "operator+(x)", "identity", where=where, detail=ir.show(t))


def rule_opname(rep, d):
    rep.rule("C10.opname", "binary operator X(lhs, rhs): result constructed from lhs, `res X= rhs`, returned; compound assignment with a "
                           "scalar touches real only (+= -=) or both parts (*= /=); member (compound) assignments from another xcomplex treat "
                           "m_real/m_imag symmetrically (real<-real, imag<-imag); *= and /= assign mul/div(*this, rhs)")
    for fn in ir.functions(d):
        name = fn.get("name", "")
        if not ir.is_template_pattern(d, fn):
            continue
        ps = ir.params(fn)
        where = d.where(fn)
        if fn.get("kind") == "FunctionDecl" and name in ("operator+", "operator-", "operator*", "operator/") and len(ps) == 2 and any(is_xc(p) for p in ps):
            op = name[8:]
            label = "%s(%s)" % (name, ", ".join("xcomplex" if is_xc(p) else "scalar" for p in ps))
            stmts = ir.kids(ir.body(fn))
            shape = [s.get("kind") for s in stmts]
            ok = False
            got = "; ".join(d.text(s)[:40] for s in stmts)
            why = "expected `R res(lhs); res %s= rhs; return res;`" % op
            if shape == ["DeclStmt", stmts[1].get("kind"), "ReturnStmt"] and len(stmts) == 3:
                vd = [v for v in ir.kids(stmts[0]) if v.get("kind") == "VarDecl"]
                init = strip_casts(ir.sx(ir.ekids(vd[0])[-1])) if vd and ir.ekids(vd[0]) else None
                while init is not None and init[0] == "construct" and len(init) == 3:
                    init = init[2]
                mid = ir.sx(stmts[1])
                ret = strip_casts(ir.sx(ir.ekids(stmts[2])[0]))
                res = ("ref", vd[0]["name"]) if vd else None
                ok = init == ("ref", ps[0]["name"]) and mid == ("bin", op + "=", res, ("ref", ps[1]["name"])) and ret == res
                if not ok:
                    why += "; found init `%s`, step `%s`, return `%s`" % (ir.show(init) if init else "?", ir.show(mid), ir.show(ret))
            (rep.holds if ok else rep.violates)("C10.opname", label, "built from the left operand with %s=" % op, where=where, detail=got if ok else why)
            continue
        cls = ir.enclosing_class(d, fn)
        if cls is None or cls.get("name") != "xcomplex" or fn.get("kind") != "CXXMethodDecl":
            continue
        if not name.startswith("operator") or not name.endswith("=") or name in ("operator==", "operator!="):
            continue
        op = name[8:]
        arg_xc = bool(ps) and is_xc(ps[0])
        label = "xcomplex::%s(%s)" % (name, "xcomplex" + ("&&" if "&&" in ir.wtype(ps[0]) else "") if arg_xc else "scalar")
        stmts = [s for s in ir.kids(ir.body(fn)) if s.get("kind") != "ReturnStmt"]
        effects = [strip_casts(ir.sx(s)) for s in stmts]
        rname = ps[0]["name"] if ps else None

        def src(t):
            """source part of an assignment right-hand side: ('rhs','real') / ('rhs','imag') / 'scalar' / other"""
            t = strip_casts(t)
            while t[0] == "call" and t[1] in (("ref", "move"), ("ref", "forward")) and len(t) == 3:
                t = strip_casts(t[2])
            if t == ("ref", rname):
                return "scalar"
            if t[0] == "mem" and t[2] in ("m_real", "m_imag"):
                return (ir.show(t[1]), t[2][2:])
            if t[0] == "call" and len(t) == 2 and t[1][0] == "mem" and t[1][2] in ("real", "imag"):
                b = t[1][1]
                while b[0] == "call" and b[1] in (("ref", "move"), ("ref", "forward")):
                    b = b[2]
                return (ir.show(b), t[1][2])
            return ("other", ir.show(t))
        if arg_xc and op in ("=", "+=", "-="):
            want = {"m_real": "real", "m_imag": "imag"}
            got = {}
            bad = []
            for e in effects:
                if e[0] == "bin" and e[1] == op and e[2][0] == "mem" and e[2][2] in want:
                    s_ = src(e[3])
                    got[e[2][2]] = s_
                    if not (isinstance(s_, tuple) and s_[0] == rname and s_[1] == want[e[2][2]]):
                        bad.append("%s %s %s: must take the %s part of %s" % (e[2][2], op, ir.show(e[3]), want[e[2][2]], rname))
                else:
                    bad.append("unexpected statement `%s`" % ir.show(e))
            if set(got) != set(want):
                bad.append("parts assigned: %s" % sorted(got))
            (rep.holds if not bad else rep.violates)("C10.opname", label, "part-wise", where=where, detail="; ".join(bad) or "; ".join(ir.show(e) for e in effects))
        elif arg_xc and op in ("*=", "/="):
            fnname = "mul" if op == "*=" else "div"
            ok = len(effects) == 1 and effects[0][0] == "bin" and effects[0][1] == "=" and effects[0][2] == ("un", "*", ("this",))
            call = effects[0][3] if ok else None
            ok = ok and call[0] == "call" and ir.show(call[1]).endswith(fnname) and call[2:] == (("un", "*", ("this",)), ("ref", rname))
            ok = ok and "B || OB" in d.text(stmts[0]).replace("  ", " ")
            (rep.holds if ok else rep.violates)("C10.opname", label, "assigns %s(*this, rhs)" % fnname, where=where,
                                                detail=ir.show(effects[0]) if effects else "?")
        elif not arg_xc and op in ("+=", "-=", "*=", "/="):
            touched = {}
            bad = []
            for e in effects:
                if e[0] == "bin" and e[1] == op and e[2][0] == "mem" and e[2][2] in ("m_real", "m_imag") and src(e[3]) == "scalar":
                    touched[e[2][2]] = True
                else:
                    bad.append("unexpected statement `%s`" % ir.show(e))
            want = {"m_real"} if op in ("+=", "-=") else {"m_real", "m_imag"}
            if set(touched) != want:
                bad.append("%s with a real scalar must update %s, updates %s" % (op, sorted(want), sorted(touched)))
            (rep.holds if not bad else rep.violates)("C10.opname", label, "parts touched", where=where, detail="; ".join(bad) or "; ".join(ir.show(e) for e in effects))
        elif not arg_xc and op == "=":
            ok = len(effects) == 2 and effects[0][0] == "bin" and effects[0][2] == ("mem", ("this",), "m_real") and src(effects[0][3]) == "scalar" \
                and effects[1][0] == "bin" and effects[1][2] == ("mem", ("this",), "m_imag") and effects[1][3][0] in ("construct", "lit")
            (rep.holds if ok else rep.violates)("C10.opname", label, "real <- scalar, imag <- 0", where=where, detail="; ".join(ir.show(e) for e in effects))


# ---- polynomial identities -------------------------------------------------------------------------------------------------
class PolyEval:
    """evaluate straight-line value_type arithmetic to polynomials / quotients over the symbols a b c d"""
    def __init__(self, env):
        self.env = dict(env)

    def ev(self, t):
        t = strip_casts(t)
        k = t[0]
        if k == "ref":
            if t[1] in self.env:
                return self.env[t[1]]
            return ("sym", t[1])
        if k == "lit":
            try:
                return Poly.const(int(float(str(t[1]))))
            except ValueError:
                return ("sym", str(t[1]))
        if k == "bin" and t[1] in ("+", "-", "*", "/"):
            a, b = self.ev(t[2]), self.ev(t[3])
            if t[1] == "/":
                return ("div", a, b)
            if t[1] == "*" and isinstance(a, Poly) and isinstance(b, Poly) and (len(a) == 0 or len(b) == 0):
                # a literal zero factor (Annex G "finite / infinity = signed zero"): keep the other factor visible
                return ("*", ("sym", "zero"), b if len(a) == 0 else a)
            if isinstance(a, Poly) and isinstance(b, Poly):
                return a + b if t[1] == "+" else a - b if t[1] == "-" else a * b
            return (t[1], a, b)
        if k == "un" and t[1] == "-":
            a = self.ev(t[2])
            return -a if isinstance(a, Poly) else ("neg", a)
        if k == "call":
            return ("call", ir.show(t[1]).split("::")[-1]) + tuple(self.ev(x) for x in t[2:])
        if k == "construct":
            return ("construct",) + tuple(self.ev(x) for x in t[2:])
        return ("opaque", ir.show(t))


def P(*monos):
    r = Poly()
    for coef, syms in monos:
        r = r + Poly({tuple(sorted(syms)): coef})
    return r


RE_MUL = P((1, "ac"), (-1, "bd"))
IM_MUL = P((1, "ad"), (1, "bc"))
RE_DIVN = P((1, "ac"), (1, "bd"))
IM_DIVN = P((1, "bc"), (-1, "ad"))
DEN = P((1, "cc"), (1, "dd"))


def rule_poly(rep, d):
    rep.rule("C10.poly", "with a+bi = lhs, c+di = rhs: textbook mul returns (ac-bd, ad+bc); textbook div returns ((ac+bd)/(cc+dd), "
                         "(bc-ad)/(cc+dd)); the Annex G paths compute the same polynomials (first attempt, infinity recovery, scaled "
                         "quotient and its special cases)")
    found = 0
    for fn in ir.functions(d):
        name = fn.get("name")
        cls = ir.enclosing_class(d, fn)
        if name not in ("mul", "div") or cls is None or cls.get("name") != "xcomplex_multiplier":
            continue
        ieee = cls.get("kind") == "ClassTemplateSpecializationDecl"
        label = "xcomplex_multiplier<%s>::%s" % ("true" if ieee else "false", name)
        where = d.where(fn)
        found += 1
        ps = [p["name"] for p in ir.params(fn)]
        env = {}
        pe = PolyEval(env)
        roles = {}
        # a, b, c, d are the locals initialised from lhs.real(), lhs.imag(), rhs.real(), rhs.imag()
        for v in ir.walk_expr(ir.body(fn)):
            if v.get("kind") == "VarDecl" and ir.ekids(v):
                pt = part(ir.sx(ir.ekids(v)[-1]), None)
                if pt and pt[0] in ps:
                    sym = {(0, "real"): "a", (0, "imag"): "b", (1, "real"): "c", (1, "imag"): "d"}[(ps.index(pt[0]), pt[1])]
                    roles[v["name"]] = sym
                    pe.env[v["name"]] = Poly.sym(sym)
        if sorted(roles.values()) != ["a", "b", "c", "d"]:
            rep.inconclusive("C10.poly", label, "operand parts", where=where, detail="locals for the four parts not recognised: %s" % roles)
            continue
        # other value locals with arithmetic initialisers (ac, bd, x, y, e, denom ...)
        checks = []
        for s in ir.walk_expr(ir.body(fn)):
            if s.get("kind") == "VarDecl" and s["name"] not in roles and ir.ekids(s):
                val = pe.ev(ir.sx(ir.ekids(s)[-1]))
                pe.env[s["name"]] = val
                checks.append((s["name"], val, s))
            elif s.get("kind") == "BinaryOperator" and s.get("opcode") == "=":
                t = ir.sx(s)
                if t[2][0] == "ref" and t[2][1] in ("x", "y"):
                    # recomputation: evaluated with the parts as *fresh* symbols (boxed values keep their roles)
                    pe2 = PolyEval({n_: Poly.sym(r_) for n_, r_ in roles.items()})
                    for k_, v_ in pe.env.items():
                        if k_ not in roles and k_ in ("denom", "e"):
                            pe2.env[k_] = v_
                    checks.append((t[2][1] + " (recomputed)", pe2.ev(t[3]), s))
        rets = [s for s in ir.walk_expr(ir.body(fn)) if s.get("kind") == "ReturnStmt"]
        rt = pe.ev(ir.sx(ir.ekids(rets[-1])[0])) if rets else None

        def core(v):
            """strip inf*(...), 0*(...), scalbn(..., k) wrappers: the polynomial that decides the value"""
            while isinstance(v, tuple):
                if v[0] == "*" and (not isinstance(v[1], Poly) or not isinstance(v[2], Poly)):
                    v = v[2] if not isinstance(v[1], Poly) or v[1] == Poly() or len(v[1]) == 0 else v[1]
                    continue
                if v[0] == "call" and v[1] == "scalbn":
                    v = v[2]
                    continue
                break
            return v
        want_re = RE_MUL if name == "mul" else ("div", RE_DIVN, DEN)
        want_im = IM_MUL if name == "mul" else ("div", IM_DIVN, DEN)
        # final result
        parts = None
        if isinstance(rt, tuple) and rt[0] == "construct" and len(rt) == 3:
            parts = (rt[1], rt[2])
        if parts is None:
            rep.inconclusive("C10.poly", label, "result", where=where, detail="result construction not recognised")
            continue
        for which, val, want in (("real", parts[0], want_re), ("imag", parts[1], want_im)):
            c = core(val)
            ok = c == want
            (rep.holds if ok else rep.violates)("C10.poly", label, "%s part" % which, where=where,
                                                detail=pshow(c) if ok else "computes %s, complex %s needs %s" % (pshow(c), "multiplication" if name == "mul" else "division", pshow(want)))
        for nm, val, node in checks:
            if nm.startswith("x") or nm.startswith("y"):
                c = core(val)
                which = "real" if nm.startswith("x") else "imag"
                want = want_re if which == "real" else want_im
                # special-case branches multiply by +-inf or 0 and drop the division: numerator only is acceptable there
                alts = [want]
                if name == "div":
                    alts.append(want[1])
                if nm.endswith("(recomputed)") and name == "div":
                    alts += [Poly.sym("a"), Poly.sym("b")] if False else []
                if c in alts:
                    rep.holds("C10.poly", label, "%s = ..." % nm, where=d.where(node), detail=pshow(c))
                elif isinstance(c, Poly) and name == "div" and c in (Poly.sym("a"), Poly.sym("b")) and ((which == "real") == (c == Poly.sym("a"))):
                    rep.holds("C10.poly", label, "%s = ..." % nm, where=d.where(node), detail="division by zero: inf * %s" % pshow(c))
                else:
                    rep.violates("C10.poly", label, "%s = ..." % nm, where=d.where(node),
                                 detail="computes %s, the %s part needs %s" % (pshow(c), which, pshow(want)))
    if found < 4:
        rep.broke("expected mul and div in both xcomplex_multiplier variants, found %d" % found)


def pshow(v):
    if isinstance(v, Poly):
        return v.show()
    if isinstance(v, tuple):
        return "%s(%s)" % (v[0], ", ".join(pshow(x) for x in v[1:]))
    return str(v)


def rule_box(rep, d):
    rep.rule("C10.box", "Annex G idioms: `v = copysign(isinf(w) ? 1 : 0, u)` has v, w, u the same variable; `if (isnan(v)) v = "
                        "copysign(0, v)` one variable; the divisor scale is logb(fmax(fabs(c), fabs(d))) of the two divisor parts and every "
                        "scalbn uses +-ilogbw consistently")
    n_box = 0
    for fn in ir.functions(d):
        cls = ir.enclosing_class(d, fn)
        if fn.get("name") not in ("mul", "div") or cls is None or cls.get("name") != "xcomplex_multiplier" or cls.get("kind") != "ClassTemplateSpecializationDecl":
            continue
        label = "xcomplex_multiplier<true>::" + fn["name"]
        roles = {}
        ps = [p["name"] for p in ir.params(fn)]
        for v in ir.walk_expr(ir.body(fn)):
            if v.get("kind") == "VarDecl" and ir.ekids(v):
                pt = part(ir.sx(ir.ekids(v)[-1]), None)
                if pt and pt[0] in ps:
                    roles[v["name"]] = (ps.index(pt[0]), pt[1])
        for s in ir.walk_expr(ir.body(fn)):
            if s.get("kind") == "BinaryOperator" and s.get("opcode") == "=":
                t = strip_casts(ir.sx(s))
                lhs, rhs = t[2], t[3]
                if rhs[0] == "call" and ir.show(rhs[1]).endswith("copysign") and len(rhs) == 4 and lhs[0] == "ref":
                    n_box += 1
                    mag, sign = rhs[2], rhs[3]
                    v = lhs[1]
                    vars_ = {v}
                    if sign[0] == "ref":
                        vars_.add(sign[1])
                    else:
                        vars_.add("?" + ir.show(sign))
                    if mag[0] == "cond":
                        c = mag[1]
                        if c[0] == "call" and ir.show(c[1]).endswith("isinf") and c[2][0] == "ref":
                            vars_.add(c[2][1])
                        else:
                            vars_.add("?" + ir.show(c))
                    # a sign taken from another variable is legitimate only for the infinity results (x, y from c)
                    if lhs[1] in ("x", "y"):
                        continue
                    if len(vars_) == 1:
                        rep.holds("C10.box", label, "boxing of %s" % v, where=d.where(s), detail=ir.show(t)[:100])
                    else:
                        rep.violates("C10.box", label, "boxing of %s" % v, where=d.where(s),
                                     detail="`%s` boxes %s but classifies/takes the sign of %s: the component being boxed must be the one tested" % (
                                         d.text(s)[:90], v, sorted(vars_ - {v})))
            if s.get("kind") == "IfStmt":
                ks = ir.ekids(s)
                c = strip_casts(ir.sx(ks[0]))
                if c[0] == "call" and ir.show(c[1]).endswith("isnan") and c[2][0] == "ref":
                    inner = [x for x in ir.walk_expr(ks[1]) if x.get("kind") == "BinaryOperator" and x.get("opcode") == "="]
                    for a in inner:
                        ta = strip_casts(ir.sx(a))
                        if ta[3][0] == "call" and ir.show(ta[3][1]).endswith("copysign"):
                            n_box += 1
                            ok = ta[2] == c[2] and ta[3][3] == c[2]
                            (rep.holds if ok else rep.violates)("C10.box", label, "NaN -> signed zero of %s" % c[2][1], where=d.where(a),
                                                                detail=ir.show(ta)[:90] if ok else "tests isnan(%s) but rewrites `%s`" % (c[2][1], ir.show(ta)[:80]))
        if fn["name"] == "div":
            # scale
            cd = {n_ for n_, r_ in roles.items() if r_[0] == 1}
            for v in ir.walk_expr(ir.body(fn)):
                if v.get("kind") == "VarDecl" and v["name"] == "logbw" and ir.ekids(v):
                    t = strip_casts(ir.sx(ir.ekids(v)[-1]))
                    ok = False
                    if t[0] == "call" and ir.show(t[1]).endswith("logb") and len(t) == 3:
                        m = t[2]
                        if m[0] == "call" and ir.show(m[1]).endswith(("fmax", "max")) and len(m) == 4:
                            args = m[2:]
                            names = set()
                            good = True
                            for a in args:
                                if a[0] == "call" and ir.show(a[1]).endswith(("fabs", "abs")) and a[2][0] == "ref":
                                    names.add(a[2][1])
                                else:
                                    good = False
                            ok = good and names == cd
                    (rep.holds if ok else rep.violates)("C10.box", label, "divisor scale", where=d.where(v),
                                                        detail=ir.show(t) if ok else "the scale must be logb(fmax(fabs(c), fabs(d))) of the two divisor parts; found `%s`" % ir.show(t))
            exps = []
            for c in ir.walk_expr(ir.body(fn)):
                if c.get("kind") == "CallExpr":
                    t = strip_casts(ir.sx(c))
                    if ir.show(t[1]).endswith("scalbn") and len(t) == 4:
                        exps.append((ir.show(t[3]), c))
            okx = bool(exps) and all(e == "-ilogbw" for e, _ in exps) and len(exps) == 4
            (rep.holds if okx else rep.violates)("C10.box", label, "scalbn exponents", where=d.where(fn),
                                                 detail="4 x scalbn(., -ilogbw)" if okx else "expected scalbn(c|d|x|y, -ilogbw) four times; found %s" % [e for e, _ in exps])
    if n_box < 10:
        rep.broke("Annex G boxing idioms not found (%d)" % n_box)


def rule_kinds(rep, tier):
    rep.rule("C10.kinds", "for closure kinds {T, T&, const T&} on the right and writable kinds on the left, ieee in {false,true}: "
                          "= += -= *= /= and the binary operators compile")
    w = WitnessTU('#include "xtl/xcomplex.hpp"\n#include <complex>\nnamespace w { using namespace xtl;\n')
    k = 0
    kinds = [("double", "double"), ("double&", "double&"), ("const double&", "const double&")]
    for ieee in ("false", "true"):
        for (lr, li), (rr, ri) in itertools.product(kinds[:2], kinds):
            L = "xcomplex<%s, %s, %s>" % (lr, li, ieee)
            Rt = "xcomplex<%s, %s, %s>" % (rr, ri, ieee)
            for op in ("=", "+=", "-=", "*=", "/="):
                if op == "=" and L == Rt and "&" in lr:
                    continue        # same-type assignment of reference closures is the (deleted) copy assignment: not in the property
                k += 1
                w.must_compile("inline void f%d(%s& l, const %s& r) { l %s r; }" % (k, L, Rt, op), "C10.kinds", "xcomplex::operator" + op, "compiles",
                               "%s %s %s" % (L, op, Rt))
            for op in ("+", "-", "*", "/"):
                k += 1
                w.must_compile("inline auto g%d(const %s& l, const %s& r) { return l %s r; }" % (k, L, Rt, op), "C10.kinds", "operator" + op, "compiles",
                               "%s %s %s" % (L, op, Rt))
            k += 1
            w.must_compile("inline void h%d(%s& l) { l += 2.; l -= 2.; l *= 2.; l /= 2.; l = 3.; }" % (k, L), "C10.kinds", "scalar compound ops", "compiles", L)
        k += 1
        w.must_compile("inline auto s%d(const xcomplex<double, double, %s>& l, const std::complex<double>& c) { xcomplex<double, double, %s> x(c); std::complex<double> y = l; return x + l; }"
                       % (k, ieee, ieee), "C10.kinds", "std::complex conversion", "compiles", "ieee=" + ieee)
    w.raw("}")
    for comp, std in ([("clang++", "gnu++17"), ("g++", "gnu++14")] if tier == "quick" else [("clang++", "gnu++14"), ("clang++", "gnu++17"), ("clang++", "gnu++20"), ("g++", "gnu++14"), ("g++", "gnu++17")]):
        w.run(rep, std=std, compiler=comp)


def run(tier):
    rep = Report("C10", tier, "other",
                 "Structural clauses only: forwarding agreement of 27 wrappers, shape of ==/!=/unary ops, operator-name agreement of the "
                 "binary and compound operators and (real, imag) symmetry of the member assignments, polynomial identity of the textbook "
                 "and Annex G mul/div formulas in (a,b,c,d), Annex G boxing idioms and scale consistency, closure-kind compile witnesses. "
                 "Every numeric clause (rounding, special-value results, scaling accuracy) is NOT decided.",
                 trusted_base=["clang 14 pattern AST", "polynomial evaluator (sa/rules/c12.Poly, c10.PolyEval)", "clang++/g++ for the witnesses"],
                 assumptions=["std::complex and <cmath> functions behave as specified"])
    d = cj.dump(DRIVER, "xtl::")
    rep.cmd(d.cmd)
    rule_fwd(rep, d)
    rule_eq(rep, d)
    rule_opname(rep, d)
    rule_poly(rep, d)
    rule_box(rep, d)
    rule_kinds(rep, tier)
    return rep
