"""C12 — iterator bases and adaptors obey the random-access / bidirectional laws.

C12.cmp    derived comparison operators of both bases under the three orderings (primitives == and < as atoms)
C12.arith  derived arithmetic (it++, it--, it+n, n+it, it-n, it[n], size_t extension) by symbolic positions
C12.prims  every class built on a base provides the primitives the base derives from
C12.step   primitives of each concrete iterator are affine in the position with the right sign/scale, act on all parallel
           sub-iterators alike, and ==, <, - compare/subtract the same fields in the same orientation
A full traversal visiting exactly the container's elements needs the container's begin/end and is not decided here.
"""
import re
from .. import clangjson as cj
from .. import ir
from .. import trange
from ..report import Report

DRIVER = ('#include "xtl/xiterator_base.hpp"\n#include "xtl/xdynamic_bitset.hpp"\n#include "xtl/xoptional_sequence.hpp"\n'
          '#include "xtl/xcomplex_sequence.hpp"\n')


# ---- polynomials over symbols ----------------------------------------------------------------------------------------
class Poly(dict):
    @staticmethod
    def sym(s):
        return Poly({(s,): 1})

    @staticmethod
    def const(c):
        return Poly({(): c}) if c else Poly()

    def __add__(self, o):
        r = Poly(self)
        for k, v in o.items():
            r[k] = r.get(k, 0) + v
        return Poly({k: v for k, v in r.items() if v != 0})

    def __neg__(self):
        return Poly({k: -v for k, v in self.items()})

    def __sub__(self, o):
        return self + (-o)

    def __mul__(self, o):
        r = Poly()
        for k1, v1 in self.items():
            for k2, v2 in o.items():
                k = tuple(sorted(k1 + k2))
                r[k] = r.get(k, 0) + v1 * v2
        return Poly({k: v for k, v in r.items() if v != 0})

    def show(self):
        if not self:
            return "0"
        parts = []
        for k in sorted(self):
            v = self[k]
            m = "*".join(k)
            if not k:
                parts.append(str(v))
            elif v == 1:
                parts.append(m)
            elif v == -1:
                parts.append("-" + m)
            else:
                parts.append("%d*%s" % (v, m))
        return " + ".join(parts).replace("+ -", "- ")


class Giveup(Exception):
    pass


class _NoReturn(Exception):
    """the path ends in a call that does not return (abort(), a failed assertion)"""


class PosInterp:
    """Symbolic execution of small iterator functions.  Objects are dicts field -> value; values are Poly, ('div', a, b),
    ('obj', dict), ('deref', v), ('bool', formula) ..."""

    def __init__(self, d):
        self.d = d
        self.paths = []
        self.formulas = []
        self.cond_stack = []

    def run(self, fn, env):
        self.paths = []
        self.formulas = []
        self.cond_stack = []
        self._stmts(ir.kids(ir.body(fn)), dict(env), [])
        return self.paths

    # each path: (env at exit, return value, conditions)
    def _stmts(self, ss, env, conds):
        for i, s in enumerate(ss):
            k = s.get("kind")
            if k == "ReturnStmt":
                ks = ir.ekids(s)
                v = self.ev(ks[0], env) if ks else None
                self.paths.append((env, v, list(conds)))
                self.formulas.append(list(self.cond_stack))
                return True
            if k == "IfStmt":
                ks = ir.ekids(s)
                c = ir.show(ir.sx(ks[0]))
                try:
                    cf = self.ev(ks[0], env)
                except Giveup:
                    cf = None
                decided = cf[1] if isinstance(cf, tuple) and cf and cf[0] == "boolc" else None
                rest = ([ks[2]] if len(ks) > 2 else []) + ss[i + 1:]
                if decided is True:
                    return self._stmts([ks[1]] + ss[i + 1:], env, conds)
                if decided is False:
                    return self._stmts(rest, env, conds)
                e1 = self._clone(env)
                self.cond_stack.append(cf)
                done1 = self._stmts([ks[1]] + ss[i + 1:], e1, conds + [c])
                self.cond_stack.pop()
                e2 = self._clone(env)
                self.cond_stack.append(("not", cf) if cf is not None else None)
                self._stmts(rest, e2, conds + ["!(%s)" % c])
                self.cond_stack.pop()
                return True
            if k == "CompoundStmt":
                if self._stmts(ir.kids(s) + ss[i + 1:], env, conds):
                    return True
                return False
            if k == "DeclStmt":
                for v in ir.kids(s):
                    if v.get("kind") == "VarDecl":
                        init = ir.ekids(v)
                        is_ref = ir.wtype(v).rstrip().endswith("&") or ir.qtype(v).rstrip().endswith("&")
                        src = init[-1] if init else None
                        if is_ref and src is not None and src.get("kind") in ("ParenListExpr", "InitListExpr") and len(ir.ekids(src)) == 1:
                            src = ir.ekids(src)[0]       # `T& r(x)`: binds to x itself
                        val = self.ev(src, env) if src is not None else Poly()
                        if isinstance(val, tuple) and val[0] == "obj" and not is_ref:
                            val = ("obj", dict(val[1]))      # copy construction (a reference variable aliases the object instead)
                        env[v["id"]] = val
                continue
            if k in ("NullStmt",):
                continue
            try:
                self.ev(s, env)
            except _NoReturn:
                return True          # this path never returns: it contributes no result
        self.paths.append((env, None, list(conds)))
        self.formulas.append(list(self.cond_stack))
        return True

    def merged(self):
        """one boolean formula for a bool-returning function: OR over the paths of (its conditions AND its result)"""
        out = None
        for (env, v, _), fs_ in zip(self.paths, self.formulas):
            if v is None:
                return None
            f = v
            for c in reversed(fs_):
                if c is None:
                    return None
                f = ("&&", c, f)
            out = f if out is None else ("||", out, f)
        return out

    def _clone(self, env):
        out = {}
        for k, v in env.items():
            out[k] = ("obj", dict(v[1])) if isinstance(v, tuple) and v[0] == "obj" else v
        # aliases (this / reference params) must stay shared: callers put objects under a single key
        return out

    def lval(self, n, env):
        """-> (container dict, key) for an assignable place"""
        n = ir.strip(n)
        k = n.get("kind")
        if k in ("CXXStaticCastExpr", "CStyleCastExpr", "CXXFunctionalCastExpr"):
            return self.lval(ir.ekids(n)[-1], env)
        if k == "DeclRefExpr":
            rid = n["referencedDecl"]["id"]
            if rid in env:
                return env, rid
            raise Giveup("unknown variable " + str(n["referencedDecl"].get("name")))
        if k in ("MemberExpr", "CXXDependentScopeMemberExpr"):
            ks = ir.ekids(n)
            base = self.ev(ks[0], env) if ks else env.get("this")
            if base == ("thisptr",):
                base = env.get("this")
            name = n.get("name") or n.get("member")
            if isinstance(base, tuple) and base[0] == "obj":
                return base[1], name
            raise Giveup("member of non-object")
        if k == "UnaryOperator" and n.get("opcode") == "*":
            v = self.ev(ir.ekids(n)[0], env)
            if isinstance(v, tuple) and v[0] == "ptr":
                return v[1], v[2]
        raise Giveup("not an lvalue: " + str(k))

    def put(self, place, new):
        """store `new` at a place; an object is updated in place so that reference variables bound to it observe the change"""
        cur = place[0].get(place[1])
        if isinstance(cur, tuple) and cur[0] == "obj" and isinstance(new, tuple) and new[0] == "obj" and cur is not new:
            nv = dict(new[1])
            cur[1].clear()
            cur[1].update(nv)
            return cur
        place[0][place[1]] = new
        return new

    def get(self, place):
        c, k = place
        if k not in c:
            raise Giveup("field %s" % k)
        return c[k]

    def ev(self, n, env):
        k = n.get("kind")
        ks = ir.ekids(n)
        if k in ir.WRAPPERS or k in ("ImplicitCastExpr", "CXXStaticCastExpr", "CStyleCastExpr", "CXXFunctionalCastExpr", "CXXConstCastExpr"):
            if not ks:
                return Poly()
            return self.ev(ks[-1], env)
        if k == "IntegerLiteral":
            return Poly.const(int(n["value"]))
        if k == "CXXBoolLiteralExpr":
            return ("boolc", bool(n.get("value")))
        if k == "StringLiteral":
            return ("boolc", True)          # a literal's address used as a truth value (assert(!"message"))
        if k == "CXXThisExpr":
            return ("thisptr",)
        if k == "DeclRefExpr":
            rid = n["referencedDecl"]["id"]
            if rid in env:
                return env[rid]
            return Poly.sym(n["referencedDecl"].get("name", "?"))
        if k in ("MemberExpr", "CXXDependentScopeMemberExpr"):
            base = self.ev(ks[0], env) if ks else env.get("this")
            name = n.get("name") or n.get("member")
            if base == ("thisptr",):
                base = env.get("this")
            if isinstance(base, tuple) and base[0] == "obj":
                if name in base[1]:
                    return base[1][name]
                return ("method", base, name)
            return ("member", base, name)
        if k == "UnresolvedMemberExpr":
            return ("method", env.get("this"), n.get("member"))
        if k == "UnaryOperator":
            op = n.get("opcode")
            if op in ("++", "--"):
                place = self.lval(ks[0], env)
                old = self.get(place)
                new = self.add(old, Poly.const(1 if op == "++" else -1))
                if isinstance(old, tuple) and old[0] == "obj" and isinstance(new, tuple) and new[0] == "obj":
                    # mutate in place so that references bound to the object see the change
                    snap = ("obj", dict(old[1]))
                    old[1].clear()
                    old[1].update(new[1])
                    return snap if n.get("isPostfix") else old
                new = self.put(place, new)
                return old if n.get("isPostfix") else new
            if op == "*":
                v = self.ev(ks[0], env)
                if v == ("thisptr",):
                    return env["this"]
                return ("deref", v)
            if op == "-":
                v = self.ev(ks[0], env)
                if isinstance(v, Poly):
                    return -v
                raise Giveup("negation of non-number")
            if op == "&":
                return ("addr", self.ev(ks[0], env))
            if op == "!":
                return ("not", self.ev(ks[0], env))
            raise Giveup("unary " + str(op))
        if k in ("BinaryOperator", "CompoundAssignOperator"):
            return self.binop(n.get("opcode"), ks[0], ks[1], env)
        if k == "CXXOperatorCallExpr":
            callee = ir.sx(ks[0])
            name = callee[1] if callee[0] == "ref" else callee[2]
            op = name[len("operator"):]
            if len(ks) == 3:
                return self.binop(op, ks[1], ks[2], env)
            if len(ks) == 2:
                if op in ("++", "--"):
                    place = self.lval(ks[1], env)
                    old = self.get(place)
                    new = self.add(old, Poly.const(1 if op == "++" else -1))
                    new = self.put(place, new)
                    return new
                if op == "*":
                    v = self.ev(ks[1], env)
                    if v == ("thisptr",):
                        return env["this"]
                    return ("deref", v)
                if op == "-":
                    v = self.ev(ks[1], env)
                    if isinstance(v, Poly):
                        return -v
                if op == "!":
                    return ("not", self.ev(ks[1], env))
            raise Giveup("operator call " + op)
        if k in ("CallExpr", "CXXMemberCallExpr"):
            t = ir.sx(ks[0])
            name = t[1] if t[0] == "ref" else (t[2] if t[0] == "mem" else "?")
            if name == "advance" and len(ks) == 3:
                place = self.lval(ks[1], env)
                self.put(place, self.add(self.get(place), self.ev(ks[2], env)))
                return None
            if name == "distance" and len(ks) == 3:
                a, b = self.ev(ks[1], env), self.ev(ks[2], env)
                return self.add(b, self.neg(a))
            if name in ("move", "forward", "addressof") and len(ks) == 2:
                return self.ev(ks[1], env)
            if name in ("abort", "terminate", "__assert_fail", "_Exit", "quick_exit", "exit"):
                raise _NoReturn()
            h = getattr(self, "methods", {}).get(name)
            if h is not None and name not in getattr(self, "no_inline", ()) and getattr(self, "depth", 0) < 3 and ir.body(h) is not None and len(ir.params(h)) == len(ks) - 1:
                # a helper member of the iterator (position(), to_index(p), seek(p), shift<forward>(n)): executed in place on the same object
                callee_node = ir.strip(ks[0])
                target = env.get("this")
                if callee_node.get("kind") in ("MemberExpr", "CXXDependentScopeMemberExpr") and ir.ekids(callee_node):
                    b_ = self.ev(ir.ekids(callee_node)[0], env)
                    if b_ == ("thisptr",):
                        b_ = env.get("this")
                    if isinstance(b_, tuple) and b_[0] == "obj":
                        target = b_
                env2 = {"this": target}
                for p_, a_ in zip(ir.params(h), ks[1:]):
                    env2[p_["id"]] = self.ev(a_, env)
                # explicit non-type template arguments (shift<true>(n)) bind the helper's template parameters
                par = self.d.parent_of(h)
                tps = [c for c in ir.kids(par) if c.get("kind") == "NonTypeTemplateParmDecl"] if par is not None and par.get("kind") == "FunctionTemplateDecl" else []
                m_ = re.search(r"%s\s*<([^<>()]*)>" % re.escape(str(name)), self.d.text(ks[0]) + self.d.text(n))
                if tps and m_:
                    for tp, a_ in zip(tps, [x.strip() for x in m_.group(1).split(",")]):
                        if a_ in ("true", "false"):
                            env2[tp["id"]] = ("boolc", a_ == "true")
                        elif re.fullmatch(r"-?\d+", a_):
                            env2[tp["id"]] = Poly.const(int(a_))
                sub = PosInterp(self.d)
                sub.depth = getattr(self, "depth", 0) + 1
                sub.methods = getattr(self, "methods", {})
                paths = sub.run(h, env2)
                if len(paths) == 1:
                    return paths[0][1]
                raise Giveup("helper %s has %d paths" % (name, len(paths)))
            # a library helper with a body (detail::iterator_advanced_copy(it, n)): executed in place, by value / by reference as declared
            base_nm = str(name).split("::")[-1].split("<")[0]
            if getattr(self, "depth", 0) < 3 and base_nm not in ("advance", "distance", "swap") and k == "CallExpr":
                cands = [f for f in ir.functions(self.d, base_nm) if ir.body(f) is not None and "/xtl/" in (self.d.where(f) or "") and len(ir.params(f)) == len(ks) - 1
                         and ir.enclosing_class(self.d, f) is None]
                if cands:
                    h = cands[0]
                    env2 = {"this": env.get("this")}
                    for p_, a_ in zip(ir.params(h), ks[1:]):
                        v_ = self.ev(a_, env)
                        is_ref = "&" in ir.qtype(p_)
                        if isinstance(v_, tuple) and v_[0] == "obj" and not is_ref:
                            v_ = ("obj", dict(v_[1]))
                        env2[p_["id"]] = v_
                    sub = PosInterp(self.d)
                    sub.depth = getattr(self, "depth", 0) + 1
                    sub.methods = getattr(self, "methods", {})
                    paths = sub.run(h, env2)
                    if len(paths) == 1:
                        return paths[0][1]
                    raise Giveup("helper %s has %d paths" % (base_nm, len(paths)))
            if k == "CXXMemberCallExpr":
                # a member function that is not followed, called on a sub-object of the iterator: it may move it, so nothing can be said
                cn_ = ir.strip(ks[0])
                if cn_.get("kind") in ("MemberExpr", "CXXDependentScopeMemberExpr") and ir.ekids(cn_):
                    try:
                        b_ = self.ev(ir.ekids(cn_)[0], env)
                    except Giveup:
                        b_ = None
                    if isinstance(b_, tuple) and b_ and b_[0] == "obj" and b_ is not env.get("this") and not re.search(r"\)\s*const", ir.qtype(cn_) or ""):
                        raise Giveup("member function %s of a sub-object is not followed" % name)
            args = [self.ev(a, env) for a in ks[1:]]
            return ("call", name) + tuple(args)
        if k in ("CXXConstructExpr", "CXXUnresolvedConstructExpr", "CXXTemporaryObjectExpr", "InitListExpr", "ParenListExpr"):
            args = [self.ev(a, env) for a in ks]
            if len(args) == 1:
                return args[0]
            return ("construct",) + tuple(args)
        if k == "ArraySubscriptExpr":
            return ("index", self.ev(ks[0], env), self.ev(ks[1], env))
        if k == "ConditionalOperator":
            a = self.ev(ks[1], env)
            b = self.ev(ks[2], env)
            if a == b:
                return a
            try:
                c = self.ev(ks[0], self._clone(env))
            except Giveup:
                c = ir.show(ir.sx(ks[0]))
            return ("ite", c, a, b)
        raise Giveup("expression " + str(k))

    def neg(self, v):
        if isinstance(v, Poly):
            return -v
        raise Giveup("negation")

    def add(self, a, b):
        if isinstance(a, Poly) and isinstance(b, Poly):
            return a + b
        if isinstance(a, tuple) and a[0] == "obj" and isinstance(b, Poly):
            return ("obj", {f: (self.add(v, b) if f in a[1].get("__pos__", a[1].keys()) and isinstance(v, Poly) else v) for f, v in a[1].items()})
        raise Giveup("addition of %s and %s" % (type(a).__name__, type(b).__name__))

    def binop(self, op, l, r, env):
        if op in ("+=", "-=") and getattr(self, "ops", None) and getattr(self, "depth", 0) < 3:
            # `*this += n` inside a member: the class's own operator+= / operator-= is executed on the same object
            lv = ir.strip(l)
            while lv.get("kind") in ("ParenExpr", "ImplicitCastExpr") and ir.ekids(lv):
                lv = ir.strip(ir.ekids(lv)[0])
            h = self.ops.get("operator" + op)
            if lv.get("kind") == "UnaryOperator" and lv.get("opcode") == "*" and ir.strip(ir.ekids(lv)[0]).get("kind") == "CXXThisExpr" and h is not None and ir.body(h) is not None \
                    and h is not getattr(self, "current_fn", None):
                env2 = {"this": env.get("this"), ir.params(h)[0]["id"]: self.ev(r, env)}
                sub = PosInterp(self.d)
                sub.depth = getattr(self, "depth", 0) + 1
                sub.methods = getattr(self, "methods", {})
                sub.ops = self.ops
                sub.current_fn = h
                paths = sub.run(h, env2)
                if len(paths) == 1:
                    return paths[0][1]
                raise Giveup("operator%s has %d paths" % (op, len(paths)))
        if op in ("+=", "-=", "="):
            place = self.lval(l, env)
            rv = self.ev(r, env)
            if op == "=":
                self.put(place, rv)
                return rv
            cur = self.get(place)
            if isinstance(cur, tuple) and cur[0] == "obj":
                # derived-level += on an opaque iterator object with a single position
                new = ("obj", dict(cur[1]))
                new[1]["pos"] = self.add(cur[1]["pos"], rv if op == "+=" else self.neg(rv))
                cur[1]["pos"] = new[1]["pos"]
                return cur
            new = self.add(cur, rv if op == "+=" else self.neg(rv))
            new = self.put(place, new)
            return new
        a = self.ev(l, env)
        b = self.ev(r, env)
        if op in ("+", "-"):
            if isinstance(a, Poly) and isinstance(b, Poly):
                return a + b if op == "+" else a - b
            if isinstance(a, tuple) and a[0] == "obj" and "pos" in a[1] and isinstance(b, Poly):
                o = dict(a[1])
                o["pos"] = a[1]["pos"] + b if op == "+" else a[1]["pos"] - b
                return ("obj", o)
            if isinstance(b, tuple) and b[0] == "obj" and "pos" in b[1] and isinstance(a, Poly) and op == "+":
                o = dict(b[1])
                o["pos"] = b[1]["pos"] + a
                return ("obj", o)
            raise Giveup("arithmetic %s" % op)
        if op == "*":
            if isinstance(a, Poly) and isinstance(b, Poly):
                return a * b
            raise Giveup("product")
        if op == "/":
            return ("div", a, b)
        if op in ("==", "!=", "<", ">", "<=", ">="):
            return ("cmp", op, a, b)
        if op in ("&&", "||"):
            return (op, a, b)
        raise Giveup("binary " + str(op))


def vshow(v):
    if isinstance(v, Poly):
        return v.show()
    if isinstance(v, tuple):
        if v[0] == "obj":
            return "{%s}" % ", ".join("%s=%s" % (k, vshow(x)) for k, x in sorted(v[1].items()) if k != "__pos__")
        return "%s(%s)" % (v[0], ", ".join(vshow(x) for x in v[1:]))
    return str(v)


# ---- C12.cmp -------------------------------------------------------------------------------------------------------------
def truth(v, ordering, pos=None):
    """evaluate a comparison formula over the atoms (lhs == rhs), (lhs < rhs), (rhs < lhs) under an ordering"""
    if isinstance(v, tuple):
        if v[0] == "boolc":
            return v[1]
        if v[0] == "not":
            t = truth(v[1], ordering, pos)
            return None if t is None else (not t)
        if v[0] == "ite":
            c = truth(v[1], ordering, pos) if isinstance(v[1], tuple) else None
            return None if c is None else truth(v[2] if c else v[3], ordering, pos)
        if v[0] in ("&&", "||"):
            a = truth(v[1], ordering, pos)
            if a is not None and a == (v[0] == "||"):
                return a            # short circuit
            b = truth(v[2], ordering, pos)
            if a is None or b is None:
                return None
            return (a and b) if v[0] == "&&" else (a or b)
        if v[0] == "cmp" and v[1] in ("==", "!=") and all(isinstance(x, tuple) and x and x[0] in ("cmp", "not", "&&", "||", "boolc", "ite") for x in (v[2], v[3])):
            a, b = truth(v[2], ordering, pos), truth(v[3], ordering, pos)
            return None if a is None or b is None else ((a == b) == (v[1] == "=="))
        if v[0] == "cmp":
            op, a, b = v[1], v[2], v[3]
            # field-wise comparison T.f <op> R.f (either orientation): every position field moves in lockstep, so the model decides it
            fa = list(a)[0][0] if isinstance(a, Poly) and len(a) == 1 and list(a.values()) == [1] else None
            fb = list(b)[0][0] if isinstance(b, Poly) and len(b) == 1 and list(b.values()) == [1] else None
            if isinstance(fa, str) and isinstance(fb, str) and fa[:2] in ("T.", "R.") and fb[:2] in ("T.", "R.") and fa[2:] == fb[2:] and fa[:2] != fb[:2]:
                rel = {"lt": -1, "eq": 0, "gt": 1}[ordering]
                if pos is not None and fa[2:] not in pos:
                    rel = 0             # container pointer / step: the same for two iterators over one sequence
                x, y = (rel, 0) if fa[:2] == "T." else (0, rel)
                return {"==": x == y, "!=": x != y, "<": x < y, ">": x > y, "<=": x <= y, ">=": x >= y}[op]
            pa = a[1]["pos"] if isinstance(a, tuple) and a[0] == "obj" and "pos" in a[1] else None
            pb = b[1]["pos"] if isinstance(b, tuple) and b[0] == "obj" and "pos" in b[1] else None
            if pa is None or pb is None:
                return None
            sa = list(pa)[0][0] if len(pa) == 1 else None
            sb = list(pb)[0][0] if len(pb) == 1 else None
            if {sa, sb} != {"L", "R"}:
                return None
            # value of L relative to R
            rel = {"lt": -1, "eq": 0, "gt": 1}[ordering]
            x, y = (rel, 0) if sa == "L" else (0, rel)
            return {"==": x == y, "!=": x != y, "<": x < y, ">": x > y, "<=": x <= y, ">=": x >= y}[op]
    return None


def base_friends(d, cls):
    """friend function definitions inside a class pattern"""
    for c in ir.kids(cls):
        if c.get("kind") == "FriendDecl":
            for f in ir.kids(c):
                if f.get("kind") == "FunctionDecl" and ir.has_body(f):
                    yield f
        if c.get("kind") == "CXXMethodDecl" and ir.has_body(c):
            yield c


def rule_derived(rep, d):
    rep.rule("C12.cmp", "derived comparisons equal their definition under each ordering: != is !(==); a<=b, a>=b, a>b are !(b<a), !(a<b), b<a")
    rep.rule("C12.arith", "derived arithmetic: it++/it-- return the old position and move the argument by one; it+n, n+it, it-n return a "
                          "copy moved by +n/-n and leave the argument alone; it[n] is *(it+n); the size_t extension agrees")
    bases = {}
    for n in d.walk():
        if n.get("kind") == "CXXRecordDecl" and n.get("name") in ("xbidirectional_iterator_base", "xrandom_access_iterator_base", "xrandom_access_iterator_ext") \
                and any(c.get("kind") in ("FriendDecl", "CXXMethodDecl") for c in ir.kids(n)) and (d.parent_of(n) or {}).get("kind") == "ClassTemplateDecl":
            bases[n["name"]] = n
    need = {"xbidirectional_iterator_base", "xrandom_access_iterator_base", "xrandom_access_iterator_ext"}
    if set(bases) != need:
        raise cj.AnalysisBroken("iterator base class templates not found: %s" % sorted(need - set(bases)))
    spec_cmp = {"operator!=": "!=", "operator<=": "<=", "operator>=": ">=", "operator>": ">"}
    for bname, cls in sorted(bases.items()):
        for fn in base_friends(d, cls):
            name = fn.get("name")
            ps = ir.params(fn)
            label = "%s::%s(%s)" % (bname, name, ", ".join(ir.wtype(p).replace("xtl::" + bname + "::", "") for p in ps))
            where = d.where(fn)
            it = PosInterp(d)
            try:
                if name in spec_cmp:
                    env = {ps[0]["id"]: ("obj", {"pos": Poly.sym("L")}), ps[1]["id"]: ("obj", {"pos": Poly.sym("R")})}
                    paths = it.run(fn, env)
                    mf = it.merged()
                    for ordering in ("lt", "eq", "gt"):
                        got = [truth(mf, ordering)] if mf is not None else [None]
                        want = {"!=": ordering != "eq", "<=": ordering != "gt", ">=": ordering != "lt", ">": ordering == "gt"}[spec_cmp[name]]
                        scen = {"lt": "lhs before rhs", "eq": "same position", "gt": "lhs after rhs"}[ordering]
                        if len(got) != 1 or got[0] is None:
                            rep.inconclusive("C12.cmp", label, "truth table", where=where, scenario=scen, detail="cannot evaluate `%s`" % vshow(paths[0][1]) if paths else "no path")
                        elif got[0] == want:
                            rep.holds("C12.cmp", label, "truth table", where=where, scenario=scen)
                        else:
                            rep.violates("C12.cmp", label, "truth table", where=where, scenario=scen,
                                         detail="returns %s, must be %s (body: `%s`)" % (got[0], want, vshow(paths[0][1])))
                    continue
                # arithmetic
                if name in ("operator++", "operator--") and len(ps) == 2:
                    arg = ("obj", {"pos": Poly.sym("P")})
                    env = {ps[0]["id"]: arg}
                    paths = it.run(fn, env)
                    delta = 1 if name == "operator++" else -1
                    ok = len(paths) == 1 and isinstance(paths[0][1], tuple) and paths[0][1][0] == "obj" and paths[0][1][1]["pos"] == Poly.sym("P") \
                        and paths[0][0][ps[0]["id"]][1]["pos"] == Poly.sym("P") + Poly.const(delta)
                    (rep.holds if ok else rep.violates)("C12.arith", label, "post-%s" % ("increment" if delta > 0 else "decrement"), where=where,
                                                        detail="returns %s, argument becomes %s%s" % (vshow(paths[0][1]) if paths else "?", vshow(paths[0][0][ps[0]["id"]]) if paths else "?",
                                                                                                 "" if ok else " - must return the old position P and leave the argument at P%+d" % delta))
                    continue
                if name in ("operator+", "operator-") and len(ps) == 2:
                    it_i = 0 if "derived_type" in ir.wtype(ps[0]) else 1
                    n_i = 1 - it_i
                    arg = ("obj", {"pos": Poly.sym("P")})
                    env = {ps[it_i]["id"]: arg, ps[n_i]["id"]: Poly.sym("n")}
                    paths = it.run(fn, env)
                    want = Poly.sym("P") + Poly.sym("n") if name == "operator+" else Poly.sym("P") - Poly.sym("n")
                    r = paths[0][1] if len(paths) == 1 else None
                    ok = isinstance(r, tuple) and r[0] == "obj" and r[1]["pos"] == want and arg[1]["pos"] == Poly.sym("P")
                    (rep.holds if ok else rep.violates)("C12.arith", label, "offset copy", where=where,
                                                        detail="returns %s, argument %s%s" % (vshow(r), vshow(arg), "" if ok else " - must return a copy at %s and leave the argument at P" % want.show()))
                    continue
                if name == "operator[]":
                    this = ("obj", {"pos": Poly.sym("P")})
                    env = {"this": this, ps[0]["id"]: Poly.sym("n")}
                    paths = it.run(fn, env)
                    r = paths[0][1] if len(paths) == 1 else None
                    ok = isinstance(r, tuple) and r[0] == "deref" and isinstance(r[1], tuple) and r[1][0] == "obj" and r[1][1]["pos"] == Poly.sym("P") + Poly.sym("n") \
                        and this[1]["pos"] == Poly.sym("P")
                    (rep.holds if ok else rep.violates)("C12.arith", label, "subscript", where=where,
                                                        detail="returns %s%s" % (vshow(r), "" if ok else " - must be *(it + n)"))
                    continue
            except Giveup as e:
                rep.inconclusive("C12.arith" if name not in spec_cmp else "C12.cmp", label, "body", where=where, detail=str(e))


# ---- C12.prims / C12.step ------------------------------------------------------------------------------------------------
RANDOM_PRIMS = ["operator++", "operator--", "operator+=", "operator-=", "operator-", "operator*", "operator==", "operator<"]
BIDIR_PRIMS = ["operator++", "operator--", "operator*", "operator=="]


def iterator_classes(d):
    out = []
    for n in d.walk():
        if n.get("kind") != "CXXRecordDecl" or not ir.in_repo(n):
            continue
        par = d.parent_of(n)
        if par is None or par.get("kind") != "ClassTemplateDecl":
            continue
        bases = [b.get("type", {}).get("qualType", "") for b in n.get("bases", [])]
        kind = None
        for b in bases:
            if "xrandom_access_iterator_base" in b:
                kind = "random"
            elif "xbidirectional_iterator_base" in b and kind is None:
                kind = "bidir"
        if kind and n.get("name") not in ("xrandom_access_iterator_base",):
            out.append((n, kind))
    return out


def rule_prims(rep, d, classes):
    rep.rule("C12.prims", "every class built on xrandom_access_iterator_base provides ++ -- += -= - * == <, every class built on "
                          "xbidirectional_iterator_base provides ++ -- * == (as members or namespace-scope operators)")
    free_ops = {}
    for n in d.walk():
        if n.get("kind") == "FunctionDecl" and n.get("name", "").startswith("operator") and ir.params(n):
            t = ir.wtype(ir.params(n)[0])
            m = re.search(r"\b(x\w+_iterator)\b", t)
            if m:
                free_ops.setdefault(m.group(1), set()).add(n["name"])
    for cls, kind in classes:
        name = cls["name"]
        members = set()
        for c in ir.kids(cls):
            if c.get("kind") == "CXXMethodDecl":
                # operator-(self) vs unary: keep name; arity checked below for '-'
                if c["name"] == "operator-" and len(ir.params(c)) != 1:
                    continue
                if c["name"] == "operator*" and len(ir.params(c)) != 0:
                    continue
                members.add(c["name"])
        have = members | free_ops.get(name, set())
        for p in (RANDOM_PRIMS if kind == "random" else BIDIR_PRIMS):
            if p in have:
                rep.holds("C12.prims", name, p, where=d.where(cls), nontrivial=False)
            else:
                rep.violates("C12.prims", name, p, where=d.where(cls),
                             detail="%s derives from the %s base, whose derived operators need `%s`, but the class does not provide it" % (
                                 name, "random-access" if kind == "random" else "bidirectional", p))


def method_defs(d, clsname):
    """name -> definition (in-class or out-of-line) of the pattern"""
    out = {}
    for fn in ir.functions(d):
        c = ir.enclosing_class(d, fn)
        if c is not None and c.get("name") == clsname and ir.is_template_pattern(d, fn) and fn.get("kind") == "CXXMethodDecl":
            key = fn["name"]
            if key == "operator-" and len(ir.params(fn)) != 1:
                continue
            out.setdefault(key, fn)
    return out


def rule_step(rep, d, classes):
    rep.rule("C12.step", "primitives are affine in the position: ++/--/+= n/-= n move every position field by +1/-1/+n/-n (times the "
                         "step for xstepping_iterator) on every path and touch nothing else; a - b subtracts b's position from a's (divided "
                         "by the step); == compares every field pairwise; < compares positions pairwise in the same orientation")
    for cls, kind in classes:
        cname = cls["name"]
        fields = [c["name"] for c in ir.kids(cls) if c.get("kind") == "FieldDecl"]
        if not fields:
            rep.inconclusive("C12.step", cname, "fields", where=d.where(cls), detail="no data members found")
            continue
        # a data member that is itself a small record of the library holding the sub-iterators (`detail::xlockstep_iterators<IT1, IT2> m_its`):
        # its own fields are the positions, its methods are followed like the iterator's own helpers
        composite = {}
        for c in ir.kids(cls):
            if c.get("kind") != "FieldDecl":
                continue
            tn = re.sub(r"<.*", "", ir.wtype(c) or ir.qtype(c)).split("::")[-1].strip()
            recs = [r for r in d.walk() if r.get("kind") == "CXXRecordDecl" and r.get("name") == tn and ir.in_repo(r) and
                    any(x.get("kind") == "FieldDecl" for x in ir.kids(r))] if tn and tn[0].isalpha() and tn not in ("IT", "ITV", "ITB", "It") else []
            if recs:
                composite[c["name"]] = (recs[0], [x["name"] for x in ir.kids(recs[0]) if x.get("kind") == "FieldDecl"])
        flat = []
        for f in fields:
            flat += ["%s.%s" % (f, g) for g in composite[f][1]] if f in composite else [f]
        top_fields = fields
        fields = flat
        scale = [f for f in fields if f == "m_step"]
        other = [f for f in fields if f.startswith("p_")]
        pos = [f for f in fields if f not in scale and f not in other]
        defs = method_defs(d, cname)
        sub_defs = {}
        for f, (rec, _) in composite.items():
            for k_, v_ in method_defs(d, rec["name"]).items():
                if k_ not in defs and not k_.startswith("operator"):
                    sub_defs[k_] = v_

        def getf(o, f):
            for part in f.split("."):
                o = o[part] if isinstance(o, dict) else o[1][part]
            return o
        # free-function forms delegate to members (equal / less_than) for xstepping_iterator
        alias = {"operator==": "equal", "operator<": "less_than"}

        def make(prefix):
            o = {}
            for f in top_fields:
                if f in composite:
                    sub = {g: Poly.sym("%s%s.%s" % (prefix, f, g)) for g in composite[f][1]}
                    sub["__pos__"] = {g for g in composite[f][1] if "%s.%s" % (f, g) in pos}
                    o[f] = ("obj", sub)
                else:
                    o[f] = Poly.sym(prefix + f)
            o["__pos__"] = set(f for f in pos if "." not in f)
            return ("obj", o)
        unit = (lambda f: Poly.sym("T.m_step")) if scale else (lambda f: Poly.const(1))
        for name in (RANDOM_PRIMS if kind == "random" else BIDIR_PRIMS):
            fn = defs.get(name) or defs.get(alias.get(name, ""))
            if fn is None:
                continue        # reported by C12.prims
            label = "%s::%s" % (cname, fn["name"])
            where = d.where(fn)
            this = make("T.")
            ps = ir.params(fn)
            env = {"this": this}
            rhs = None
            if name in ("operator+=", "operator-="):
                env[ps[0]["id"]] = Poly.sym("n")
            elif name in ("operator-", "operator==", "operator<"):
                rhs = make("R.")
                env[ps[0]["id"]] = rhs
            it = PosInterp(d)
            it.methods = {k_: v_ for k_, v_ in defs.items() if not k_.startswith("operator") and k_ not in ("equal", "less_than")}
            it.methods.update(sub_defs)
            it.ops = defs
            it.current_fn = fn
            try:
                paths = it.run(fn, env)
            except Giveup as e:
                rep.inconclusive("C12.step", label, "body", where=where, detail=str(e))
                continue
            if name in ("operator==", "operator<"):
                # decided on the function as a whole (all paths merged into one formula), in the three lockstep models
                mf = it.merged()
                problems = []
                seen_fields = set()

                def walk(v):
                    if isinstance(v, tuple) and v and v[0] in ("&&", "||"):
                        walk(v[1]); walk(v[2])
                    elif isinstance(v, tuple) and v and v[0] == "not":
                        walk(v[1])
                    elif isinstance(v, tuple) and v and v[0] == "ite":
                        for x_ in v[1:]:
                            walk(x_)
                    elif isinstance(v, tuple) and v and v[0] == "cmp" and all(isinstance(x_, tuple) and x_ and x_[0] in ("cmp", "not", "&&", "||", "boolc", "ite") for x_ in (v[2], v[3])):
                        walk(v[2]); walk(v[3])          # a comparison of two truth values
                    elif isinstance(v, tuple) and v and v[0] == "cmp":
                        op, l, r = v[1], v[2], v[3]
                        lf = list(l)[0][0] if isinstance(l, Poly) and len(l) == 1 else None
                        rf = list(r)[0][0] if isinstance(r, Poly) and len(r) == 1 else None
                        if not isinstance(lf, str) or not isinstance(rf, str) or {lf[:2], rf[:2]} != {"T.", "R."} or lf[2:] != rf[2:]:
                            problems.append("`%s %s %s` does not compare a field of *this with the same field of rhs" % (vshow(l), op, vshow(r)))
                        else:
                            seen_fields.add(lf[2:])
                            if lf[2:] not in pos and op not in ("==", "!="):
                                problems.append("field %s is not a position but is compared with `%s`" % (lf[2:], op))
                    elif isinstance(v, tuple) and v and v[0] == "boolc":
                        pass
                    else:
                        problems.append("non-comparison term %s" % vshow(v))
                if mf is None:
                    rep.inconclusive("C12.step", label, "comparison", where=where, detail="a path does not return a boolean formula")
                    continue
                walk(mf)
                if not problems:
                    for ordering, scen_ in (("lt", "*this before rhs"), ("eq", "same position"), ("gt", "*this after rhs")):
                        got = truth(mf, ordering, set(pos))
                        want = (ordering == "eq") if name == "operator==" else (ordering == "lt")
                        if got is None:
                            problems.append("not evaluable with %s" % scen_)
                        elif got != want:
                            problems.append("with %s it yields %s, expected %s" % (scen_, got, want))
                if name == "operator<" and not (set(pos) & seen_fields):
                    problems.append("no position field is compared")
                if name == "operator==" and set(fields) - seen_fields:
                    problems.append("fields not compared: %s" % sorted(set(fields) - seen_fields))
                if problems:
                    rep.violates("C12.step", label, "comparison", where=where, detail="; ".join(problems))
                else:
                    rep.holds("C12.step", label, "comparison", where=where, detail=vshow(mf)[:160])
                continue
            for env_out, ret, conds in paths:
                scen = " && ".join(conds) if conds else "straight line"
                th = env_out["this"][1]
                if name in ("operator++", "operator--", "operator+=", "operator-="):
                    sign = 1 if name in ("operator++", "operator+=") else -1
                    amount = (Poly.sym("n") if name in ("operator+=", "operator-=") else Poly.const(1))
                    bad = []
                    for f in fields:
                        want = Poly.sym("T." + f) + (amount * unit(f) * Poly.const(sign) if f in pos else Poly())
                        if getf(th, f) != want:
                            bad.append("%s becomes %s, expected %s" % (f, vshow(getf(th, f)), want.show()))
                    if not (isinstance(ret, tuple) and ret[0] == "obj" and ret[1] is th):
                        bad.append("does not return *this")
                    if bad:
                        rep.violates("C12.step", label, "position update", where=where, scenario=scen, detail="; ".join(bad))
                    else:
                        rep.holds("C12.step", label, "position update", where=where, scenario=scen,
                                  detail=", ".join("%s -> %s" % (f, vshow(getf(th, f))) for f in pos))
                elif name == "operator-":
                    cands = []
                    for f in pos:
                        diff = Poly.sym("T." + f) - Poly.sym("R." + f)
                        cands.append(diff if not scale else ("div", diff, Poly.sym("T.m_step")))
                    r = ret
                    if r in cands:
                        rep.holds("C12.step", label, "difference", where=where, scenario=scen, detail=vshow(r))
                    else:
                        rep.violates("C12.step", label, "difference", where=where, scenario=scen,
                                     detail="returns %s, expected %s" % (vshow(r), " or ".join(vshow(c) for c in cands)))
                elif name in ("operator==", "operator<"):
                    atoms = []

                    def collect(v):
                        if isinstance(v, tuple) and v[0] == "&&":
                            collect(v[1]); collect(v[2])
                        else:
                            atoms.append(v)
                    collect(ret)
                    problems = []
                    seen_fields = set()
                    for a in atoms:
                        if not (isinstance(a, tuple) and a[0] == "cmp"):
                            problems.append("non-comparison term %s" % vshow(a))
                            continue
                        op, l, r = a[1], a[2], a[3]
                        lf = list(l)[0][0] if isinstance(l, Poly) and len(l) == 1 else None
                        rf = list(r)[0][0] if isinstance(r, Poly) and len(r) == 1 else None
                        if not lf or not rf or not lf.startswith("T.") or not rf.startswith("R.") or lf[2:] != rf[2:]:
                            problems.append("`%s %s %s` does not compare a field of *this with the same field of rhs in that order" % (vshow(l), op, vshow(r)))
                            continue
                        f = lf[2:]
                        want_op = "==" if (name == "operator==" or f not in pos) else "<"
                        if op != want_op:
                            problems.append("field %s compared with `%s`, expected `%s`" % (f, op, want_op))
                        seen_fields.add(f)
                    need = set(fields) if name == "operator==" else set(pos[:1])
                    if name == "operator<" and not (set(pos) & seen_fields):
                        problems.append("no position field is compared")
                    if name == "operator==" and need - seen_fields:
                        problems.append("fields not compared: %s" % sorted(need - seen_fields))
                    if problems:
                        rep.violates("C12.step", label, "comparison", where=where, scenario=scen, detail="; ".join(problems))
                    else:
                        rep.holds("C12.step", label, "comparison", where=where, scenario=scen, detail=vshow(ret))
                elif name == "operator*":
                    # must read at the current positions: every position field appears, none of them shifted
                    txt = vshow(ret)
                    missing = [f for f in pos if ("T." + f) not in txt]
                    shifted = re.findall(r"T\.\w+ [+-] ", txt)
                    if missing or shifted:
                        rep.violates("C12.step", label, "dereference", where=where, scenario=scen,
                                     detail="`%s`: %s" % (txt, ("does not use " + ", ".join(missing)) if missing else "reads at a shifted position"))
                    else:
                        rep.holds("C12.step", label, "dereference", where=where, scenario=scen, detail=txt)


def rule_ranges(rep, d):
    """begin/end/cbegin/cend/rbegin/rend/crbegin/crend of xdynamic_bitset_base: each (const and non-const) must designate, through whatever
    delegation, iterator(0) / iterator(size()) and for the reverse forms reverse(end) / reverse(begin)"""
    rep.rule("C12.range", "xdynamic_bitset_base: begin/cbegin designate position 0, end/cend position size(), rbegin/crbegin are reverse_iterator(end), "
                          "rend/crend reverse_iterator(begin) - for the const and the non-const overloads, delegation followed")
    from .. import norm
    fns = {}
    for f in ir.functions(d):
        cls = ir.enclosing_class(d, f)
        if cls is None or cls.get("name") != "xdynamic_bitset_base" or not ir.is_template_pattern(d, f):
            continue
        if f.get("name") in ("begin", "end", "cbegin", "cend", "rbegin", "rend", "crbegin", "crend") and not ir.params(f):
            fns.setdefault(f.get("name"), []).append(f)

    def decast(t):
        # casts only: a one-argument construction (reverse_iterator(x)) is NOT transparent here
        if not isinstance(t, tuple):
            return t
        while t[0] == "cast":
            t = t[3]
        return tuple(decast(x) if isinstance(x, tuple) else x for x in t)

    def ret(f):
        r = [x for x in ir.walk_expr(ir.body(f)) if x.get("kind") == "ReturnStmt" and ir.ekids(x)]
        return decast(ir.sx(ir.ekids(r[0])[0])) if len(r) == 1 else None

    def val(t, depth=0):
        if t is None or depth > 5:
            return ("?",)
        if t[0] == "cond":
            a_, b_ = val(t[2], depth + 1), val(t[3], depth + 1)
            if a_ == b_:
                return a_
            return ("either", a_, b_)
        if t[0] == "construct" and len(t) == 2:
            return ("detached",)           # iterator(): bound to no container
        if t[0] == "construct" or (t[0] == "call" and t[1][0] == "ref" and "iterator" in str(t[1][1])):
            args = [x for x in t[2:]]
            tname = str(t[1]) if t[0] == "construct" else str(t[1][1])
            if len(args) == 1:
                inner = val(args[0], depth + 1)
                return ("rev", inner) if "reverse" in tname else inner
            if len(args) == 2 and decast(args[0]) == ("un", "*", ("this",)):
                p_ = norm.deep_uncast(args[1])
                if norm.int_of(p_) == 0:
                    return ("it", 0)
                if p_[0] == "call" and len(p_) == 2 and p_[1] in (("ref", "size"), ("mem", ("this",), "size")):
                    return ("it", "size")
                return ("it", ir.show(p_))
        if t[0] == "bin" and t[1] in ("+", "-") and norm.int_of(norm.deep_uncast(t[3])) is not None:
            # a position moved by a constant: `cend() - 1`
            base = val(t[2], depth + 1)
            k_ = norm.int_of(norm.deep_uncast(t[3]))
            if k_ == 0:
                return base
            if base[0] == "it":
                return ("it", "%s %s %d" % (base[1], t[1], k_))
            return ("?", ir.show(t)[:50])
        if t[0] == "call" and len(t) == 2:
            nm = t[1][1] if t[1][0] == "ref" else (t[1][2] if t[1][0] == "mem" and t[1][1] == ("this",) else None)
            if nm in fns:
                # the overload a const / non-const caller reaches designates the same position: follow the first with a body
                return val(ret(fns[nm][-1]), depth + 1)
        return ("?", ir.show(t)[:50])
    want = {"begin": ("it", 0), "cbegin": ("it", 0), "end": ("it", "size"), "cend": ("it", "size"),
            "rbegin": ("rev", ("it", "size")), "crbegin": ("rev", ("it", "size")), "rend": ("rev", ("it", 0)), "crend": ("rev", ("it", 0))}
    n = 0
    for nm, fl in sorted(fns.items()):
        for f in fl:
            n += 1
            const = ") const" in ir.qtype(f)
            got = val(ret(f))
            label = "xdynamic_bitset_base::%s()%s" % (nm, " const" if const else "")
            def has_detached(v_):
                return isinstance(v_, tuple) and (v_ == ("detached",) or any(has_detached(x_) for x_ in v_[1:]))
            if got == want[nm]:
                rep.holds("C12.range", label, "designated position", where=d.where(f), detail=str(got))
            elif has_detached(got):
                rep.violates("C12.range", label, "designated position", where=d.where(f),
                             detail="on some path the result is a default-constructed iterator, bound to no container (%s): it compares unequal to the iterators of its "
                                    "siblings at the same position" % (got,))
            elif got[0] == "either":
                rep.inconclusive("C12.range", label, "designated position", where=d.where(f), detail="the position depends on a condition: %s" % (got,))
            elif got[0] == "?" or (got[0] == "rev" and got[1][0] == "?"):
                rep.inconclusive("C12.range", label, "designated position", where=d.where(f), detail="not a (reverse) iterator at a recognisable position: %s" % (got,))
            else:
                rep.violates("C12.range", label, "designated position", where=d.where(f),
                             detail="designates %s, expected %s: the traversal starts or stops one element off" % (got, want[nm]))
    if n < 8:
        rep.broke("C12.range: only %d of the range accessors of xdynamic_bitset_base were found" % n)


SIGN_DRIVER = '''#include "xtl/xiterator_base.hpp"
#include "xtl/xdynamic_bitset.hpp"
#include <cstdint>
namespace wxtl
{
    inline void use_signs(const int* p, xtl::xdynamic_bitset<std::uint64_t>& bs)
    {
        xtl::xstepping_iterator<const int*> a(p, 2), b(p + 4, 2);
        (void)(a - b); a += 1; a -= 1; ++a; --a; (void)(a == b); (void)(a < b); (void)*a; (void)(a + 1); (void)(a - 1);
        auto i = bs.begin(); auto j = bs.end();
        (void)(j - i); i += 1; i -= 1; ++i; --i; (void)(i == j); (void)(i < j); (void)*i; (void)(i + 1); (void)(i - 1);
        auto ci = bs.cbegin(); auto cj = bs.cend();
        (void)(cj - ci); ci += 1; ci -= 1; (void)(ci < cj);
    }
}
'''


def rule_sign(rep):
    """distances between iterators are signed: where a member of an iterator divides, takes a remainder of, shifts right or orders such a quantity,
    no operand may have been converted from a signed to an unsigned type on the way (a negative distance would become a huge one).  Additions and
    subtractions are left alone: they are the same modulo 2^64."""
    R = "C12.sign"
    rep.rule(R, "in the instantiated iterator members no operand of / % >> < <= > >= is an implicit conversion of a signed quantity to an unsigned type "
                "(a - b for a before b must stay negative)")
    d = cj.dump(SIGN_DRIVER, "xtl::")
    rep.cmd(d.cmd)
    n = 0
    for f in ir.functions(d):
        cls = ir.enclosing_class(d, f)
        if cls is None or cls.get("name") not in ("xstepping_iterator", "xbitset_iterator") or ir.is_template_pattern(d, f) or ir.body(f) is None:
            continue
        n += 1
        bad = None
        for x in ir.walk_expr(ir.body(f)):
            if x.get("kind") not in ("BinaryOperator", "CompoundAssignOperator") or x.get("opcode") not in ("/", "%", ">>", "<", "<=", ">", ">=", "/=", "%=", ">>="):
                continue
            for side in ir.ekids(x):
                c = side
                while c.get("kind") in ("ParenExpr",) and ir.ekids(c):
                    c = ir.ekids(c)[0]
                if c.get("kind") == "ImplicitCastExpr" and c.get("castKind") == "IntegralCast" and ir.ekids(c):
                    src, dst = trange.type_range(ir.qtype(ir.ekids(c)[0])), trange.type_range(ir.qtype(c))
                    lit = ir.strip(ir.ekids(c)[0]).get("kind") == "IntegerLiteral"
                    if src is not None and dst is not None and src[0] < 0 and dst[0] == 0 and not lit:
                        bad = bad or (x, "`%s`: the operand `%s` (%s) is converted to %s before `%s` is applied: a negative value becomes a huge positive one" % (
                            d.text(x)[:60], d.text(ir.ekids(c)[0])[:30], ir.qtype(ir.ekids(c)[0]), ir.qtype(c), x.get("opcode")))
        lab = "%s<%s>::%s" % (cls.get("name"), " ".join(ir.template_args(cls))[:30], f.get("name"))
        if bad:
            rep.violates(R, lab, "signed quantities stay signed", where=d.where(bad[0]), detail=bad[1])
        else:
            rep.holds(R, lab, "signed quantities stay signed", where=d.where(f), nontrivial=any(x.get("kind") in ("BinaryOperator", "CompoundAssignOperator") and
                                                                                              x.get("opcode") in ("/", "%", ">>", "<", "<=", ">", ">=") for x in ir.walk_expr(ir.body(f))))
    if n < 12:
        raise cj.AnalysisBroken("C12.sign: only %d instantiated iterator members found" % n)


def rule_lockstep(rep):
    """The iterators of the optional containers pair a value iterator with a flag iterator; begin()/end(), end() - k and the reverse
    iterators only designate the same element in both halves while the two storages have the same length.  The lockstep rule of the
    container property (C11.pair: every operation on the value storage is mirrored on the flag storage with the same size/index) is
    therefore a necessary condition of this one and is decided again under this property's id."""
    from . import c11
    from ..report import Renamed
    rep.rule("C12.pair", "the value and the flag half of a paired iterator range have the same length: every member of the optional containers that resizes, "
                         "assigns, inserts into or erases from the value storage does the same to the flag storage with the same size/index arguments")
    d = cj.dump(c11.DRIVER, "xtl::")
    rep.cmd(d.cmd)
    c11.rule_pairing(Renamed(rep, {"C11.pair": "C12.pair"}, {"C12.pair": rep.rules["C12.pair"]}), d)


def run(tier):
    rep = Report("C12", tier, "other",
                 "Symbolic-position evaluation of the derived operators of both iterator bases (all orderings / all paths) and of the "
                 "primitives of every concrete iterator built on them, plus exhaustiveness of the primitives.  Decides mutual "
                 "consistency of the operators; that begin()/end() of each container delimit exactly its elements is not decided here.",
                 trusted_base=["clang 14 AST of the template patterns", "PosInterp in sa/rules/c12.py (positions as polynomials)"],
                 assumptions=["sub-iterators and indices are themselves lawful (std iterators, integers)", "xstepping_iterator is used with a positive step"])
    d = cj.dump(DRIVER, "xtl::")
    rep.cmd(d.cmd)
    rule_derived(rep, d)
    classes = iterator_classes(d)
    names = sorted(c["name"] for c, _ in classes)
    need = ["xbitset_iterator", "xcomplex_iterator", "xkey_iterator", "xoptional_iterator", "xstepping_iterator"]
    if any(n not in names for n in need):
        raise cj.AnalysisBroken("iterator classes not found: %s (found %s)" % ([n for n in need if n not in names], names))
    rule_prims(rep, d, classes)
    rule_step(rep, d, classes)
    rule_ranges(rep, d)
    rule_sign(rep)
    rule_lockstep(rep)
    rep.unit("3 base templates; concrete iterators: %s" % ", ".join("%s(%s)" % (c["name"], k) for c, k in classes))
    return rep
