"""C14.const as a dataflow summary: instead of comparing statement sequences, the value of the hash variable is computed as an expression
tree over (seed, length, the loaded block, the tail bytes) for each region of a kernel - initial value, one block-loop iteration, the code
after the loop for every remainder / tail guard outcome - with constants folded, commutative operands ordered, locals and library helpers
followed.  Two kernels that compute the same thing in different statement orders, loop forms or helper decompositions give the same trees;
a different constant, shift, operand or mix order does not.  Addresses are ignored here (C14.cursor decides them)."""
from .. import ir
from .. import trange
from .. import flow
from .. import norm

MASK = {4: 0xFFFFFFFF, 8: 0xFFFFFFFFFFFFFFFF}
COMM = ("*", "^", "+", "&", "|")


class Giveup(Exception):
    pass


def mk(op, a, b, width=8):
    if a[0] == "c" and b[0] == "c":
        x, y = a[1], b[1]
        try:
            v = {"*": x * y, "^": x ^ y, "+": x + y, "-": x - y, "&": x & y, "|": x | y, "<<": x << y, ">>": x >> y}[op]
            return ("c", v & MASK[8])
        except (KeyError, ValueError):
            pass
    if op in COMM and repr(b) < repr(a):
        a, b = b, a
    return ("op", op, a, b)


class TreeEval:
    def __init__(self, d, fn, env=None):
        self.d = d
        self.fn = fn
        self.env = dict(env or {})
        self.depth = 0
        self.ret = None

    def sym(self, name):
        return self.env.get(name, ("v", name))

    def size_of(self, n):
        at = n.get("argType") or {}
        q = (at.get("desugaredQualType") or at.get("qualType") or "").replace("const ", "")
        if not q and ir.ekids(n):
            q = ir.qtype(ir.ekids(n)[0]).replace("const ", "")
        return {"unsigned int": 4, "uint32_t": 4, "int": 4, "unsigned long": 8, "std::size_t": 8, "size_t": 8, "uint64_t": 8, "long": 8, "unsigned char": 1, "char": 1}.get(q)

    def ev(self, n):
        k = n.get("kind")
        ks = ir.ekids(n)
        if k in ir.WRAPPERS or k in ("ImplicitCastExpr", "CXXStaticCastExpr", "CXXFunctionalCastExpr", "CStyleCastExpr", "CXXReinterpretCastExpr", "ConstantExpr", "CXXConstCastExpr"):
            if not ks:
                raise Giveup("empty %s" % k)
            return self.ev(ks[-1])
        if k == "IntegerLiteral":
            return ("c", int(n.get("value")))
        if k == "CharacterLiteral":
            return ("c", int(n.get("value")))
        if k == "CXXBoolLiteralExpr":
            return ("c", 1 if n.get("value") else 0)
        if k == "DeclRefExpr":
            rd = n.get("referencedDecl") or {}
            nm = rd.get("name")
            if nm in self.env:
                return self.env[nm]
            dec = self.d.by_id.get(rd.get("id"))
            if dec is not None and dec.get("kind") == "VarDecl" and ir.ekids(dec) and (dec.get("constexpr") or ir.qtype(dec).startswith("const ")) and "*" not in ir.qtype(dec):
                sub = TreeEval(self.d, self.fn, {})
                try:
                    v = sub.ev(ir.ekids(dec)[-1])
                    if v[0] == "c":
                        return v
                except Giveup:
                    pass
            return ("v", nm)
        if k == "UnaryExprOrTypeTraitExpr":
            s_ = self.size_of(n)
            if s_ is None:
                raise Giveup("sizeof")
            return ("c", s_)
        if k == "BinaryOperator":
            op = n.get("opcode")
            if op in ("*", "^", "+", "-", "&", "|", "<<", ">>"):
                return mk(op, self.ev(ks[0]), self.ev(ks[1]))
            if op == ",":
                self.ev(ks[0])
                return self.ev(ks[1])
            if op in ("<", ">", "<=", ">=", "==", "!=", "&&", "||"):
                return ("cmp", op, self.ev(ks[0]), self.ev(ks[1]))
            if op == "=":
                return self.assign(ks[0], self.ev(ks[1]))
            raise Giveup("operator %s" % op)
        if k == "CompoundAssignOperator":
            op = n.get("opcode")[:-1]
            cur = self.ev(ks[0])
            return self.assign(ks[0], mk(op, cur, self.ev(ks[1])))
        if k == "UnaryOperator":
            op = n.get("opcode")
            if op in ("++", "--"):
                cur = self.ev(ks[0])
                new = mk("+" if op == "++" else "-", cur, ("c", 1))
                self.assign(ks[0], new)
                return cur if n.get("isPostfix") else new
            if op == "~":
                v = self.ev(ks[0])
                return ("c", (~v[1]) & MASK[8]) if v[0] == "c" else ("un", "~", v)
            if op == "-":
                v = self.ev(ks[0])
                return ("c", -v[1]) if v[0] == "c" else ("un", "-", v)
            if op == "*":
                v = self.ev(ks[0])
                return ("byte", self.ptr_off(v))
            if op == "&":
                return ("addr", self.ev(ks[0]))
            if op == "!":
                return ("un", "!", self.ev(ks[0]))
            raise Giveup("unary %s" % op)
        if k == "ArraySubscriptExpr":
            base = self.ev(ks[0])
            idx = self.ev(ks[1])
            return ("byte", self.idx_off(base, idx))
        if k == "ConditionalOperator":
            return ("ite", self.ev(ks[0]), self.ev(ks[1]), self.ev(ks[2]))
        if k in ("CallExpr",):
            return self.call(n)
        if k in ("CXXConstructExpr", "InitListExpr") and len(ks) == 1:
            return self.ev(ks[0])
        raise Giveup("expression kind %s" % k)

    def ptr_off(self, v):
        # offset of a pointer value relative to the symbol it is built from: only the constant part matters here
        if v[0] == "op" and v[1] in ("+",):
            for a, b in ((v[2], v[3]), (v[3], v[2])):
                if b[0] == "c":
                    return b[1]
        return 0 if v[0] == "v" else "?"

    def idx_off(self, base, idx):
        return idx[1] if idx[0] == "c" else ("var",)

    def assign(self, lhs, val):
        l = ir.strip(lhs)
        while l.get("kind") in ("ImplicitCastExpr", "ParenExpr") and ir.ekids(l):
            l = ir.strip(ir.ekids(l)[0])
        if l.get("kind") == "DeclRefExpr":
            self.env[(l.get("referencedDecl") or {}).get("name")] = val
            return val
        raise Giveup("assignment to %s" % l.get("kind"))

    def call(self, n):
        ks = ir.ekids(n)
        c = ir.strip(ks[0])
        nm = (c.get("referencedDecl") or {}).get("name") if c.get("kind") == "DeclRefExpr" else None
        if nm in ("memcpy", "memmove") and len(ks) == 4:
            dst = ir.strip(ks[1])
            while dst.get("kind") in ("ImplicitCastExpr", "CStyleCastExpr", "CXXReinterpretCastExpr", "CXXStaticCastExpr", "ParenExpr") and ir.ekids(dst):
                dst = ir.strip(ir.ekids(dst)[-1])
            if dst.get("kind") == "UnaryOperator" and dst.get("opcode") == "&":
                t = ir.strip(ir.ekids(dst)[0])
                if t.get("kind") == "DeclRefExpr":
                    sz = self.ev(ks[3])
                    self.env[(t.get("referencedDecl") or {}).get("name")] = ("load", sz[1] if sz[0] == "c" else "?")
                    return ("c", 0)
            raise Giveup("memcpy into something that is not a local")
        if nm == "load_bytes":
            return ("call", "load_bytes")
        tgt = self.d.by_id.get((c.get("referencedDecl") or {}).get("id")) if c.get("kind") == "DeclRefExpr" else None
        if tgt is not None and ir.body(tgt) is not None and "/xtl/" in (self.d.where(tgt) or "") and self.depth < 4:
            sub = TreeEval(self.d, tgt, {p.get("name"): self.ev(a) for p, a in zip(ir.params(tgt), ks[1:])})
            sub.depth = self.depth + 1
            sub.run(ir.kids(ir.body(tgt)))
            if sub.ret is None:
                return ("c", 0)
            return sub.ret
        raise Giveup("call of %s" % nm)

    def run(self, stmts):
        for s in stmts:
            self.stmt(s)
            if self.ret is not None:
                return

    def stmt(self, s):
        k = s.get("kind")
        if k == "CompoundStmt":
            self.run(ir.kids(s))
        elif k == "DeclStmt":
            for v in ir.kids(s):
                if v.get("kind") == "VarDecl":
                    self.env[v.get("name")] = self.ev(ir.ekids(v)[-1]) if ir.ekids(v) else ("undef",)
        elif k == "ReturnStmt":
            self.ret = self.ev(ir.ekids(s)[0]) if ir.ekids(s) else ("void",)
        elif k in ("NullStmt", "BreakStmt"):
            pass
        elif k in ("IfStmt", "ForStmt", "WhileStmt", "DoStmt", "SwitchStmt"):
            raise Giveup("control flow (%s) inside a straight-line region" % k)
        else:
            self.ev(s)


def subst(t, m):
    if not isinstance(t, tuple):
        return t
    if t[0] == "v" and t[1] in m:
        return m[t[1]]
    if t[0] == "op":
        return mk(t[1], subst(t[2], m), subst(t[3], m))
    return tuple(subst(x, m) if isinstance(x, tuple) else x for x in t)


def contains(t, pred):
    if not isinstance(t, tuple):
        return False
    if pred(t):
        return True
    return any(contains(x, pred) for x in t if isinstance(x, tuple))


def show(t):
    if not isinstance(t, tuple):
        return str(t)
    if t[0] == "c":
        return hex(t[1]) if t[1] > 255 else str(t[1])
    if t[0] == "v":
        return t[1]
    if t[0] == "op":
        return "(%s %s %s)" % (show(t[2]), t[1], show(t[3]))
    if t[0] == "load":
        return "block%s" % t[1]
    if t[0] == "byte":
        return "byte[%s]" % (t[1],)
    if t[0] == "call":
        return "%s(...)" % t[1]
    return str(t)


def loop_of(d, fn, loads_in):
    top = ir.kids(ir.body(fn))
    loops = [(i, s_) for i, s_ in enumerate(top) if s_.get("kind") in ("WhileStmt", "ForStmt", "DoStmt") and loads_in(d, s_)]
    return top, loops


def summarise(d, fn, loads_in):
    """-> dict(hvar, init, iter, posts=[(scenario, tree)]) or raises Giveup"""
    top, loops = loop_of(d, fn, loads_in)
    if len(loops) != 1:
        raise Giveup("expected one top-level block loop, found %d" % len(loops))
    li, loop = loops[0]
    ps = [p.get("name") for p in ir.params(fn)]
    pre = TreeEval(d, fn, {})
    pre.run(top[:li])
    # one iteration from symbolic values
    cond, parts, body = norm.loop_parts(loop)
    it = TreeEval(d, fn, {})
    consts = {k_: v_ for k_, v_ in pre.env.items() if v_[0] == "c"}
    it.env.update(consts)
    for p_ in parts:
        it.stmt(p_) if p_.get("kind") in ("DeclStmt", "CompoundStmt") else it.ev(p_)
    hvars = [k_ for k_, v_ in it.env.items() if k_ not in consts and contains(v_, lambda x: x == ("v", k_)) and contains(v_, lambda x: x[0] == "load")]
    if len(hvars) != 1:
        raise Giveup("hash accumulator not identified (%s)" % sorted(hvars))
    h = hvars[0]
    init = pre.env.get(h)
    if init is None:
        raise Giveup("the accumulator `%s` has no initial value before the loop" % h)
    # resolve locals of the prefix (len = length) to parameters
    init = subst(init, {k_: v_ for k_, v_ in pre.env.items() if k_ != h and v_[0] in ("v",)})
    return dict(h=h, init=init, iter=it.env[h], consts=consts, top=top, li=li, loop=loop, pre=pre, params=ps, cond=cond)


def post_trees(d, fn, S, decide):
    """value returned by the code after the loop, per scenario; `decide(cond_node, truth)` -> True (feasible) / False / None (unknown: both)"""
    rest = S["top"][S["li"] + 1:]
    w_ = flow.Walker()
    out = []
    for steps, outcome in w_.block(rest):
        feas = True
        te = TreeEval(d, fn, dict(S["consts"]))
        te.env[S["h"]] = ("v", "H")
        tag = []
        for st in steps:
            if st[0] == "cond":
                r = decide(st[1], st[2], None)
                if r is False:
                    feas = False
                    break
                tag.append((id(st[1]), st[2]))
            elif st[0] == "case":
                r = decide(None, None, st[1])
                if r is False:
                    feas = False
                    break
            elif st[0] == "decl":
                v = st[1]
                te.env[v.get("name")] = te.ev(ir.ekids(v)[-1]) if ir.ekids(v) else ("undef",)
            elif st[0] == "ev":
                n = st[1]
                if n.get("kind") in ("BinaryOperator", "CompoundAssignOperator", "UnaryOperator") and (n.get("opcode", "").endswith("=") or n.get("opcode") in ("++", "--")) and n.get("opcode") not in ("==", "!=", "<=", ">="):
                    par = d.parent_of(n)
                    # only statement-level effects: nested ones are evaluated with their statement
                    if par is not None and par.get("kind") in ("CompoundStmt", "CaseStmt", "DefaultStmt", "IfStmt", "SwitchStmt", "ForStmt", "WhileStmt", "DoStmt"):
                        te.ev(n)
                elif n.get("kind") == "CallExpr" and (d.parent_of(n) or {}).get("kind") in ("CompoundStmt", "CaseStmt", "IfStmt"):
                    te.ev(n)
            elif st[0] == "return":
                te.ret = te.ev(ir.ekids(st[1])[0]) if ir.ekids(st[1]) else None
        if feas:
            out.append((tuple(tag), te.ret))
    return out
