"""C14 — byte hashes are pure functions of the bytes and equal reference MurmurHash2 / MurmurHash64A.

Decided structurally: call-site arguments, effect/address-independence lint over the call graph, zero-extended byte
reads, cursor discipline (every read is covered by the remaining length), and agreement of the normalised operation
sequence with the reference algorithms (constants, order, shifts).  Value equality for every input is not decided.
"""
import re
from .. import clangjson as cj
from .. import ir
from .. import trange
from ..report import Report

DRV_XTL = '#include "xtl/xhash.hpp"\nstd::size_t verif_use(const void* p){ return xtl::hash_bytes(p, 3, 1) + xtl::murmur2_x86(p, 3, 1) + xtl::murmur2_x64(p, 3, 1); }\n'
DRV_STD = ('#include "xtl/xbasic_fixed_string.hpp"\n'
           'std::size_t verif_use(const xtl::xfixed_string<8>& s){ return std::hash<xtl::xfixed_string<8>>()(s); }\n')

ALLOWED_CALLEES = {"memcpy", "load_bytes", "murmur2_x86_impl", "murmur_hash", "mmix"}


def canon(t, names):
    """rename variables by order of first appearance; normalise compound assignment and commutative operands"""
    if not isinstance(t, tuple):
        return t
    k = t[0]
    if k == "ref":
        if t[1] not in names:
            names[t[1]] = "v%d" % len(names)
        return ("ref", names[t[1]])
    if k == "cast":
        return canon(t[3], names)      # integral casts between same-width unsigned types are checked by C14.byte
    if k == "bin":
        op = t[1]
        a, b = canon(t[2], names), canon(t[3], names)
        if op.endswith("=") and op not in ("==", "!=", "<=", ">=", "="):
            return ("bin", "=", a, canon_comm(op[:-1], a, b))
        return canon_comm(op, a, b) if op != "=" else ("bin", "=", a, b)
    if k == "lit":
        v = str(t[1])
        return ("lit", int(v)) if re.fullmatch(r"-?\d+", v) else t
    if k == "call":
        return ("call", t[1]) + tuple(canon(x, names) for x in t[2:])
    return (k,) + tuple(canon(x, names) for x in t[1:])


def canon_comm(op, a, b):
    if op in ("*", "^", "+", "&", "|") and str(b) < str(a):
        a, b = b, a
    return ("bin", op, a, b)


def effect_sequence(fn):
    """normalised list of the function's effects in source order (declarations with initialisers, assignments,
    compound assignments, increments, calls, returns, loop/switch/if headers)"""
    names = {}
    out = []
    for p in ir.params(fn):
        names[p.get("name")] = "p%d" % len([v for v in names.values() if v.startswith("p")])

    def visit(s):
        k = s.get("kind")
        if k == "CompoundStmt":
            for c in ir.kids(s):
                visit(c)
        elif k == "DeclStmt":
            for v in ir.kids(s):
                if v.get("kind") == "VarDecl":
                    init = ir.ekids(v)
                    names.setdefault(v.get("name"), "v%d" % len(names))
                    if init:
                        out.append(("decl", ("ref", names[v.get("name")]), canon(ir.sx(init[-1]), names)))
                    else:
                        out.append(("decl", ("ref", names[v.get("name")]), None))
        elif k == "WhileStmt":
            ks = ir.ekids(s)
            out.append(("while", canon(ir.sx(ks[0]), names)))
            visit(ks[1])
            out.append(("end",))
        elif k == "DoStmt":
            ks = ir.ekids(s)
            out.append(("do",))
            visit(ks[0])
            out.append(("dowhile", canon(ir.sx(ks[1]), names)))
        elif k == "ForStmt":
            raw = [c for c in s.get("inner", [])]
            out.append(("for",) + tuple(canon(ir.sx(c), names) if isinstance(c, dict) and c.get("kind") and c.get("kind") != "CompoundStmt" and "Stmt" not in c.get("kind") else None for c in raw[:4]))
            visit(raw[-1])
            out.append(("end",))
        elif k == "IfStmt":
            ks = ir.ekids(s)
            out.append(("if", canon(ir.sx(ks[0]), names)))
            visit(ks[1])
            if len(ks) > 2:
                out.append(("else",))
                visit(ks[2])
            out.append(("end",))
        elif k == "SwitchStmt":
            ks = ir.ekids(s)
            out.append(("switch", canon(ir.sx(ks[0]), names)))
            visit(ks[-1])
            out.append(("end",))
        elif k == "CaseStmt":
            ks = ir.ekids(s)
            out.append(("case", canon(ir.sx(ks[0]), names)))
            for c in ks[1:]:
                visit(c)
        elif k == "DefaultStmt":
            out.append(("default",))
            for c in ir.ekids(s):
                visit(c)
        elif k == "ReturnStmt":
            ks = ir.ekids(s)
            out.append(("return", canon(ir.sx(ks[0]), names) if ks else None))
        elif k in ("NullStmt",):
            pass
        elif k == "BreakStmt":
            out.append(("break",))
        else:
            out.append(canon(ir.sx(s), names))
    visit(ir.body(fn))
    return out, names


def show_eff(e):
    def sh(t):
        if t is None:
            return "-"
        if isinstance(t, tuple) and t and t[0] in ("ref", "lit", "bin", "un", "call", "cond", "index", "mem", "cast", "sizeof", "construct"):
            if t[0] == "lit" and isinstance(t[1], int) and t[1] > 255:
                return hex(t[1])
            return ir.show(tuple(sh2(x) for x in t))
        return str(t)

    def sh2(x):
        if isinstance(x, tuple) and x and x[0] == "lit" and isinstance(x[1], int) and x[1] > 255:
            return ("lit", hex(x[1]))
        if isinstance(x, tuple):
            return tuple(sh2(y) for y in x)
        return x
    return "%s %s" % (e[0], " ".join(sh(x) for x in e[1:])) if e and e[0] in ("decl", "while", "dowhile", "if", "switch", "case", "return", "for") else sh(e)


# Reference operation sequences (MurmurHash2 and MurmurHash64A by Austin Appleby), in the same normal form.
# Written from the reference algorithm, with the variable numbering the xtl functions produce.
def R(x):
    return ("ref", x)


def L(x):
    return ("lit", x)


def B(op, a, b):
    return canon_comm(op, a, b) if op not in ("=",) else ("bin", "=", a, b)


M32 = 0x5bd1e995
REF_X86 = [
    ("decl", R("v3"), L(M32)),                                  # m
    ("decl", R("v4"), R("p1")),                                 # len = length
    ("decl", R("v5"), B("^", R("p2"), R("v4"))),                # h = seed ^ len
    ("decl", R("v6"), R("p0")),                                 # data = buffer
    ("while", B(">=", R("v4"), L(4))),
    ("decl", R("v7"), None),                                    # k
    ("call", R("memcpy"), ("un", "&", R("v7")), R("v6"), ("sizeof", "sizeof", R("v7"))),
    B("=", R("v7"), B("*", R("v7"), R("v3"))),
    B("=", R("v7"), B("^", R("v7"), B(">>", R("v7"), L(24)))),
    B("=", R("v7"), B("*", R("v7"), R("v3"))),
    B("=", R("v5"), B("*", R("v5"), R("v3"))),
    B("=", R("v5"), B("^", R("v5"), R("v7"))),
    B("=", R("v6"), B("+", R("v6"), L(4))),
    B("=", R("v4"), B("-", R("v4"), L(4))),
    ("end",),
    ("switch", R("v4")),
    ("case", L(3)), B("=", R("v5"), B("^", R("v5"), B("<<", ("index", R("v6"), L(2)), L(16)))),
    ("case", L(2)), B("=", R("v5"), B("^", R("v5"), B("<<", ("index", R("v6"), L(1)), L(8)))),
    ("case", L(1)), B("=", R("v5"), B("^", R("v5"), ("index", R("v6"), L(0)))),
    B("=", R("v5"), B("*", R("v5"), R("v3"))),
    ("end",),
    B("=", R("v5"), B("^", R("v5"), B(">>", R("v5"), L(13)))),
    B("=", R("v5"), B("*", R("v5"), R("v3"))),
    B("=", R("v5"), B("^", R("v5"), B(">>", R("v5"), L(15)))),
    ("return", R("v5")),
]
M64 = 0xc6a4a7935bd1e995
REF_X64 = [
    ("decl", R("v3"), B("+", B("<<", L(0xc6a4a793), L(32)), L(0x5bd1e995))),    # m
    ("decl", R("v4"), L(47)),                                                   # r
    ("decl", R("v5"), R("p0")),                                                 # data
    ("decl", R("v6"), B("+", R("v5"), B("&", R("p1"), ("un", "~", L(7))))),     # end = data + (length & ~7)
    ("decl", R("v7"), B("^", R("p2"), B("*", R("p1"), R("v3")))),               # hash = seed ^ (length * m)
    ("while", B("!=", R("v5"), R("v6"))),
    ("decl", R("v8"), None),
    ("call", R("memcpy"), ("un", "&", R("v8")), R("v5"), ("sizeof", "sizeof", R("v8"))),
    B("=", R("v8"), B("*", R("v8"), R("v3"))),
    B("=", R("v8"), B("^", R("v8"), B(">>", R("v8"), R("v4")))),
    B("=", R("v8"), B("*", R("v8"), R("v3"))),
    B("=", R("v7"), B("^", R("v7"), R("v8"))),
    B("=", R("v7"), B("*", R("v7"), R("v3"))),
    B("=", R("v5"), B("+", R("v5"), L(8))),
    ("end",),
    ("if", B("!=", B("&", R("p1"), L(7)), L(0))),
    ("decl", R("v8"), ("call", R("load_bytes"), R("v6"), B("&", R("p1"), L(7)))),
    B("=", R("v7"), B("^", R("v7"), R("v8"))),
    B("=", R("v7"), B("*", R("v7"), R("v3"))),
    ("end",),
    B("=", R("v7"), B("^", R("v7"), B(">>", R("v7"), R("v4")))),
    B("=", R("v7"), B("*", R("v7"), R("v3"))),
    B("=", R("v7"), B("^", R("v7"), B(">>", R("v7"), R("v4")))),
    ("return", R("v7")),
]
REF_LOAD = [
    ("decl", R("v2"), L(0)),
    ("un", "--", R("p1")),
    ("do",),
    B("=", R("v2"), B("+", B("<<", R("v2"), L(8)), ("index", R("p0"), R("p1")))),
    ("dowhile", B(">=", ("un", "--", R("p1")), L(0))),
    ("return", R("v2")),
]


def shape(t):
    """term with all integer literals replaced by '#': equal shapes differ in constants only"""
    if isinstance(t, tuple):
        if t and t[0] == "lit" and isinstance(t[1], int):
            return ("lit", "#")
        return tuple(shape(x) for x in t)
    return t


def rule_const(rep, d, fns):
    rep.rule("C14.const", "dataflow summary of murmur2_x86_impl / murmur_hash<8> equals the reference MurmurHash2 / MurmurHash64A: initial hash, the update per "
                          "block, the value returned for every remainder / tail outcome (constants m, r, shift amounts, tail (byte, shift) pairs, order of the "
                          "mixes), as expression trees with locals and helpers followed; load_bytes against its reference sequence")
    from . import c14_flow as cf
    from .. import norm
    H = ("v", "H")

    def ref_x86(ps):
        M = ("c", M32)
        K = ("load", 4)
        k1 = cf.mk("*", K, M)
        k2 = cf.mk("^", k1, cf.mk(">>", k1, ("c", 24)))
        k3 = cf.mk("*", k2, M)
        it = cf.mk("^", cf.mk("*", H, M), k3)
        init = cf.mk("^", ("v", ps[2]), ("v", ps[1]))
        posts = {}
        for v in range(4):
            t = H
            for i in range(v - 1, -1, -1):
                byte = ("byte", i)
                t = cf.mk("^", t, cf.mk("<<", byte, ("c", 8 * i)) if i else byte)
            if v:
                t = cf.mk("*", t, M)
            t = cf.mk("^", t, cf.mk(">>", t, ("c", 13)))
            t = cf.mk("*", t, M)
            t = cf.mk("^", t, cf.mk(">>", t, ("c", 15)))
            posts[v] = t
        return init, it, posts

    def ref_x64(ps):
        M = ("c", M64)
        Rr = ("c", 47)
        K = ("load", 8)
        k1 = cf.mk("*", K, M)
        k2 = cf.mk("^", k1, cf.mk(">>", k1, Rr))
        k3 = cf.mk("*", k2, M)
        it = cf.mk("*", cf.mk("^", H, k3), M)
        init = cf.mk("^", ("v", ps[2]), cf.mk("*", ("v", ps[1]), M))

        def fin(t):
            t = cf.mk("^", t, cf.mk(">>", t, Rr))
            t = cf.mk("*", t, M)
            return cf.mk("^", t, cf.mk(">>", t, Rr))
        return init, it, {"tail": fin(cf.mk("*", cf.mk("^", H, ("call", "load_bytes")), M)), "no tail": fin(H)}
    for label, fn, mkref in (("murmur2_x86_impl", fns["x86"], ref_x86), ("murmur_hash<8>", fns["x64"], ref_x64)):
        where = d.where(fn)
        try:
            S = cf.summarise(d, fn, _loads_in)
            init_w, it_w, posts_w = mkref(S["params"])
            it_got = cf.subst(S["iter"], {S["h"]: H})
            problems = []
            if S["init"] != init_w:
                problems.append(("initial value", "the hash starts as `%s`, the reference algorithm as `%s`" % (cf.show(S["init"]), cf.show(init_w))))
            if it_got != it_w:
                problems.append(("block update", "one block turns H into `%s`, the reference into `%s`" % (cf.show(it_got), cf.show(it_w))))
            # after the loop
            if label == "murmur2_x86_impl":
                cond = S["cond"]
                c = norm.norm_cmp(ir.sx(cond), lambda x: x[0] == "ref") if cond is not None else None
                nvar = c[1][1] if c else None
                for v in range(4):
                    labels = case_labels(S["top"][S["li"] + 1:], nvar)

                    def decide(cnode, truth, case, v=v, nvar=nvar, labels=labels):
                        if cnode is not None:
                            c2 = norm.norm_cmp(ir.sx(cnode), lambda x: x == ("ref", nvar))
                            if c2 is None:
                                t_ = norm.uncast(ir.sx(cnode))
                                if t_ == ("ref", nvar):
                                    return (v != 0) == truth
                                return None
                            k_ = norm.int_of(c2[2])
                            if k_ is None:
                                return None
                            r_ = {"<": v < k_, "<=": v <= k_, ">": v > k_, ">=": v >= k_, "==": v == k_, "!=": v != k_}[c2[0]]
                            return r_ == truth
                        if case is None or case.get("kind") == "DefaultStmt":
                            return v not in labels
                        iv = trange.interval(ir.ekids(case)[0])
                        return iv is not None and iv[0] == iv[1] == v
                    outs = {t for _, t in cf.post_trees(d, fn, S, decide)}
                    if outs != {posts_w[v]}:
                        got = sorted(cf.show(t) if t else "nothing" for t in outs)
                        problems.append(("tail and finalisation with %d byte(s) left" % v, "returns `%s`, the reference `%s`" % (" | ".join(got)[:400], cf.show(posts_w[v])[:300])))
            else:
                outs = {t for _, t in cf.post_trees(d, fn, S, lambda a_, b_, c_: None)}
                if outs != set(posts_w.values()):
                    got = sorted(cf.show(t) if t else "nothing" for t in outs)
                    problems.append(("tail and finalisation", "returns `%s`; the reference returns `%s`" % (" | ".join(got)[:400], " | ".join(sorted(cf.show(t) for t in posts_w.values()))[:400])))
            if problems:
                for cons, det in problems:
                    rep.violates("C14.const", label, cons, where=where, detail=det)
            else:
                rep.holds("C14.const", label, "dataflow summary", where=where, detail="initial value, block update and %d post-loop outcome(s) equal the reference" % len(posts_w))
        except (cf.Giveup, flow_Limit()) as e:
            rep.inconclusive("C14.const", label, "dataflow summary", where=where, detail=str(e))
    # load_bytes(p, n): executed over symbolic bytes for every count 1..7 - the result is the little-endian value of p[0..n-1], whatever
    # the direction of the loop or the spelling of the accumulation, and nothing outside p[0..n-1] is read
    from .. import bytesym
    fn = fns["load"]
    where = d.where(fn)
    ps = ir.params(fn)
    if len(ps) != 2:
        rep.inconclusive("C14.const", "load_bytes", "little-endian value of the tail", where=where, detail="expected (pointer, count) parameters")
        return
    pn, cn = ps[0].get("name"), ps[1].get("name")
    bad = None
    for n_ in range(1, 8):
        m = bytesym.Machine(d, {pn: 0})
        m.env[cn] = n_
        try:
            r = m.run(ir.body(fn))
        except bytesym.Unknown as e:
            bad = ("?", "n = %d: %s" % (n_, e))
            break
        if r[0] != "return" or r[1] is None:
            bad = ("?", "n = %d: no value returned" % n_)
            break
        outside = sorted({i for i in m.reads if not (0 <= i < n_)})
        got = r[1] if isinstance(r[1], bytesym.Sym) else bytesym.Sym({"": r[1]} if r[1] else {})
        want = bytesym.little_endian(n_)
        if outside:
            bad = ("n = %d" % n_, "reads p[%s], outside p[0..%d]" % (", ".join(map(str, outside)), n_ - 1))
            break
        if got != want:
            sx_ = [k_ for k_ in got if k_ != "" and k_[0] == "c"]
            why = ("p[%d] enters as a plain char (sign-extended for bytes >= 0x80): the conversion to unsigned char is missing" % sx_[0][1]) if sx_ else \
                "returns `%s`, the reference MurmurHash64A tail is `%s`" % (got.show(), want.show())
            bad = ("n = %d" % n_, why)
            break
    if bad and bad[0] == "?":
        rep.inconclusive("C14.const", "load_bytes", "little-endian value of the tail", where=where, detail=bad[1])
    elif bad:
        rep.violates("C14.const", "load_bytes", "little-endian value of the tail", where=where, scenario=bad[0], detail=bad[1])
    else:
        rep.holds("C14.const", "load_bytes", "little-endian value of the tail", where=where, detail="executed over symbolic bytes for n = 1..7: sum of p[i] << 8i, i < n; reads within p[0..n-1]")


def flow_Limit():
    from .. import flow
    return flow.Limit


def rule_entry(rep, d, fns):
    rep.rule("C14.site", "entry points forward (buffer, length, seed) unchanged and in order; std::hash<xbasic_fixed_string> hashes "
                         "exactly (data(), size(), constant seed)")
    table = [("hash_bytes", "murmur_hash", ["buffer", "length", "seed"]),
             ("murmur2_x86", "murmur2_x86_impl", ["buffer", "length", "seed"]),
             ("murmur2_x64", "murmur_hash", ["buffer", "length", "seed"]),
             ("murmur_hash<4>", "murmur2_x86_impl", ["buffer", "length", "seed"])]
    for name, callee, _ in table:
        fn = fns.get(name)
        if fn is None:
            rep.inconclusive("C14.site", name, "forwarding", detail="function not found")
            continue
        ps = [p.get("name") for p in ir.params(fn)]
        rets = [s for s in ir.walk_expr(ir.body(fn)) if s.get("kind") == "ReturnStmt"]
        from .. import fstring as fs_
        from .. import norm as norm_
        t = fs_.subst_locals(ir.sx(ir.ekids(rets[0])[0]), fs_.local_sx(fn)) if len(rets) == 1 else None      # hoisted locals are read through
        t = norm_.deep_uncast(t) if t is not None else None
        ok = False
        got = ir.show(t) if t else "?"
        if t is not None and t[0] == "call" and len(t) == 5:
            cn = t[1][1] if t[1][0] == "ref" else "?"
            args = list(t[2:])
            ok = cn == callee and args == [("ref", p) for p in ps]
        if name == "murmur2_x64" and ok:
            # must select the 64-bit specialisation
            call = [c for c in ir.walk_expr(ir.body(fn)) if c.get("kind") == "CallExpr"][0]
            callee_decl = ir.strip(ir.ekids(call)[0]).get("referencedDecl", {})
            tgt = d.by_id.get(callee_decl.get("id"))
            targs = ir.template_args(tgt) if tgt else []
            ok = targs == ["8"]
            got += " [murmur_hash<%s>]" % ",".join(targs)
        if name == "hash_bytes" and ok:
            call = [c for c in ir.walk_expr(ir.body(fn)) if c.get("kind") == "CallExpr"][0]
            tgt = d.by_id.get(ir.strip(ir.ekids(call)[0]).get("referencedDecl", {}).get("id"))
            targs = ir.template_args(tgt) if tgt else []
            ok = targs == ["8"]        # sizeof(std::size_t) on this target
            got += " [murmur_hash<%s>]" % ",".join(targs)
        (rep.holds if ok else rep.violates)("C14.site", name, "forwarding", where=d.where(fn),
                                            detail=got if ok else "must return %s(%s); found `%s`" % (callee, ", ".join(ps), got))


def rule_std_hash(rep):
    d = cj.dump(DRV_STD, "hash<")
    rep.cmd(d.cmd)
    ops = [f for f in ir.functions(d) if f.get("name") == "operator()" and "xbasic_fixed_string" in d.where(f)]
    pats = [f for f in ops if ir.is_template_pattern(d, f)] or ops
    if not pats:
        rep.inconclusive("C14.site", "std::hash<xbasic_fixed_string>", "call site", detail="specialisation not found")
        return
    fn = pats[0]
    pname = ir.params(fn)[0].get("name")
    rets = [s for s in ir.walk_expr(ir.body(fn)) if s.get("kind") == "ReturnStmt"]
    from .. import fstring as fs_
    from .. import norm as norm_
    t = norm_.deep_uncast(fs_.subst_locals(ir.sx(ir.ekids(rets[0])[0]), fs_.local_sx(fn))) if len(rets) == 1 else None
    got = ir.show(t) if t else "?"
    ok = False
    why = ""
    if t is not None and t[0] == "call" and len(t) == 5 and ir.show(t[1]).endswith("hash_bytes"):
        a, b, c = t[2], t[3], t[4]
        strip = lambda x: strip(x[3]) if x[0] == "cast" else x
        a, b, c = strip(a), strip(b), strip(c)
        is_acc = lambda x, names: x[0] == "call" and len(x) == 2 and x[1][0] == "mem" and x[1][1] == ("ref", pname) and x[1][2] in names
        ok_a = is_acc(a, ("data", "c_str"))
        ok_b = is_acc(b, ("size", "length")) or (b[0] == "bin" and b[1] == "*" and (is_acc(b[2], ("size", "length")) or is_acc(b[3], ("size", "length")))
                                                 and any(x[0] == "sizeof" for x in (b[2], b[3])))
        ok_c = c[0] == "lit"
        ok = ok_a and ok_b and ok_c
        why = "; ".join(w for w, o in (("data argument must be %s.data()" % pname, ok_a), ("length argument must be %s.size() [* sizeof(char type)]" % pname, ok_b),
                                       ("seed must be a constant", ok_c)) if not o)
    (rep.holds if ok else rep.violates)("C14.site", "std::hash<xbasic_fixed_string>", "call site", where=d.where(fn),
                                        detail=got if ok else "%s; found `%s`" % (why or "must be hash_bytes(arg.data(), arg.size(), <constant>)", got))


def rule_len(rep):
    """std::hash hashes [data(), data() + size()): the length it passes on is what the storage policy's size() decodes.  The encoder /
    decoder agreement of every storage layout (rule C01.enc of the fixed-string property: set_size / adjust_size folded for every
    length 0..N, size() must give that length back) is therefore a necessary condition here and is decided again under this id."""
    from . import c01
    c01.rule_enc_as(rep, "C14.len", "the length std::hash passes on is the string's length: for every storage layout and every length 0..N, size() decodes what "
                                    "set_size/adjust_size encoded (the packed layout's last element read as an unsigned count, the strlen layout's terminator in place)")


def rule_addr(rep, d, fns):
    rep.rule("C14.addr", "hash functions are address independent and effect free: no pointer-to-integer conversion, no non-local "
                         "state, callees only memcpy/load_bytes/the hash kernels, block loads through memcpy (never through a cast to a "
                         "wider pointer type)")
    for label in ("x86", "x64", "load", "hash_bytes", "murmur2_x86", "murmur2_x64", "murmur_hash<4>"):
        fn = fns.get(label)
        if fn is None:
            continue
        name = fn.get("name") if label in ("x86", "x64", "load") else label
        problems = []
        # helpers of the library that the kernel calls are part of the hash: they are held to the same rule (closed under calls)
        bodies = [ir.body(fn)]
        seen_h = {fn.get("id")}
        qi = 0
        while qi < len(bodies):
            for n in ir.walk_expr(bodies[qi]):
                if n.get("kind") == "CallExpr":
                    c_ = ir.strip(ir.ekids(n)[0])
                    tgt = d.by_id.get((c_.get("referencedDecl") or {}).get("id")) if c_.get("kind") == "DeclRefExpr" else None
                    if tgt is not None and ir.body(tgt) is not None and tgt.get("id") not in seen_h and "/xtl/" in (d.where(tgt) or ""):
                        seen_h.add(tgt.get("id"))
                        bodies.append(ir.body(tgt))
            qi += 1
        helper_names = {(d.by_id.get(i) or {}).get("name") for i in seen_h}
        for n in (x for b_ in bodies for x in ir.walk_expr(b_)):
            k = n.get("kind")
            if n.get("castKind") == "PointerToIntegral":
                problems.append((n, "converts a pointer to an integer (`%s`): the result would depend on the buffer's address" % d.text(n)[:60]))
            if k in ("CStyleCastExpr", "CXXReinterpretCastExpr", "CXXStaticCastExpr") and n.get("castKind") == "BitCast":
                to = ir.qtype(n)
                if "*" in to and not re.search(r"\b(unsigned char|char|void)\b", to):
                    problems.append((n, "reinterprets the byte buffer as `%s` (alignment/aliasing dependent load)" % to))
            if k == "DeclRefExpr":
                rd = n.get("referencedDecl") or {}
                if rd.get("kind") == "VarDecl":
                    tgt = d.by_id.get(rd.get("id"))
                    par = d.parent_of(tgt) if tgt else None
                    if tgt is not None and par is not None and par.get("kind") in ("NamespaceDecl", "TranslationUnitDecl", "CXXRecordDecl"):
                        q = ir.qtype(tgt)
                        if not (tgt.get("constexpr") or q.startswith("const ")):
                            problems.append((n, "reads non-local mutable variable `%s`" % rd.get("name")))
                    elif tgt is not None and tgt.get("storageClass") == "static":
                        problems.append((n, "uses function-local static `%s`" % rd.get("name")))
            if k == "CallExpr":
                t = ir.sx(n)
                cn = t[1][1] if t[1][0] == "ref" else ir.show(t[1])
                if cn not in ALLOWED_CALLEES and str(cn).split("::")[-1] not in helper_names:
                    problems.append((n, "calls `%s`, which is outside the hash's closed call graph" % cn))
        if problems:
            for n, why in problems:
                rep.violates("C14.addr", name, "effect `%s`" % d.text(n)[:40].replace("\n", " "), where=d.where(n), detail=why)
        else:
            rep.holds("C14.addr", name, "effects", where=d.where(fn))


def rule_byte(rep, d, fns):
    rep.rule("C14.byte", "every byte read that enters the hash arithmetic is zero-extended (its value interval is [0,255])")
    for label in ("x86", "load"):
        fn = fns[label]
        for n in ir.walk_expr(ir.body(fn)):
            if n.get("kind") != "ArraySubscriptExpr":
                continue
            # climb while the parent is a cast: the value entering arithmetic is the outermost cast
            top = n
            p = d.parent_of(top)
            while p is not None and p.get("kind") in ("ImplicitCastExpr", "CXXStaticCastExpr", "CStyleCastExpr", "CXXFunctionalCastExpr", "ParenExpr"):
                # stop before a widening to the hash word: we need the interval *of the byte as widened*
                top = p
                p = d.parent_of(top)
            iv = trange.interval(top)
            txt = d.text(n)[:40]
            if iv is not None and 0 <= iv[0] and iv[1] <= 255:
                rep.holds("C14.byte", fn.get("name"), "byte read `%s`" % txt, where=d.where(n), detail="value in [%d,%d]" % iv)
            else:
                rep.violates("C14.byte", fn.get("name"), "byte read `%s`" % txt, where=d.where(n),
                             detail="the byte enters the arithmetic as `%s` with interval %s: bytes >= 0x80 are sign-extended or truncated" % (
                                 d.text(top)[:60], iv))


def rule_tail_reads(rep, d, fns):
    """the tail helper load_bytes(p, n) may read p[0..n-1] only: a fixed-width memcpy from p reads past buffer + length"""
    fn = fns["load"]
    ps = [p.get("name") for p in ir.params(fn)]
    found = 0
    for n in ir.walk_expr(ir.body(fn)):
        if n.get("kind") != "CallExpr":
            continue
        t = ir.sx(n)
        if t[0] == "call" and t[1] in (("ref", "memcpy"), ("ref", "memmove")) and len(t) == 5:
            src, size = t[3], t[4]
            if any(s_ == ("ref", ps[0]) for s_ in ir.subterms(src)):
                found += 1
                if not any(s_ == ("ref", ps[1]) for s_ in ir.subterms(size)):
                    rep.violates("C14.byte", fn.get("name"), "bulk read `%s`" % d.text(n)[:50], where=d.where(n),
                                 detail="copies `%s` bytes from the input regardless of the `%s` bytes that remain: for an exact-size key the read runs past buffer + length" % (
                                     ir.show(size), ps[1]))
                else:
                    rep.holds("C14.byte", fn.get("name"), "bulk read `%s`" % d.text(n)[:50], where=d.where(n), detail="size bounded by %s" % ps[1])
    return found


def lit_int(t):
    return t[1] if t[0] == "lit" and isinstance(t[1], int) else None


def var_op_lit(t, ops):
    """`x op k` (either operand order for commutative ops) -> (x, op, k) else None"""
    if t[0] == "bin" and t[1] in ops:
        if lit_int(t[3]) is not None:
            return t[2], t[1], lit_int(t[3])
        if t[1] in ("+", "&", "*", "^", "|") and lit_int(t[2]) is not None:
            return t[3], t[1], lit_int(t[2])
    return None


def _loads_in(d, node, depth=0):
    """(call node, source pointer node, size in bytes or None) of the block loads below `node`: memcpy(&x, SRC, n) written there, or inside a
    library helper that is called with the pointer (read_block32(p) { memcpy(&k, p, sizeof k) })"""
    out = []
    seen_n = set()
    for n in [node] + list(ir.walk_expr(node)):
        if n.get("kind") != "CallExpr" or id(n) in seen_n:
            continue
        seen_n.add(id(n))
        ks = ir.ekids(n)
        c_ = ir.strip(ks[0])
        nm = (c_.get("referencedDecl") or {}).get("name") if c_.get("kind") == "DeclRefExpr" else None
        if nm in ("memcpy", "memmove") and len(ks) == 4:
            sz = ir.strip(ks[3])
            size = None
            if sz.get("kind") == "UnaryExprOrTypeTraitExpr":
                at = sz.get("argType") or {}
                q = at.get("desugaredQualType") or at.get("qualType")
                if q is None and ir.ekids(sz):
                    q = ir.qtype(ir.ekids(sz)[0])
                size = {"unsigned int": 4, "uint32_t": 4, "int": 4, "unsigned long": 8, "std::size_t": 8, "size_t": 8, "uint64_t": 8, "unsigned long long": 8, "long": 8}.get((q or "").replace("const ", ""))
            else:
                iv = trange.interval(ks[3])
                size = iv[0] if iv and iv[0] == iv[1] else None
            out.append((n, ks[2], size))
        elif nm and depth < 2:
            tgt = d.by_id.get((c_.get("referencedDecl") or {}).get("id"))
            if tgt is not None and ir.body(tgt) is not None and "/xtl/" in (d.where(tgt) or "") and nm != "load_bytes":
                ps = [p.get("name") for p in ir.params(tgt)]
                for ln, src, size in _loads_in(d, ir.body(tgt), depth + 1):
                    s_ = ir.strip(src)
                    while s_.get("kind") in ("ImplicitCastExpr", "CStyleCastExpr", "CXXStaticCastExpr", "CXXReinterpretCastExpr") and ir.ekids(s_):
                        s_ = ir.strip(ir.ekids(s_)[-1])
                    if s_.get("kind") == "DeclRefExpr" and (s_.get("referencedDecl") or {}).get("name") in ps:
                        out.append((n, ks[1 + ps.index((s_.get("referencedDecl") or {}).get("name"))], size))
    return out


def _ptr_lin(node, lin_of):
    n = ir.strip(node)
    while n.get("kind") in ("ImplicitCastExpr", "CStyleCastExpr", "CXXStaticCastExpr", "CXXReinterpretCastExpr") and ir.ekids(n):
        n = ir.strip(ir.ekids(n)[-1])
    return lin_of(n)


class _IndexForm:
    """A block loop written with a block index: `for (i = 0; i < L / w; ++i) load(base + w * i)`.  With q = L / w (or L >> log2 w) the integers
    satisfy L = w*q + r, 0 <= r < w, so block i < q reads [w*i, w*i + w) inside [0, w*q) which lies in [0, L), and a tail that starts at base + w*q
    and reads r = L % w = L & (w-1) = L - w*q bytes ends exactly at L.  The rule recognises q and r in any of these spellings (through locals) and
    checks the linear forms of the load addresses and of the tail start."""

    def __init__(self, d, fn, loop):
        from .. import norm, fstring as fs
        from ..linear import Lin
        self.ok = False
        self.why = ""
        self.bad = None
        self.d, self.fn = d, fn
        self.loc = {k_: norm.deep_uncast(v_) for k_, v_ in fs.local_sx(fn).items()}
        cond, parts, body = norm.loop_parts(loop)
        c = norm.norm_cmp(ir.sx(cond), lambda x: x[0] == "ref") if cond is not None else None
        if c is None or c[0] not in ("<", "!="):
            self.why = "the loop condition is not `i < B` / `i != B`"
            return
        self.i = c[1][1]
        # i starts at 0 and moves by +1
        init = None
        raw = loop.get("inner", [])
        if loop.get("kind") == "ForStmt" and isinstance(raw[0], dict) and raw[0].get("kind"):
            for v in ir.kids(raw[0]):
                if v.get("kind") == "VarDecl" and v.get("name") == self.i and ir.ekids(v):
                    init = trange.interval(ir.ekids(v)[-1])
        if init is None and self.i in self.loc:
            init = (norm.int_of(self.loc[self.i]),) * 2 if norm.int_of(self.loc[self.i]) is not None else None
        step = norm.sym_step(parts).get(self.i)
        if init != (0, 0) or step is None or (step - Lin({self.i: 1})) != Lin({"": 1}):
            self.why = "the block index does not run 0, 1, 2, ..."
            return
        B = self.expand(c[2])
        self.w = None
        if B[0] == "bin" and B[1] == "/" and norm.int_of(B[3]) and norm.int_of(B[3]) > 0:
            self.w, self.L = norm.int_of(B[3]), B[2]
        elif B[0] == "bin" and B[1] == ">>" and norm.int_of(B[3]) is not None:
            self.w, self.L = 1 << norm.int_of(B[3]), B[2]
        if self.w is None:
            self.why = "the bound `%s` is not length / w or length >> k" % ir.show(B)[:40]
            return
        self.B = B
        # the loads: base + w*i, w bytes
        self.base = None
        for ln, src, size in _loads_in(d, loop):
            l_ = self.lin(ir.sx(src))
            if l_ is not None and size is not None and l_.get("i:" + self.i) is not None:
                a_, c_ = l_.get("i:" + self.i), l_.get("", 0)
                if a_ > self.w or c_ < 0 or (a_ == self.w and c_ + size > self.w):
                    # recognised, and wrong: the last block (i = q - 1) is read past w*q <= length, or before the buffer
                    self.bad = (src, "the %d-byte load at base + %d*%s%+d is not inside block %s of %d bytes: for the last block it reads past the end of the full blocks" % (
                        size, a_, self.i, c_, self.i, self.w))
                    return
            if l_ is None or size != self.w or l_.get("i:" + self.i) != self.w or l_.get("", 0) != 0:
                self.why = "a block load is not %d bytes at base + %d * %s (`%s`)" % (self.w, self.w, self.i, d.text(src)[:40])
                return
            rest = [k_ for k_ in l_ if k_ not in ("", "i:" + self.i)]
            if len(rest) != 1 or l_[rest[0]] != 1 or (self.base is not None and self.base != rest[0]):
                self.why = "block loads through different bases"
                return
            self.base = rest[0]
        if self.base is None:
            self.why = "no block load in the loop"
            return
        self.ok = True

    def expand(self, t, depth=0):
        from .. import norm
        t = norm.deep_uncast(t)
        if depth > 8 or not isinstance(t, tuple):
            return t
        if t[0] == "ref" and t[1] in self.loc and t[1] != getattr(self, "i", None):
            return self.expand(self.loc[t[1]], depth + 1)
        return tuple(self.expand(x, depth + 1) if isinstance(x, tuple) else x for x in t)

    def lin(self, t):
        """linear form over pointer bases ("p:name"), the block index ("i:name"), q and L; products with literals"""
        from .. import norm
        from ..linear import Lin
        t = self.expand(t)
        if getattr(self, "B", None) is not None and t == self.B:
            return Lin({"q": 1})
        if getattr(self, "L", None) is not None and t == self.L:
            return Lin({"L": 1})
        k = norm.int_of(t)
        if k is not None:
            return Lin({"": k}) if k else Lin()
        if t[0] == "ref":
            return Lin({("i:" if t[1] == self.i else "p:") + t[1]: 1})
        if t[0] == "bin" and t[1] in ("+", "-"):
            a, b = self.lin(t[2]), self.lin(t[3])
            if a is None or b is None:
                return None
            return a + b if t[1] == "+" else a - b
        if t[0] == "bin" and t[1] == "*":
            for x, y in ((t[2], t[3]), (t[3], t[2])):
                kx = norm.int_of(self.expand(x))
                ly = self.lin(y)
                if kx is not None and ly is not None:
                    return Lin({k_: v_ * kx for k_, v_ in ly.items() if v_ * kx})
        if t[0] == "bin" and t[1] == "<<" and norm.int_of(t[3]) is not None:
            ly = self.lin(t[2])
            if ly is not None:
                return Lin({k_: v_ << norm.int_of(t[3]) for k_, v_ in ly.items()})
        return None

    def is_rem(self, t):
        """t is the number of bytes behind the last full block: L % w, L & (w-1), L - w*q"""
        from .. import norm
        from ..linear import Lin
        t = self.expand(t)
        if t[0] == "bin" and t[1] == "%" and t[2] == self.L and norm.int_of(t[3]) == self.w:
            return True
        if t[0] == "bin" and t[1] == "&" and self.w & (self.w - 1) == 0:
            for a, b in ((t[2], t[3]), (t[3], t[2])):
                if a == self.L and norm.int_of(b) == self.w - 1:
                    return True
        l_ = self.lin(t)
        return l_ is not None and l_ == Lin({"L": 1, "q": -self.w})

    def is_end(self, t):
        """t points just behind the last full block: base + w*q (or base + (L - r))"""
        from ..linear import Lin
        l_ = self.lin(t)
        if l_ is None:
            return False
        return l_ == Lin({self.base: 1, "q": self.w})


def rule_cursor(rep, d, fns):
    rep.rule("C14.cursor", "each read is covered by the remaining length: block loads of w bytes sit in a loop guarded by remaining >= w "
                           "(or by an end pointer computed with & ~(w-1)), the cursor and the remaining length advance by w, tail cases read "
                           "only indices below the smallest case label that reaches them, and load_bytes(p, n) is called with n = length & (w-1) != 0")
    from .. import norm, flow
    from ..linear import Lin
    R = "C14.cursor"
    # ---- 32-bit kernel ------------------------------------------------------------------------------------------------------------
    fn = fns["x86"]
    where = d.where(fn)
    top = ir.kids(ir.body(fn))
    loops = [(i, s_) for i, s_ in enumerate(top) if s_.get("kind") in ("WhileStmt", "ForStmt", "DoStmt") and _loads_in(d, s_)]
    guard = None
    cursor = None
    if len(loops) != 1:
        rep.inconclusive(R, "murmur2_x86_impl", "block loop", where=where, detail="expected one top-level loop with block loads, found %d" % len(loops))
    else:
        li, loop = loops[0]
        cond, parts, body = norm.loop_parts(loop)
        c = norm.norm_cmp(ir.sx(cond), lambda x: x[0] == "ref") if cond is not None else None
        nvar = None
        if c is not None and norm.int_of(c[2]) is not None and c[0] in (">=", ">"):
            nvar, guard = c[1][1], norm.int_of(c[2]) + (1 if c[0] == ">" else 0)
        snaps = []

        def on_part(x, env, lin_of):
            for ln, src, size in _loads_in(d, x):
                snaps.append((ln, _ptr_lin(src, lin_of), size))
        env = norm.sym_step(parts, on_part)
        idxf = None
        if guard is None:
            idxf = _IndexForm(d, fn, loop)
        if guard is None and idxf is not None and idxf.ok:
            # index form: blocks 0..q-1 with q = L / w lie inside [0, L); the tail starts at base + w*q
            guard = idxf.w
            tails = [v for s_ in top[li + 1:] for v in ([s_] + list(ir.walk_expr(s_))) if v.get("kind") == "VarDecl" and "*" in ir.qtype(v) and ir.ekids(v) and idxf.is_end(ir.sx(ir.ekids(v)[-1]))]
            rep.holds(R, "murmur2_x86_impl", "block loop", where=d.where(loop),
                      detail="index form: %d-byte loads at base + %d*%s for %s < length / %d" % (idxf.w, idxf.w, idxf.i, idxf.i, idxf.w))
            if len(tails) == 1:
                cursor = tails[0].get("name")
                nvar = "@remainder"
            else:
                rep.inconclusive(R, "murmur2_x86_impl", "tail", where=where, detail="no single pointer to the end of the full blocks (base + w * (length / w)) found for the tail")
                guard = None
        elif guard is None and idxf is not None and idxf.bad:
            rep.violates(R, "murmur2_x86_impl", "block loop", where=d.where(idxf.bad[0]), detail=idxf.bad[1])
        elif guard is None:
            rep.inconclusive(R, "murmur2_x86_impl", "block loop", where=d.where(loop), detail="the loop is not guarded by `remaining >= <constant>`%s" % (
                (" and is not an index loop over length / w either: " + idxf.why) if idxf is not None else ""))
        elif not snaps or any(p_ is None or sz is None for _, p_, sz in snaps):
            rep.inconclusive(R, "murmur2_x86_impl", "block loop", where=d.where(loop), detail="block load address or size is not linear in the cursor")
        else:
            pvars = {k_ for _, p_, _ in snaps for k_ in p_ if k_ != ""}
            if len(pvars) != 1:
                rep.inconclusive(R, "murmur2_x86_impl", "block loop", where=d.where(loop), detail="loads through %s" % sorted(pvars))
            else:
                cursor = pvars.pop()
                dn = env.get(nvar, Lin({nvar: 1})) - Lin({nvar: 1})
                dp = env.get(cursor, Lin({cursor: 1})) - Lin({cursor: 1})
                problems = []
                step = dp.get("", 0) if set(dp) <= {""} else None
                if step is None or step <= 0:
                    problems.append("the cursor does not advance by a positive constant per iteration (%s)" % dp.show())
                elif dn != Lin({"": -step}):
                    problems.append("the cursor advances by %d but the remaining length changes by %s" % (step, dn.show()))
                elif step > guard:
                    problems.append("each iteration consumes %d bytes but the guard only guarantees %d" % (step, guard))
                for ln, p_, sz in snaps:
                    off = p_.get("", 0)
                    if p_.get(cursor) != 1 or off < 0 or off + sz > guard:
                        problems.append("a %d-byte load at cursor%+d is not covered by `remaining >= %d`" % (sz, off, guard))
                (rep.violates if problems else rep.holds)(R, "murmur2_x86_impl", "block loop", where=d.where(loop),
                                                          detail="; ".join(problems) if problems else "guard remaining >= %d, loads %s, cursor +%d, remaining -%d" % (guard, [(p_.get("", 0), sz) for _, p_, sz in snaps], step, step))
        # ---- tail: for every remainder v the bytes read are exactly cursor[0..v-1]
        if guard is not None and cursor is not None and nvar is not None:
            rest = top[li + 1:]
            # the tail handed to a helper of the library together with the cursor and the remaining count (`mixer::mix_tail(h, data, len)`): the
            # helper's body is the tail, with its own names for the two
            tail_via = None
            for hops_ in range(3):
                moved = False
                for s_ in rest:
                    for c_ in ir.walk_expr(s_):
                        if c_.get("kind") not in ("CallExpr", "CXXMemberCallExpr") or not ir.ekids(c_):
                            continue
                        args_ = ir.ekids(c_)[1:]
                        ai = [i_ for i_, a_ in enumerate(args_) if norm.uncast(ir.sx(a_)) == ("ref", cursor)]
                        ni = [i_ for i_, a_ in enumerate(args_) if norm.uncast(ir.sx(a_)) == ("ref", nvar)]
                        cal_ = ir.strip(ir.ekids(c_)[0])
                        tg_ = d.by_id.get(cal_.get("referencedMemberDecl")) if cal_.get("kind") == "MemberExpr" else d.by_id.get((cal_.get("referencedDecl") or {}).get("id"))
                        if ai and ni and tg_ is not None and ir.body(tg_) is not None and "/xtl/" in (d.where(tg_) or "") and len(ir.params(tg_)) == len(args_):
                            rest = ir.kids(ir.body(tg_))
                            cursor = ir.params(tg_)[ai[0]].get("name")
                            nvar = ir.params(tg_)[ni[0]].get("name")
                            tail_via = tg_.get("name")
                            moved = True
                            break
                    if moved:
                        break
                if not moved:
                    break
            w_ = flow.Walker()
            paths = list(w_.block(rest))
            for v in range(guard):
                got = set()
                undecided = None
                for steps, outcome in paths:
                    feas = True
                    reads = set()
                    labels_seen = False
                    for st in steps:
                        if st[0] == "cond":
                            is_n = (lambda x: x == ("ref", nvar)) if idxf is None or not idxf.ok else (lambda x: idxf.is_rem(x))
                            c2 = norm.norm_cmp(ir.sx(st[1]), is_n)
                            if c2 is None:
                                t_ = norm.uncast(ir.sx(st[1]))
                                if is_n(t_):
                                    truth = v != 0
                                else:
                                    continue          # a condition on something else: both outcomes are followed
                            else:
                                k_ = norm.int_of(c2[2])
                                if k_ is None:
                                    undecided = "condition `%s`" % d.text(st[1])[:40]
                                    continue
                                truth = {"<": v < k_, "<=": v <= k_, ">": v > k_, ">=": v >= k_, "==": v == k_, "!=": v != k_}[c2[0]]
                            if truth != st[2]:
                                feas = False
                                break
                        elif st[0] == "case":
                            sw = d.parent_of(d.parent_of(st[1])) if st[1] is not None else None
                            if idxf is not None and idxf.ok:
                                # the switch must be on the number of bytes behind the last full block
                                swn = st[1]
                                while swn is not None and swn.get("kind") != "SwitchStmt":
                                    swn = d.parent_of(swn)
                                if swn is None:
                                    swn = next((x for s2 in rest for x in ([s2] + list(ir.walk_expr(s2))) if x.get("kind") == "SwitchStmt"), None)
                                subj = [c_ for c_ in swn.get("inner", []) if isinstance(c_, dict) and c_.get("kind")][-2] if swn is not None else None
                                if subj is None or not idxf.is_rem(ir.sx(subj)):
                                    undecided = "the tail switch is not on length %% %d" % idxf.w
                            if st[1] is None:
                                # no label taken: feasible only if no label equals v (decided below through the labelled paths)
                                feas = v not in case_labels(rest, nvar)
                            elif st[1].get("kind") == "DefaultStmt":
                                feas = v not in case_labels(rest, nvar)
                            else:
                                iv = trange.interval(ir.ekids(st[1])[0])
                                feas = iv is not None and iv[0] == iv[1] == v
                            if not feas:
                                break
                        elif st[0] in ("ev",):
                            for node, base, idx in subscripts_of(st[1]):
                                b_ = ir.strip(base)
                                if b_.get("kind") == "DeclRefExpr" and (b_.get("referencedDecl") or {}).get("name") == cursor:
                                    iv = trange.interval(idx)
                                    if iv is None or iv[0] != iv[1]:
                                        undecided = "index of `%s`" % d.text(node)[:30]
                                    else:
                                        reads.add(iv[0])
                                elif "char" in ir.qtype(b_) and "*" in ir.qtype(b_):
                                    undecided = "read through `%s`, which is not the block cursor" % d.text(base)[:30]
                    if feas:
                        got |= reads
                label = "tail with %d byte(s) left" % v
                if undecided:
                    rep.inconclusive(R, "murmur2_x86_impl", label, where=where, detail=undecided)
                elif any(ix >= v for ix in got):
                    rep.violates(R, "murmur2_x86_impl", label, where=where, detail="reads %s[%d] although only %d byte(s) remain: a read past buffer + length" % (cursor, max(got), v))
                elif got != set(range(v)):
                    rep.violates(R, "murmur2_x86_impl", label, where=where, detail="mixes in bytes %s of the remaining %d: bytes %s never reach the hash" % (sorted(got), v, sorted(set(range(v)) - got)))
                else:
                    rep.holds(R, "murmur2_x86_impl", label, where=where, detail="reads exactly %s" % sorted(got))
    # ---- 64-bit kernel ------------------------------------------------------------------------------------------------------------
    fn = fns["x64"]
    where = d.where(fn)
    loc = {k_: norm.deep_uncast(v_) for k_, v_ in fs_local_sx(fn).items()}
    ps = [p.get("name") for p in ir.params(fn)]

    def resolve(t, depth=0):
        t = norm.deep_uncast(t)
        if depth > 8 or not isinstance(t, tuple):
            return t
        if t[0] == "ref" and t[1] in loc:
            return resolve(loc[t[1]], depth + 1)
        return tuple(resolve(x, depth + 1) if isinstance(x, tuple) else x for x in t)

    def end_form(t):
        """base + (length & ~(w-1)) -> (base, w)"""
        t = resolve(t)
        if t[0] == "bin" and t[1] == "+":
            for base, m in ((t[2], t[3]), (t[3], t[2])):
                if m[0] == "bin" and m[1] == "&":
                    for L_, inv in ((m[2], m[3]), (m[3], m[2])):
                        if L_ == ("ref", ps[1]) and inv[0] == "un" and inv[1] == "~" and norm.int_of(inv[2]) is not None:
                            return base, norm.int_of(inv[2]) + 1
        return None

    def low_mask(t):
        """length & (w-1) -> w"""
        t = resolve(t)
        if t[0] == "bin" and t[1] == "&":
            for L_, m in ((t[2], t[3]), (t[3], t[2])):
                if L_ == ("ref", ps[1]) and norm.int_of(m) is not None:
                    return norm.int_of(m) + 1
        return None
    top = ir.kids(ir.body(fn))
    loops = [(i, s_) for i, s_ in enumerate(top) if s_.get("kind") in ("WhileStmt", "ForStmt", "DoStmt") and _loads_in(d, s_)]
    w = None
    endt = None
    if len(loops) != 1:
        rep.inconclusive(R, "murmur_hash<8>", "block loop", where=where, detail="expected one top-level loop with block loads, found %d" % len(loops))
    else:
        li, loop = loops[0]
        cond, parts, body = norm.loop_parts(loop)
        snaps = []

        def on_part2(x, env, lin_of):
            for ln, src, size in _loads_in(d, x):
                snaps.append((ln, _ptr_lin(src, lin_of), size))
        env = norm.sym_step(parts, on_part2)
        pvars = {k_ for _, p_, _ in snaps if p_ is not None for k_ in p_ if k_ != ""}
        c = norm.norm_cmp(ir.sx(cond), lambda x: x[0] == "ref" and x[1] in pvars) if cond is not None else None
        ef = end_form(c[2]) if c is not None and c[0] == "!=" else None
        idx8 = None
        if not snaps or any(p_ is None or sz is None for _, p_, sz in snaps) or len(pvars) != 1 or ef is None:
            idx8 = _IndexForm(d, fn, loop)
        if idx8 is not None and idx8.ok:
            w = idx8.w
            rep.holds(R, "murmur_hash<8>", "block loop", where=d.where(loop),
                      detail="index form: %d-byte loads at base + %d*%s for %s < length / %d" % (idx8.w, idx8.w, idx8.i, idx8.i, idx8.w))
        elif idx8 is not None and idx8.bad:
            rep.violates(R, "murmur_hash<8>", "block loop", where=d.where(idx8.bad[0]), detail=idx8.bad[1])
        elif idx8 is not None:
            rep.inconclusive(R, "murmur_hash<8>", "block loop", where=d.where(loop),
                             detail="neither `while (cursor != base + (length & ~(w-1)))` with linear block loads nor an index loop over length / w: %s" % idx8.why)
        else:
            cursor = pvars.pop()
            base, w = ef
            endt = resolve(c[2])
            dp = env.get(cursor, Lin({cursor: 1})) - Lin({cursor: 1})
            step = dp.get("", 0) if set(dp) <= {""} else None
            problems = []
            if base != ("ref", cursor) and base != resolve(("ref", cursor)) and base != ("ref", ps[0]):
                problems.append("the end pointer is not computed from the cursor's start")
            if step != w:
                problems.append("the cursor advances by %s per iteration but the end pointer is a multiple of %d away: the loop steps over it" % (step if step is not None else dp.show(), w))
            for ln, p_, sz in snaps:
                off = p_.get("", 0)
                if p_.get(cursor) != 1 or off < 0 or off + sz > w:
                    problems.append("a %d-byte load at cursor%+d reaches past the %d-byte block" % (sz, off, w))
            (rep.violates if problems else rep.holds)(R, "murmur_hash<8>", "block loop", where=d.where(loop),
                                                      detail="; ".join(problems) if problems else "end = start + (length & ~%d); loads %s; cursor +%d" % (w - 1, [(p_.get("", 0), sz) for _, p_, sz in snaps], step))
    # the masks applied to the length are folded with the conversions clang recorded: `~0x7u` is a 32-bit mask once widened to size_t
    from .. import ceval
    lname = ps[1]
    for n_ in ir.walk_expr(ir.body(fn)):
        if n_.get("kind") == "BinaryOperator" and n_.get("opcode") == "&":
            sides = ir.ekids(n_)
            for a_, b_ in ((sides[0], sides[1]), (sides[1], sides[0])):
                ra = ir.strip(a_)
                while ra.get("kind") in ("ImplicitCastExpr", "CXXStaticCastExpr", "CXXFunctionalCastExpr", "CStyleCastExpr", "ParenExpr") and ir.ekids(ra):
                    ra = ir.strip(ir.ekids(ra)[-1])
                if ra.get("kind") == "DeclRefExpr" and (ra.get("referencedDecl") or {}).get("name") == lname:
                    try:
                        mv = ceval.conv(ceval.ev(b_, ceval.Ctx(d)), "unsigned long")
                    except (ceval.Unknown, ceval.UB):
                        continue
                    if mv > 0xFF and w is not None:
                        want_m = 0xFFFFFFFFFFFFFFFF ^ (w - 1)
                        (rep.holds if mv == want_m else rep.violates)(R, "murmur_hash<8>", "block mask", where=d.where(n_),
                            detail="length & %#x" % mv if mv == want_m else "the length is masked with %#x, not %#x (the mask is computed in a narrower type and zero-extended): for keys of 4 GiB or more the "
                                   "number of full blocks is taken from the low 32 bits of the length" % (mv, want_m))
    # any block load outside the guarded loop reads past buffer + length for short inputs
    stray = [ln for ln, src, size in _loads_in(d, ir.body(fn)) if not any(ln is x or any(ln is y for y in ir.walk_expr(x)) for _, x in loops)]
    if stray:
        rep.violates(R, "murmur_hash<8>", "block loop", where=d.where(stray[0]), detail="a block load outside the guarded loop reads a whole word regardless of the bytes that remain")
    # tail: load_bytes(end, length & (w-1)) under (length & (w-1)) != 0
    calls = [n for n in ir.walk_expr(ir.body(fn)) if n.get("kind") == "CallExpr" and (ir.strip(ir.ekids(n)[0]).get("referencedDecl") or {}).get("name") == "load_bytes"]
    if w is None or len(calls) != 1:
        rep.inconclusive(R, "murmur_hash<8>", "tail", where=where, detail="block width unknown or no single load_bytes call (%d)" % len(calls))
    else:
        call = calls[0]
        t = ir.sx(call)
        a0, a1 = resolve(t[2]), t[3]
        cw = low_mask(a1)
        ix_ = None
        for _, lp_ in loops:
            cand_ = _IndexForm(d, fn, lp_)
            if cand_.ok:
                ix_ = cand_
        if ix_ is not None:
            # index form: the tail is load_bytes(base + w*q, r) under r != 0, with r = L % w in any spelling
            problems = []
            if not ix_.is_rem(a1):
                problems.append("load_bytes is asked for `%s` bytes, expected the %d-remainder of the length" % (ir.show(ix_.expand(a1))[:40], ix_.w))
            guarded = False
            p_ = d.parent_of(call)
            while p_ is not None and p_ is not fn:
                if p_.get("kind") == "IfStmt":
                    ct = ir.sx(ir.ekids(p_)[0])
                    c2 = norm.norm_cmp(ct, lambda x: ix_.is_rem(x))
                    if (c2 is not None and ((c2[0] == "!=" and norm.int_of(c2[2]) == 0) or (c2[0] == ">" and norm.int_of(c2[2]) == 0) or (c2[0] == ">=" and norm.int_of(c2[2]) == 1))) or ix_.is_rem(ct):
                        guarded = True
                p_ = d.parent_of(p_)
            if not guarded:
                problems.append("the tail is not guarded by remainder != 0: load_bytes(p, 0) reads p[-1]")
            if not ix_.is_end(t[2]):
                problems.append("load_bytes starts at `%s`, not at base + %d * (length / %d)" % (ir.show(ix_.expand(t[2]))[:50], ix_.w, ix_.w))
            (rep.violates if problems else rep.holds)(R, "murmur_hash<8>", "tail", where=d.where(call),
                                                      detail="; ".join(problems) if problems else "load_bytes(base + %d*q, length %% %d) under a non-zero remainder" % (ix_.w, ix_.w))
            return
        guard_w = None
        p_ = d.parent_of(call)
        while p_ is not None and p_ is not fn:
            if p_.get("kind") == "IfStmt":
                ct = ir.sx(ir.ekids(p_)[0])
                c2 = norm.norm_cmp(ct, lambda x: low_mask(x) is not None)
                if c2 is not None and c2[0] == "!=" and norm.int_of(c2[2]) == 0:
                    guard_w = low_mask(c2[1])
                elif low_mask(ct) is not None:
                    guard_w = low_mask(ct)
            p_ = d.parent_of(p_)
        problems = []
        if cw != w:
            problems.append("load_bytes is asked for `%s` bytes, expected length & %d" % (ir.show(resolve(a1))[:40], w - 1))
        if guard_w != w:
            problems.append("the tail is not guarded by (length & %d) != 0 (found mask width %s): load_bytes(p, 0) reads p[-1]" % (w - 1, guard_w))
        if endt is not None and a0 != endt and not (a0[0] == "ref" and a0[1] in pvars_after(loops, d)):
            problems.append("load_bytes starts at `%s`, not at the end of the full blocks" % ir.show(a0)[:50])
        (rep.violates if problems else rep.holds)(R, "murmur_hash<8>", "tail", where=d.where(call),
                                                  detail="; ".join(problems) if problems else "load_bytes(end of blocks, length & %d) under (length & %d) != 0" % (w - 1, w - 1))


def pvars_after(loops, d):
    """the cursor variable(s) of the block loop: after the loop the cursor equals the end pointer"""
    from .. import norm
    out = set()
    for _, loop in loops:
        for ln, src, size in _loads_in(d, loop):
            s_ = ir.strip(src)
            while s_.get("kind") in ("ImplicitCastExpr", "CStyleCastExpr", "CXXStaticCastExpr") and ir.ekids(s_):
                s_ = ir.strip(ir.ekids(s_)[-1])
            if s_.get("kind") == "DeclRefExpr":
                out.add((s_.get("referencedDecl") or {}).get("name"))
    return out


def fs_local_sx(fn):
    from .. import fstring as fs
    return fs.local_sx(fn)


def subscripts_of(node):
    for n in [node] + list(ir.walk_expr(node)):
        if n.get("kind") == "ArraySubscriptExpr":
            a, b = ir.ekids(n)
            yield n, a, b


def case_labels(stmts, nvar):
    out = set()
    for s_ in stmts:
        for n in [s_] + list(ir.walk_expr(s_)):
            if n.get("kind") == "CaseStmt":
                iv = trange.interval(ir.ekids(n)[0])
                if iv is not None and iv[0] == iv[1]:
                    out.add(iv[0])
    return out


def run(tier):
    rep = Report("C14", tier, "other",
                 "Structural conditions on the resolved AST: forwarding of (buffer, length, seed), the std::hash call site, an "
                 "effect/address-independence lint, zero-extension of byte reads, cursor discipline of every read against the "
                 "remaining length, and equality of the normalised operation sequence with the reference MurmurHash2/64A "
                 "(constants, shifts, order).  Equality of the hash value with the reference for every input is not decided as such.",
                 trusted_base=["clang 14 resolved AST", "reference sequences REF_X86/REF_X64/REF_LOAD transcribed from MurmurHash2.cpp in sa/rules/c14.py"],
                 assumptions=["x86-64 LP64 (sizeof(size_t) == 8, little-endian block loads as in the reference)"])
    d = cj.dump(DRV_XTL, "xtl::")
    rep.cmd(d.cmd)
    fns = {}
    for f in ir.functions(d):
        nm = f.get("name")
        if nm == "murmur2_x86_impl":
            fns["x86"] = f
        elif nm == "load_bytes":
            fns["load"] = f
        elif nm == "murmur_hash":
            ta = ir.template_args(f)
            if ta == ["8"]:
                fns["x64"] = f
            elif ta == ["4"]:
                fns["murmur_hash<4>"] = f
        elif nm in ("hash_bytes", "murmur2_x86", "murmur2_x64"):
            fns[nm] = f
    missing = [k for k in ("x86", "x64", "load", "hash_bytes", "murmur2_x86", "murmur2_x64", "murmur_hash<4>") if k not in fns]
    if missing:
        raise cj.AnalysisBroken("hash functions not found: %s" % missing)
    rule_entry(rep, d, fns)
    rule_std_hash(rep)
    rule_addr(rep, d, fns)
    rule_byte(rep, d, fns)
    rule_tail_reads(rep, d, fns)
    rule_cursor(rep, d, fns)
    rule_const(rep, d, fns)
    rule_len(rep)
    rep.unit("7 functions of xhash.hpp + std::hash<xbasic_fixed_string>::operator()")
    return rep
