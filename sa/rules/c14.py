"""C14 — byte hashes are pure functions of the bytes and equal reference MurmurHash2 / MurmurHash64A.

Decided structurally: call-site arguments, effect/address-independence lint over the call graph, zero-extended byte
reads, cursor discipline (every read is covered by the remaining length), and agreement of the normalised operation
sequence with the reference algorithms (constants, order, shifts).  Value equality for every input is not decided.
"""
import re
from .. import clangjson as cj
from .. import ir
from .. import trange
from ..report import Report

DRV_XTL = '#include "xtl/xhash.hpp"\nstd::size_t verif_use(const void* p){ return xtl::hash_bytes(p, 3, 1) + xtl::murmur2_x86(p, 3, 1) + xtl::murmur2_x64(p, 3, 1); }\n'
DRV_STD = ('#include "xtl/xbasic_fixed_string.hpp"\n'
           'std::size_t verif_use(const xtl::xfixed_string<8>& s){ return std::hash<xtl::xfixed_string<8>>()(s); }\n')

ALLOWED_CALLEES = {"memcpy", "load_bytes", "murmur2_x86_impl", "murmur_hash", "mmix"}


def canon(t, names):
    """rename variables by order of first appearance; normalise compound assignment and commutative operands"""
    if not isinstance(t, tuple):
        return t
    k = t[0]
    if k == "ref":
        if t[1] not in names:
            names[t[1]] = "v%d" % len(names)
        return ("ref", names[t[1]])
    if k == "cast":
        return canon(t[3], names)      # integral casts between same-width unsigned types are checked by C14.byte
    if k == "bin":
        op = t[1]
        a, b = canon(t[2], names), canon(t[3], names)
        if op.endswith("=") and op not in ("==", "!=", "<=", ">=", "="):
            return ("bin", "=", a, canon_comm(op[:-1], a, b))
        return canon_comm(op, a, b) if op != "=" else ("bin", "=", a, b)
    if k == "lit":
        v = str(t[1])
        return ("lit", int(v)) if re.fullmatch(r"-?\d+", v) else t
    if k == "call":
        return ("call", t[1]) + tuple(canon(x, names) for x in t[2:])
    return (k,) + tuple(canon(x, names) for x in t[1:])


def canon_comm(op, a, b):
    if op in ("*", "^", "+", "&", "|") and str(b) < str(a):
        a, b = b, a
    return ("bin", op, a, b)


def effect_sequence(fn):
    """normalised list of the function's effects in source order (declarations with initialisers, assignments,
    compound assignments, increments, calls, returns, loop/switch/if headers)"""
    names = {}
    out = []
    for p in ir.params(fn):
        names[p.get("name")] = "p%d" % len([v for v in names.values() if v.startswith("p")])

    def visit(s):
        k = s.get("kind")
        if k == "CompoundStmt":
            for c in ir.kids(s):
                visit(c)
        elif k == "DeclStmt":
            for v in ir.kids(s):
                if v.get("kind") == "VarDecl":
                    init = ir.ekids(v)
                    names.setdefault(v.get("name"), "v%d" % len(names))
                    if init:
                        out.append(("decl", ("ref", names[v.get("name")]), canon(ir.sx(init[-1]), names)))
                    else:
                        out.append(("decl", ("ref", names[v.get("name")]), None))
        elif k == "WhileStmt":
            ks = ir.ekids(s)
            out.append(("while", canon(ir.sx(ks[0]), names)))
            visit(ks[1])
            out.append(("end",))
        elif k == "DoStmt":
            ks = ir.ekids(s)
            out.append(("do",))
            visit(ks[0])
            out.append(("dowhile", canon(ir.sx(ks[1]), names)))
        elif k == "ForStmt":
            raw = [c for c in s.get("inner", [])]
            out.append(("for",) + tuple(canon(ir.sx(c), names) if isinstance(c, dict) and c.get("kind") and c.get("kind") != "CompoundStmt" and "Stmt" not in c.get("kind") else None for c in raw[:4]))
            visit(raw[-1])
            out.append(("end",))
        elif k == "IfStmt":
            ks = ir.ekids(s)
            out.append(("if", canon(ir.sx(ks[0]), names)))
            visit(ks[1])
            if len(ks) > 2:
                out.append(("else",))
                visit(ks[2])
            out.append(("end",))
        elif k == "SwitchStmt":
            ks = ir.ekids(s)
            out.append(("switch", canon(ir.sx(ks[0]), names)))
            visit(ks[-1])
            out.append(("end",))
        elif k == "CaseStmt":
            ks = ir.ekids(s)
            out.append(("case", canon(ir.sx(ks[0]), names)))
            for c in ks[1:]:
                visit(c)
        elif k == "DefaultStmt":
            out.append(("default",))
            for c in ir.ekids(s):
                visit(c)
        elif k == "ReturnStmt":
            ks = ir.ekids(s)
            out.append(("return", canon(ir.sx(ks[0]), names) if ks else None))
        elif k in ("NullStmt",):
            pass
        elif k == "BreakStmt":
            out.append(("break",))
        else:
            out.append(canon(ir.sx(s), names))
    visit(ir.body(fn))
    return out, names


def show_eff(e):
    def sh(t):
        if t is None:
            return "-"
        if isinstance(t, tuple) and t and t[0] in ("ref", "lit", "bin", "un", "call", "cond", "index", "mem", "cast", "sizeof", "construct"):
            if t[0] == "lit" and isinstance(t[1], int) and t[1] > 255:
                return hex(t[1])
            return ir.show(tuple(sh2(x) for x in t))
        return str(t)

    def sh2(x):
        if isinstance(x, tuple) and x and x[0] == "lit" and isinstance(x[1], int) and x[1] > 255:
            return ("lit", hex(x[1]))
        if isinstance(x, tuple):
            return tuple(sh2(y) for y in x)
        return x
    return "%s %s" % (e[0], " ".join(sh(x) for x in e[1:])) if e and e[0] in ("decl", "while", "dowhile", "if", "switch", "case", "return", "for") else sh(e)


# Reference operation sequences (MurmurHash2 and MurmurHash64A by Austin Appleby), in the same normal form.
# Written from the reference algorithm, with the variable numbering the xtl functions produce.
def R(x):
    return ("ref", x)


def L(x):
    return ("lit", x)


def B(op, a, b):
    return canon_comm(op, a, b) if op not in ("=",) else ("bin", "=", a, b)


M32 = 0x5bd1e995
REF_X86 = [
    ("decl", R("v3"), L(M32)),                                  # m
    ("decl", R("v4"), R("p1")),                                 # len = length
    ("decl", R("v5"), B("^", R("p2"), R("v4"))),                # h = seed ^ len
    ("decl", R("v6"), R("p0")),                                 # data = buffer
    ("while", B(">=", R("v4"), L(4))),
    ("decl", R("v7"), None),                                    # k
    ("call", R("memcpy"), ("un", "&", R("v7")), R("v6"), ("sizeof", "sizeof", R("v7"))),
    B("=", R("v7"), B("*", R("v7"), R("v3"))),
    B("=", R("v7"), B("^", R("v7"), B(">>", R("v7"), L(24)))),
    B("=", R("v7"), B("*", R("v7"), R("v3"))),
    B("=", R("v5"), B("*", R("v5"), R("v3"))),
    B("=", R("v5"), B("^", R("v5"), R("v7"))),
    B("=", R("v6"), B("+", R("v6"), L(4))),
    B("=", R("v4"), B("-", R("v4"), L(4))),
    ("end",),
    ("switch", R("v4")),
    ("case", L(3)), B("=", R("v5"), B("^", R("v5"), B("<<", ("index", R("v6"), L(2)), L(16)))),
    ("case", L(2)), B("=", R("v5"), B("^", R("v5"), B("<<", ("index", R("v6"), L(1)), L(8)))),
    ("case", L(1)), B("=", R("v5"), B("^", R("v5"), ("index", R("v6"), L(0)))),
    B("=", R("v5"), B("*", R("v5"), R("v3"))),
    ("end",),
    B("=", R("v5"), B("^", R("v5"), B(">>", R("v5"), L(13)))),
    B("=", R("v5"), B("*", R("v5"), R("v3"))),
    B("=", R("v5"), B("^", R("v5"), B(">>", R("v5"), L(15)))),
    ("return", R("v5")),
]
M64 = 0xc6a4a7935bd1e995
REF_X64 = [
    ("decl", R("v3"), B("+", B("<<", L(0xc6a4a793), L(32)), L(0x5bd1e995))),    # m
    ("decl", R("v4"), L(47)),                                                   # r
    ("decl", R("v5"), R("p0")),                                                 # data
    ("decl", R("v6"), B("+", R("v5"), B("&", R("p1"), ("un", "~", L(7))))),     # end = data + (length & ~7)
    ("decl", R("v7"), B("^", R("p2"), B("*", R("p1"), R("v3")))),               # hash = seed ^ (length * m)
    ("while", B("!=", R("v5"), R("v6"))),
    ("decl", R("v8"), None),
    ("call", R("memcpy"), ("un", "&", R("v8")), R("v5"), ("sizeof", "sizeof", R("v8"))),
    B("=", R("v8"), B("*", R("v8"), R("v3"))),
    B("=", R("v8"), B("^", R("v8"), B(">>", R("v8"), R("v4")))),
    B("=", R("v8"), B("*", R("v8"), R("v3"))),
    B("=", R("v7"), B("^", R("v7"), R("v8"))),
    B("=", R("v7"), B("*", R("v7"), R("v3"))),
    B("=", R("v5"), B("+", R("v5"), L(8))),
    ("end",),
    ("if", B("!=", B("&", R("p1"), L(7)), L(0))),
    ("decl", R("v8"), ("call", R("load_bytes"), R("v6"), B("&", R("p1"), L(7)))),
    B("=", R("v7"), B("^", R("v7"), R("v8"))),
    B("=", R("v7"), B("*", R("v7"), R("v3"))),
    ("end",),
    B("=", R("v7"), B("^", R("v7"), B(">>", R("v7"), R("v4")))),
    B("=", R("v7"), B("*", R("v7"), R("v3"))),
    B("=", R("v7"), B("^", R("v7"), B(">>", R("v7"), R("v4")))),
    ("return", R("v7")),
]
REF_LOAD = [
    ("decl", R("v2"), L(0)),
    ("un", "--", R("p1")),
    ("do",),
    B("=", R("v2"), B("+", B("<<", R("v2"), L(8)), ("index", R("p0"), R("p1")))),
    ("dowhile", B(">=", ("un", "--", R("p1")), L(0))),
    ("return", R("v2")),
]


def shape(t):
    """term with all integer literals replaced by '#': equal shapes differ in constants only"""
    if isinstance(t, tuple):
        if t and t[0] == "lit" and isinstance(t[1], int):
            return ("lit", "#")
        return tuple(shape(x) for x in t)
    return t


def rule_const(rep, d, fns):
    rep.rule("C14.const", "the normalised operation sequence of murmur2_x86_impl / murmur_hash<8> / load_bytes equals the reference "
                          "MurmurHash2 / MurmurHash64A sequence (constants m, r, shift amounts, tail (index, shift) pairs, order of the mixes)")
    for label, fn, ref in (("murmur2_x86_impl", fns["x86"], REF_X86), ("murmur_hash<8>", fns["x64"], REF_X64), ("load_bytes", fns["load"], REF_LOAD)):
        seq, names = effect_sequence(fn)
        where = d.where(fn)
        if len(seq) != len(ref) or any(shape(a) != shape(b) for a, b in zip(seq, ref)):
            i = next((i for i, (a, b) in enumerate(zip(seq, ref)) if shape(a) != shape(b)), min(len(seq), len(ref)))
            got = show_eff(seq[i]) if i < len(seq) else "<end>"
            want = show_eff(ref[i]) if i < len(ref) else "<end>"
            # a different statement structure: cannot be matched against the reference -> not a verdict
            rep.inconclusive("C14.const", label, "operation sequence", where=where,
                             detail="statement %d has a different shape than the reference algorithm: found `%s`, reference `%s`" % (i + 1, got, want))
            continue
        bad = [(i, a, b) for i, (a, b) in enumerate(zip(seq, ref)) if a != b]
        if bad:
            for i, a, b in bad:
                rep.violates("C14.const", label, "step %d" % (i + 1), where=where,
                             detail="found `%s`, the reference algorithm has `%s`" % (show_eff(a), show_eff(b)))
        else:
            rep.holds("C14.const", label, "operation sequence", where=where, detail="%d steps equal the reference" % len(ref))


def rule_entry(rep, d, fns):
    rep.rule("C14.site", "entry points forward (buffer, length, seed) unchanged and in order; std::hash<xbasic_fixed_string> hashes "
                         "exactly (data(), size(), constant seed)")
    table = [("hash_bytes", "murmur_hash", ["buffer", "length", "seed"]),
             ("murmur2_x86", "murmur2_x86_impl", ["buffer", "length", "seed"]),
             ("murmur2_x64", "murmur_hash", ["buffer", "length", "seed"]),
             ("murmur_hash<4>", "murmur2_x86_impl", ["buffer", "length", "seed"])]
    for name, callee, _ in table:
        fn = fns.get(name)
        if fn is None:
            rep.inconclusive("C14.site", name, "forwarding", detail="function not found")
            continue
        ps = [p.get("name") for p in ir.params(fn)]
        rets = [s for s in ir.walk_expr(ir.body(fn)) if s.get("kind") == "ReturnStmt"]
        t = ir.sx(ir.ekids(rets[0])[0]) if len(rets) == 1 else None
        while t is not None and t[0] == "cast":
            t = t[3]
        ok = False
        got = ir.show(t) if t else "?"
        if t is not None and t[0] == "call" and len(t) == 5:
            cn = t[1][1] if t[1][0] == "ref" else "?"
            args = []
            for a in t[2:]:
                while a[0] == "cast":
                    a = a[3]
                args.append(a)
            ok = cn == callee and args == [("ref", p) for p in ps]
        if name == "murmur2_x64" and ok:
            # must select the 64-bit specialisation
            call = [c for c in ir.walk_expr(ir.body(fn)) if c.get("kind") == "CallExpr"][0]
            callee_decl = ir.strip(ir.ekids(call)[0]).get("referencedDecl", {})
            tgt = d.by_id.get(callee_decl.get("id"))
            targs = ir.template_args(tgt) if tgt else []
            ok = targs == ["8"]
            got += " [murmur_hash<%s>]" % ",".join(targs)
        if name == "hash_bytes" and ok:
            call = [c for c in ir.walk_expr(ir.body(fn)) if c.get("kind") == "CallExpr"][0]
            tgt = d.by_id.get(ir.strip(ir.ekids(call)[0]).get("referencedDecl", {}).get("id"))
            targs = ir.template_args(tgt) if tgt else []
            ok = targs == ["8"]        # sizeof(std::size_t) on this target
            got += " [murmur_hash<%s>]" % ",".join(targs)
        (rep.holds if ok else rep.violates)("C14.site", name, "forwarding", where=d.where(fn),
                                            detail=got if ok else "must return %s(%s); found `%s`" % (callee, ", ".join(ps), got))


def rule_std_hash(rep):
    d = cj.dump(DRV_STD, "hash<")
    rep.cmd(d.cmd)
    ops = [f for f in ir.functions(d) if f.get("name") == "operator()" and "xbasic_fixed_string" in d.where(f)]
    pats = [f for f in ops if ir.is_template_pattern(d, f)] or ops
    if not pats:
        rep.inconclusive("C14.site", "std::hash<xbasic_fixed_string>", "call site", detail="specialisation not found")
        return
    fn = pats[0]
    pname = ir.params(fn)[0].get("name")
    rets = [s for s in ir.walk_expr(ir.body(fn)) if s.get("kind") == "ReturnStmt"]
    t = ir.sx(ir.ekids(rets[0])[0]) if len(rets) == 1 else None
    got = ir.show(t) if t else "?"
    ok = False
    why = ""
    if t is not None and t[0] == "call" and len(t) == 5 and ir.show(t[1]).endswith("hash_bytes"):
        a, b, c = t[2], t[3], t[4]
        strip = lambda x: strip(x[3]) if x[0] == "cast" else x
        a, b, c = strip(a), strip(b), strip(c)
        is_acc = lambda x, names: x[0] == "call" and len(x) == 2 and x[1][0] == "mem" and x[1][1] == ("ref", pname) and x[1][2] in names
        ok_a = is_acc(a, ("data", "c_str"))
        ok_b = is_acc(b, ("size", "length")) or (b[0] == "bin" and b[1] == "*" and (is_acc(b[2], ("size", "length")) or is_acc(b[3], ("size", "length")))
                                                 and any(x[0] == "sizeof" for x in (b[2], b[3])))
        ok_c = c[0] == "lit"
        ok = ok_a and ok_b and ok_c
        why = "; ".join(w for w, o in (("data argument must be %s.data()" % pname, ok_a), ("length argument must be %s.size() [* sizeof(char type)]" % pname, ok_b),
                                       ("seed must be a constant", ok_c)) if not o)
    (rep.holds if ok else rep.violates)("C14.site", "std::hash<xbasic_fixed_string>", "call site", where=d.where(fn),
                                        detail=got if ok else "%s; found `%s`" % (why or "must be hash_bytes(arg.data(), arg.size(), <constant>)", got))


def rule_addr(rep, d, fns):
    rep.rule("C14.addr", "hash functions are address independent and effect free: no pointer-to-integer conversion, no non-local "
                         "state, callees only memcpy/load_bytes/the hash kernels, block loads through memcpy (never through a cast to a "
                         "wider pointer type)")
    for label in ("x86", "x64", "load", "hash_bytes", "murmur2_x86", "murmur2_x64", "murmur_hash<4>"):
        fn = fns.get(label)
        if fn is None:
            continue
        name = fn.get("name") if label in ("x86", "x64", "load") else label
        problems = []
        for n in ir.walk_expr(ir.body(fn)):
            k = n.get("kind")
            if n.get("castKind") == "PointerToIntegral":
                problems.append((n, "converts a pointer to an integer (`%s`): the result would depend on the buffer's address" % d.text(n)[:60]))
            if k in ("CStyleCastExpr", "CXXReinterpretCastExpr", "CXXStaticCastExpr") and n.get("castKind") == "BitCast":
                to = ir.qtype(n)
                if "*" in to and not re.search(r"\b(unsigned char|char|void)\b", to):
                    problems.append((n, "reinterprets the byte buffer as `%s` (alignment/aliasing dependent load)" % to))
            if k == "DeclRefExpr":
                rd = n.get("referencedDecl") or {}
                if rd.get("kind") == "VarDecl":
                    tgt = d.by_id.get(rd.get("id"))
                    par = d.parent_of(tgt) if tgt else None
                    if tgt is not None and par is not None and par.get("kind") in ("NamespaceDecl", "TranslationUnitDecl", "CXXRecordDecl"):
                        q = ir.qtype(tgt)
                        if not (tgt.get("constexpr") or q.startswith("const ")):
                            problems.append((n, "reads non-local mutable variable `%s`" % rd.get("name")))
                    elif tgt is not None and tgt.get("storageClass") == "static":
                        problems.append((n, "uses function-local static `%s`" % rd.get("name")))
            if k == "CallExpr":
                t = ir.sx(n)
                cn = t[1][1] if t[1][0] == "ref" else ir.show(t[1])
                if cn not in ALLOWED_CALLEES:
                    problems.append((n, "calls `%s`, which is outside the hash's closed call graph" % cn))
        if problems:
            for n, why in problems:
                rep.violates("C14.addr", name, "effect `%s`" % d.text(n)[:40].replace("\n", " "), where=d.where(n), detail=why)
        else:
            rep.holds("C14.addr", name, "effects", where=d.where(fn))


def rule_byte(rep, d, fns):
    rep.rule("C14.byte", "every byte read that enters the hash arithmetic is zero-extended (its value interval is [0,255])")
    for label in ("x86", "load"):
        fn = fns[label]
        for n in ir.walk_expr(ir.body(fn)):
            if n.get("kind") != "ArraySubscriptExpr":
                continue
            # climb while the parent is a cast: the value entering arithmetic is the outermost cast
            top = n
            p = d.parent_of(top)
            while p is not None and p.get("kind") in ("ImplicitCastExpr", "CXXStaticCastExpr", "CStyleCastExpr", "CXXFunctionalCastExpr", "ParenExpr"):
                # stop before a widening to the hash word: we need the interval *of the byte as widened*
                top = p
                p = d.parent_of(top)
            iv = trange.interval(top)
            txt = d.text(n)[:40]
            if iv is not None and 0 <= iv[0] and iv[1] <= 255:
                rep.holds("C14.byte", fn.get("name"), "byte read `%s`" % txt, where=d.where(n), detail="value in [%d,%d]" % iv)
            else:
                rep.violates("C14.byte", fn.get("name"), "byte read `%s`" % txt, where=d.where(n),
                             detail="the byte enters the arithmetic as `%s` with interval %s: bytes >= 0x80 are sign-extended or truncated" % (
                                 d.text(top)[:60], iv))


def rule_tail_reads(rep, d, fns):
    """the tail helper load_bytes(p, n) may read p[0..n-1] only: a fixed-width memcpy from p reads past buffer + length"""
    fn = fns["load"]
    ps = [p.get("name") for p in ir.params(fn)]
    found = 0
    for n in ir.walk_expr(ir.body(fn)):
        if n.get("kind") != "CallExpr":
            continue
        t = ir.sx(n)
        if t[0] == "call" and t[1] in (("ref", "memcpy"), ("ref", "memmove")) and len(t) == 5:
            src, size = t[3], t[4]
            if any(s_ == ("ref", ps[0]) for s_ in ir.subterms(src)):
                found += 1
                if not any(s_ == ("ref", ps[1]) for s_ in ir.subterms(size)):
                    rep.violates("C14.byte", fn.get("name"), "bulk read `%s`" % d.text(n)[:50], where=d.where(n),
                                 detail="copies `%s` bytes from the input regardless of the `%s` bytes that remain: for an exact-size key the read runs past buffer + length" % (
                                     ir.show(size), ps[1]))
                else:
                    rep.holds("C14.byte", fn.get("name"), "bulk read `%s`" % d.text(n)[:50], where=d.where(n), detail="size bounded by %s" % ps[1])
    return found


def lit_int(t):
    return t[1] if t[0] == "lit" and isinstance(t[1], int) else None


def var_op_lit(t, ops):
    """`x op k` (either operand order for commutative ops) -> (x, op, k) else None"""
    if t[0] == "bin" and t[1] in ops:
        if lit_int(t[3]) is not None:
            return t[2], t[1], lit_int(t[3])
        if t[1] in ("+", "&", "*", "^", "|") and lit_int(t[2]) is not None:
            return t[3], t[1], lit_int(t[2])
    return None


def rule_cursor(rep, d, fns):
    rep.rule("C14.cursor", "each read is covered by the remaining length: block loads of w bytes sit in a loop guarded by remaining >= w "
                           "(or by an end pointer computed with & ~(w-1)), the cursor and the remaining length advance by w, tail cases read "
                           "only indices below the smallest case label that reaches them, and load_bytes(p, n) is called with n = length & (w-1) != 0")
    # ---- 32-bit kernel ----
    seq, _ = effect_sequence(fns["x86"])
    fn = fns["x86"]
    where = d.where(fn)
    cur = None
    width_ok = True
    i = 0
    guard = None
    reads = []
    while i < len(seq):
        e = seq[i]
        if e[0] == "while" and e[1][0] == "bin" and e[1][1] == ">=":
            guard = lit_int(e[1][3])
            j = i + 1
            loads, steps = [], []
            while seq[j] != ("end",):
                s = seq[j]
                if s[0] == "call" and s[1] == ("ref", "memcpy"):
                    sz = s[4]
                    loads.append(4 if sz[0] == "sizeof" else lit_int(sz))
                vk = var_op_lit(s[3], ("+", "-")) if s[0] == "bin" and s[1] == "=" else None
                if vk is not None and vk[0] == s[2]:
                    steps.append((vk[1], vk[2]))
                j += 1
            ok = guard is not None and all(l is not None and l <= guard for l in loads) and sorted(steps) == [("+", guard), ("-", guard)] and loads
            (rep.holds if ok else rep.violates)("C14.cursor", "murmur2_x86_impl", "block loop", where=where,
                                                detail="guard remaining >= %s, loads %s, steps %s" % (guard, loads, steps))
            i = j
        if e[0] == "switch":
            labels = []
            j = i + 1
            while seq[j] != ("end",):
                s = seq[j]
                if s[0] == "case":
                    labels.append(lit_int(s[1]))
                else:
                    idxs = [lit_int(t[2]) for t in ir.subterms(s) if isinstance(t, tuple) and t and t[0] == "index"]
                    for ix in idxs:
                        # reached by every label seen so far (fall-through) - the smallest one bounds the index
                        lim = min(labels) if labels else 0
                        ok = ix is not None and ix < lim
                        (rep.holds if ok else rep.violates)("C14.cursor", "murmur2_x86_impl", "tail read data[%s]" % ix, where=where,
                                                            detail="reached with remaining in %s; index must be < %s" % (sorted(labels), lim))
                j += 1
            if guard is not None and labels and max(labels) != guard - 1:
                rep.violates("C14.cursor", "murmur2_x86_impl", "tail cases", where=where,
                             detail="tail handles remainders %s but the block loop leaves up to %d bytes" % (sorted(labels), guard - 1))
            elif labels:
                rep.holds("C14.cursor", "murmur2_x86_impl", "tail cases", where=where, detail="cases %s cover remainders 1..%d" % (sorted(labels), guard - 1))
            i = j
        i += 1
    # ---- 64-bit kernel ----
    seq, _ = effect_sequence(fns["x64"])
    fn = fns["x64"]
    where = d.where(fn)
    mask_end = None
    for e in seq:
        if e[0] == "decl" and e[2] is not None and e[2][0] == "bin" and e[2][1] == "+":
            for t in ir.subterms(e[2]):
                if t[0] == "bin" and t[1] == "&" and any(x[0] == "un" and x[1] == "~" for x in t[2:]):
                    inv = [x for x in t[2:] if x[0] == "un" and x[1] == "~"][0]
                    mask_end = lit_int(inv[2])
    loads, steps, tailmask, callmask = [], [], None, None
    in_loop = False
    for e in seq:
        if e[0] == "while":
            in_loop = True
        if e == ("end",):
            in_loop = False
        if e[0] == "call" and e[1] == ("ref", "memcpy"):
            loads.append((in_loop, 8 if e[4][0] == "sizeof" else lit_int(e[4])))
        vk = var_op_lit(e[3], ("+",)) if in_loop and e[0] == "bin" and e[1] == "=" else None
        if vk is not None and vk[0] == e[2]:
            steps.append(vk[2])
        if e[0] == "if":
            for t in ir.subterms(e[1]):
                vk = var_op_lit(t, ("&",))
                if vk is not None:
                    tailmask = vk[2]
        if e[0] == "decl" and e[2] is not None and e[2][0] == "call" and e[2][1] == ("ref", "load_bytes"):
            for t in ir.subterms(e[2][3]):
                vk = var_op_lit(t, ("&",))
                if vk is not None:
                    callmask = vk[2]
    w = mask_end + 1 if mask_end is not None else None
    ok = w is not None and loads and all(inl and sz is not None and sz <= w for inl, sz in loads) and steps == [w]
    (rep.holds if ok else rep.violates)("C14.cursor", "murmur_hash<8>", "block loop", where=where,
                                        detail="end = data + (length & ~%s); loads (in loop?, size) %s; cursor steps %s%s" % (
                                            mask_end, loads, steps, "" if ok else " - a load outside the guarded loop or wider than the block reads past buffer+length"))
    ok = w is not None and tailmask == w - 1 and callmask == w - 1
    (rep.holds if ok else rep.violates)("C14.cursor", "murmur_hash<8>", "tail", where=where,
                                        detail="tail guard mask %s, load_bytes count mask %s, block width %s" % (tailmask, callmask, w))


def run(tier):
    rep = Report("C14", tier, "other",
                 "Structural conditions on the resolved AST: forwarding of (buffer, length, seed), the std::hash call site, an "
                 "effect/address-independence lint, zero-extension of byte reads, cursor discipline of every read against the "
                 "remaining length, and equality of the normalised operation sequence with the reference MurmurHash2/64A "
                 "(constants, shifts, order).  Equality of the hash value with the reference for every input is not decided as such.",
                 trusted_base=["clang 14 resolved AST", "reference sequences REF_X86/REF_X64/REF_LOAD transcribed from MurmurHash2.cpp in sa/rules/c14.py"],
                 assumptions=["x86-64 LP64 (sizeof(size_t) == 8, little-endian block loads as in the reference)"])
    d = cj.dump(DRV_XTL, "xtl::")
    rep.cmd(d.cmd)
    fns = {}
    for f in ir.functions(d):
        nm = f.get("name")
        if nm == "murmur2_x86_impl":
            fns["x86"] = f
        elif nm == "load_bytes":
            fns["load"] = f
        elif nm == "murmur_hash":
            ta = ir.template_args(f)
            if ta == ["8"]:
                fns["x64"] = f
            elif ta == ["4"]:
                fns["murmur_hash<4>"] = f
        elif nm in ("hash_bytes", "murmur2_x86", "murmur2_x64"):
            fns[nm] = f
    missing = [k for k in ("x86", "x64", "load", "hash_bytes", "murmur2_x86", "murmur2_x64", "murmur_hash<4>") if k not in fns]
    if missing:
        raise cj.AnalysisBroken("hash functions not found: %s" % missing)
    rule_entry(rep, d, fns)
    rule_std_hash(rep)
    rule_addr(rep, d, fns)
    rule_byte(rep, d, fns)
    rule_tail_reads(rep, d, fns)
    rule_cursor(rep, d, fns)
    rule_const(rep, d, fns)
    rep.unit("7 functions of xhash.hpp + std::hash<xbasic_fixed_string>::operator()")
    return rep
