"""C11 — optional/complex vectors keep their parallel storages in lockstep, indexed alike.

Sibling-storage pairing: in every member of the two container families each use of the first storage (values / real)
must be mirrored, in order, by the corresponding use of the second (flags / imag) - same operation, same size/index
argument, and the fill argument that the family's table prescribes.  Plus default-initialisation witnesses.
The iterator primitives' lockstep is decided by C12.step; at() of the flag bitset by C03.
"""
import re
from .. import clangjson as cj
from .. import ir
from ..report import Report
from ..witness import WitnessTU

DRIVER = '#include "xtl/xoptional_sequence.hpp"\n#include "xtl/xcomplex_sequence.hpp"\n'

FAMILIES = {
    "optional": dict(classes=("xoptional_sequence", "xoptional_vector", "xoptional_array"), a="m_values", b="m_flags",
                     acc_a="value", acc_b="has_value", skip=("value", "has_value", "size", "empty", "max_size")),
    "complex": dict(classes=("xcomplex_sequence", "xcomplex_vector", "xcomplex_array"), a="m_real", b="m_imag",
                    acc_a="real", acc_b="imag", skip=("real", "imag", "size", "empty", "max_size")),
}


def mentions(t, member):
    return any(isinstance(s, tuple) and s[0] == "mem" and s[2] == member and s[1] in (("this",), ("un", "*", ("this",))) or
               (isinstance(s, tuple) and s[0] == "mem" and s[2] == member and s[1][0] == "this") for s in ir.subterms(t))


def is_member(t, member):
    return isinstance(t, tuple) and t[0] == "mem" and t[2] == member and (t[1] == ("this",) or t[1][0] == "this")


CAPACITY_ONLY = {"reserve", "shrink_to_fit", "capacity", "max_size", "get_allocator"}


def maximal_uses(t, member, out):
    """smallest call/subscript/bare expressions on this->member, in source order"""
    if not isinstance(t, tuple):
        return
    k = t[0]
    if k == "call" and t[1][0] == "mem" and is_member(t[1][1], member):
        if t[1][2] not in CAPACITY_ONLY:          # reserve()/shrink_to_fit()/capacity() change no length and no element: nothing to mirror
            out.append(t)
        for a in t[2:]:
            maximal_uses(a, member, out)
        return
    if k == "index" and is_member(t[1], member):
        out.append(t)
        maximal_uses(t[2], member, out)
        return
    if is_member(t, member):
        out.append(t)
        return
    for x in t[1:]:
        maximal_uses(x, member, out)


def tau(t, fam, plain_params):
    """expected second-storage term for a first-storage term"""
    f = FAMILIES[fam]
    if not isinstance(t, tuple):
        return t
    if t[0] == "mem" and t[2] == f["a"]:
        return ("mem", t[1], f["b"])
    if t[0] == "mem" and t[2] == f["acc_a"]:
        return ("mem", tau(t[1], fam, plain_params), f["acc_b"])
    return (t[0],) + tuple(tau(x, fam, plain_params) for x in t[1:])


def expected_b(t, fam, plain_params):
    """all acceptable second-storage terms for first-storage term t"""
    base = tau(t, fam, plain_params)
    alts = [base]
    if fam == "optional" and t[0] == "call" and t[1][0] == "mem" and t[1][2] in ("resize", "assign"):
        args = list(t[2:])
        head = base[:2]
        if len(args) == 1:
            alts = [head + (base[2], ("lit", "false"))]                       # new elements default to missing
        elif len(args) == 2 and args[1][0] == "ref" and args[1][1] in plain_params:
            alts = [head + (base[2], ("lit", "true"))]                        # a plain value is present
    return alts


def strip_casts(t):
    if not isinstance(t, tuple):
        return t
    if t[0] == "cast":
        return strip_casts(t[3])
    if t[0] == "construct" and len(t) == 3:
        return strip_casts(t[2])
    return (t[0],) + tuple(strip_casts(x) for x in t[1:])


def function_terms(fn):
    """all expression roots of a function: ctor initialisers (as ('init', field, expr)) and body statements"""
    roots = []
    for k in ir.kids(fn):
        if k.get("kind") == "CXXCtorInitializer":
            field = (k.get("anyInit") or {}).get("name")
            e = ir.ekids(k)
            if field and e:
                roots.append(("init", field, strip_casts(ir.sx(e[0]))))
    b = ir.body(fn)
    if b is not None:
        for s in ir.kids(b):
            if s.get("kind") == "ReturnStmt":
                if ir.ekids(s):
                    roots.append(("stmt", None, strip_casts(ir.sx(ir.ekids(s)[0]))))
            elif s.get("kind") == "DeclStmt":
                for v in ir.kids(s):
                    if v.get("kind") == "VarDecl" and ir.ekids(v):
                        roots.append(("stmt", None, strip_casts(ir.sx(ir.ekids(v)[-1]))))
            else:
                roots.append(("stmt", None, strip_casts(ir.sx(s))))
    return roots


def param_only_difference(want, got, pnames):
    """the pairs (p, q) of distinct parameter names at which two terms differ, if they differ nowhere else; else None"""
    out = []

    def rec(a, b):
        if a == b:
            return True
        if isinstance(a, tuple) and isinstance(b, tuple):
            if a[0] == "ref" and b[0] == "ref" and a[1] in pnames and b[1] in pnames:
                out.append((a[1], b[1]))
                return True
            if a[0] == "lit" and b[0] == "ref" and b[1] in pnames:
                out.append((str(a[1]), b[1]))
                return True
            if len(a) == len(b) and a[0] == b[0]:
                return all(rec(x, y) if isinstance(x, tuple) or isinstance(y, tuple) else x == y for x, y in zip(a[1:], b[1:]))
        return False
    return out if rec(want, got) and out else None


def same_but_fills(ta, tb, pnames, f):
    """the same resizing / assigning call on the two storages with the same length argument, the fills being parameters, packs of parameters or literals"""
    if not (ta[0] == "call" and tb[0] == "call" and ta[1][0] == "mem" and tb[1][0] == "mem" and ta[1][2] == tb[1][2] and len(ta) >= 3 and len(tb) >= 3):
        return False
    if not (is_member(ta[1][1], f["a"]) and is_member(tb[1][1], f["b"]) and ta[2] == tb[2]):
        return False

    def fill_ok(x):
        x = strip_casts(x)
        return x[0] == "lit" or (x[0] == "ref" and x[1] in pnames) or (x[0] == "pack" and all(fill_ok(y) for y in x[1:]))
    return all(fill_ok(x) for x in ta[3:]) and all(fill_ok(x) for x in tb[3:])


def is_nonpublic(d, cls, fn):
    from .. import fstring as fs
    acc = fs.member_access(cls)
    par = d.parent_of(fn)
    ids = {fn.get("id")} | ({par.get("id")} if par is not None else set())
    prev = fn.get("previousDecl")
    vals = [acc.get(i) for i in ids if i in acc]
    if not vals:
        # an out-of-line definition: find the in-class declaration of the same name and parameter count
        for m in ir.kids(cls):
            decl = m
            if m.get("kind") == "FunctionTemplateDecl":
                decl = next((c for c in ir.kids(m) if c.get("kind") in ir.FUNC_KINDS), None)
            if decl is not None and decl.get("kind") in ir.FUNC_KINDS and decl.get("name") == fn.get("name") and len(ir.params(decl)) == len(ir.params(fn)):
                vals.append(acc.get(m.get("id"), acc.get(decl.get("id"))))
    return bool(vals) and all(v in ("private", "protected") for v in vals if v)


def rule_pairing(rep, d):
    rep.rule("C11.pair", "in every member of the container families each use of the first storage is mirrored in order by the same "
                         "operation on the second storage with the same size/index argument and the prescribed fill (optional: none->false, "
                         "plain value->true, v.value()->v.has_value(); complex: .real()->.imag()); results are built (first, second)")
    n_fn = 0
    for fam, f in FAMILIES.items():
        for fn in ir.functions(d):
            cls = ir.enclosing_class(d, fn)
            if cls is None or cls.get("name") not in f["classes"] or not ir.is_template_pattern(d, fn):
                continue
            name = fn.get("name")
            if name in f["skip"]:
                continue
            label = "%s::%s(%s)" % (cls["name"], name, ", ".join(ir.wtype(p).split("::")[-1] for p in ir.params(fn)))
            where = d.where(fn)
            plain_params = {p.get("name") for p in ir.params(fn) if "xoptional<" not in ir.wtype(p) and "xcomplex<" not in ir.wtype(p)
                            and "size_type" not in ir.wtype(p)}
            # a local copy of a plain value parameter is a plain value too (`const base_value_type fill = v;`)
            grew = True
            while grew:
                grew = False
                for v_ in ir.walk_expr(fn):
                    if v_.get("kind") == "VarDecl" and ir.ekids(v_) and v_.get("name") not in plain_params:
                        it_ = strip_casts(ir.sx(ir.ekids(v_)[-1]))
                        if it_[0] == "ref" and it_[1] in plain_params:
                            plain_params.add(v_.get("name"))
                            grew = True
            roots = function_terms(fn)
            A, B = [], []
            inits = {}
            for kind, field, t in roots:
                if kind == "init":
                    inits[field] = t
                maximal_uses(t, f["a"], A)
                maximal_uses(t, f["b"], B)
            if f["a"] in inits or f["b"] in inits:
                n_fn += 1
                ia, ib = inits.get(f["a"]), inits.get(f["b"])
                if ia is None or ib is None:
                    rep.violates("C11.pair", label, "constructor initialises both storages", where=where,
                                 detail="only %s is initialised explicitly; the other storage is default-constructed with its own default extent" % (
                                     f["a"] if ia is not None else f["b"]))
                else:
                    alts = []
                    base = tau(ia, fam, plain_params)
                    alts.append(base)
                    if fam == "optional" and ia[0] == "call" and len(ia) == 4 and ia[3][0] == "ref" and ia[3][1] in plain_params:
                        alts = [base[:3] + (("lit", "true"),)]
                    ok = ib in alts
                    if not ok and is_nonpublic(d, cls, fn) and param_only_difference(alts[0], ib, [p.get("name") for p in ir.params(fn)]):
                        rep.inconclusive("C11.pair", label, "constructor initialises both storages", where=where,
                                         detail="a non-public worker constructor that receives the two fills as separate parameters: their agreement is a matter of the delegating constructors")
                        continue
                    (rep.holds if ok else rep.violates)("C11.pair", label, "constructor initialises both storages", where=where,
                                                        detail="%s(%s) / %s(%s)%s" % (f["a"], ir.show(ia), f["b"], ir.show(ib),
                                                                                      "" if ok else " - expected %s(%s)" % (f["b"], ir.show(alts[0]))))
            if not A and not B:
                continue
            n_fn += 1 if not (f["a"] in inits or f["b"] in inits) else 0
            if len(A) != len(B):
                rep.violates("C11.pair", label, "storages used in lockstep", where=where,
                             detail="%d uses of %s (%s) but %d uses of %s (%s)" % (len(A), f["a"], "; ".join(ir.show(x) for x in A)[:120],
                                                                                   len(B), f["b"], "; ".join(ir.show(x) for x in B)[:120]))
                continue
            bad = []
            deferred = []
            pnames_all = [p.get("name") for p in ir.params(fn)]
            for ta, tb in zip(A, B):
                alts = expected_b(ta, fam, plain_params)
                if tb not in alts:
                    # a private worker that receives the two fills as separate parameters (`resize_storages(s, re, im)`): what it is given is decided
                    # by its callers, which this rule does not follow
                    dl = param_only_difference(alts[0], tb, pnames_all)
                    if not dl and same_but_fills(ta, tb, pnames_all, f):
                        dl = [("the parameters", "the parameters")]
                    if dl and is_nonpublic(d, cls, fn):
                        deferred.append("`%s` / `%s`: the fills are the separate parameters %s" % (ir.show(ta), ir.show(tb), ", ".join("%s and %s" % x for x in dl)))
                        continue
                    bad.append("`%s` is paired with `%s`, expected `%s`" % (ir.show(ta), ir.show(tb), ir.show(alts[0])))
            if deferred and not bad:
                rep.inconclusive("C11.pair", label, "storages used in lockstep", where=where, detail="; ".join(deferred) + " - their agreement is a matter of the call sites")
                continue
            # order inside a constructed result: first storage first
            for kind, field, t in roots:
                for s in ir.subterms(t):
                    if isinstance(s, tuple) and s[0] in ("construct", "call") and len(s) >= 4:
                        args = s[2:]
                        ia = [i for i, a in enumerate(args) if mentions(a, f["a"])]
                        ib = [i for i, a in enumerate(args) if mentions(a, f["b"])]
                        if ia and ib and min(ib) < min(ia):
                            bad.append("`%s` passes the %s part before the %s part" % (ir.show(s)[:80], f["b"], f["a"]))
            if bad:
                rep.violates("C11.pair", label, "storages used in lockstep", where=where, detail="; ".join(bad))
            else:
                rep.holds("C11.pair", label, "storages used in lockstep", where=where,
                          detail="; ".join("%s | %s" % (ir.show(a), ir.show(b)) for a, b in zip(A, B))[:200])
    rep.unit("%d member functions / constructors of the two container families" % n_fn)


def rule_eq(rep, d):
    rep.rule("C11.eq", "operator== of the sequences compares both storages (lhs.X() == rhs.X() for both accessors) and != is its negation")
    for fam, f in FAMILIES.items():
        seq = f["classes"][0]
        for fn in ir.functions(d):
            if fn.get("name") not in ("operator==", "operator!=") or not ir.is_template_pattern(d, fn):
                continue
            ps = ir.params(fn)
            if len(ps) != 2 or seq + "<" not in ir.wtype(ps[0]):
                continue
            where = d.where(fn)
            from .. import norm
            l, r = ps[0]["name"], ps[1]["name"]
            label = "%s %s" % (seq, fn["name"])
            accs = [f["acc_a"], f["acc_b"]]
            seen = set()

            def classify(t):
                if t[0] == "bin" and t[1] in ("==", "!="):
                    a_, b_ = norm.uncast(t[2]), norm.uncast(t[3])
                    neg = t[1] == "!="
                    if {a_, b_} == {("ref", l), ("ref", r)}:
                        return (lambda asg: (all(asg)) != neg)           # the sibling operator==, decided on its own
                    if a_[0] == "call" and b_[0] == "call" and len(a_) == 2 and len(b_) == 2 and a_[1][0] == "mem" and b_[1][0] == "mem" and a_[1][2] == b_[1][2] \
                            and a_[1][2] in accs and {a_[1][1], b_[1][1]} == {("ref", l), ("ref", r)}:
                        i_ = accs.index(a_[1][2])
                        seen.add(a_[1][2])
                        return (lambda asg, i_=i_: asg[i_] != neg)
                return None
            try:
                table = norm.truth_table(d, fn, classify, 2)
            except norm.Undecided as e:
                # an element-wise std::equal over (first1, last1, first2) compares only the first range's length: sequences of different size
                # compare equal on their common prefix (or the second one is read past its end) unless the sizes are compared as well
                eq3 = [n_ for n_ in ir.walk_expr(ir.body(fn)) if n_.get("kind") == "CallExpr" and ir.sx(n_)[0] == "call" and ir.show(ir.sx(n_)[1]).split("::")[-1] == "equal" and len(ir.sx(n_)) == 5]
                sized = any(x[0] == "call" and x[1][0] == "mem" and x[1][2] == "size" for n_ in ir.walk_expr(ir.body(fn)) if n_.get("kind") in ("BinaryOperator", "CXXOperatorCallExpr")
                            for x in ir.subterms(ir.sx(n_)) if isinstance(x, tuple))
                # the same for a hand loop over one operand's size(): both sizes must be compared somewhere (size() of lhs against size() of rhs)
                loops_ = [n_ for n_ in ir.walk_expr(ir.body(fn)) if n_.get("kind") in ("ForStmt", "WhileStmt", "DoStmt", "CXXForRangeStmt")]
                both_sizes = False
                for n_ in ir.walk_expr(ir.body(fn)):
                    if n_.get("kind") in ("BinaryOperator", "CXXOperatorCallExpr"):
                        t_ = ir.sx(n_)
                        if t_[0] == "bin" and t_[1] in ("==", "!=", "<", ">", "<=", ">="):
                            sides = []
                            for side in (t_[2], t_[3]):
                                sides.append({x[1][1] for x in ir.subterms(side) if isinstance(x, tuple) and x[0] == "call" and x[1][0] == "mem" and x[1][2] == "size" and len(x) == 2})
                            flat = [ir.show(y) for s_ in sides for y in s_]
                            if sides[0] and sides[1] and sides[0] != sides[1]:
                                both_sizes = True
                if loops_ and not eq3 and not both_sizes and fn["name"] == "operator==":
                    rep.violates("C11.eq", label, "compares both storages", where=d.where(loops_[0]),
                                 detail="the elements are compared in a loop over one operand's length and the two sizes are never compared: a sequence equals every longer one "
                                        "that starts with it (and a longer left operand is read past the end of the right one)")
                    continue
                if eq3 and not sized:
                    rep.violates("C11.eq", label, "compares both storages", where=d.where(eq3[0]),
                                 detail="std::equal(first1, last1, first2) ignores the length of the second sequence and the sizes are not compared: a longer/shorter "
                                        "operand compares equal on the common prefix or is read past its end")
                else:
                    rep.inconclusive("C11.eq", label, "truth table over (first storage equal, second storage equal)", where=where, detail=str(e))
                continue
            is_eq = fn["name"] == "operator=="
            wrong = [asg for asg, v in table.items() if v != (all(asg) == is_eq)]
            cons = "compares both storages" if is_eq else "negation of =="
            if wrong:
                asg = wrong[0]
                rep.violates("C11.eq", label, cons, where=where, detail="with %s() %s and %s() %s it yields %s" % (
                    accs[0], "equal" if asg[0] else "different", accs[1], "equal" if asg[1] else "different", table[asg]))
            else:
                rep.holds("C11.eq", label, cons, where=where, detail="truth table over (%s equal, %s equal)" % tuple(accs))


def rule_init(rep):
    rep.rule("C11.init", "default-initialised containers have defined contents: the array variants are not trivially default "
                         "constructible, have a user-provided default constructor that sizes both storages, and the vector variants start empty")
    w = WitnessTU('#include "xtl/xoptional_sequence.hpp"\n#include "xtl/xcomplex_sequence.hpp"\n#include <type_traits>\n')
    for T in ("xtl::xcomplex_array<double, 3>", "xtl::xoptional_array<int, 3>", "xtl::xcomplex_array<float, 1, true>"):
        w.must_hold("!std::is_trivially_default_constructible<%s>::value" % T, "C11.init", T, "not trivially default constructible",
                    "`T a;` would leave the elements indeterminate")
        w.must_hold("std::is_default_constructible<%s>::value" % T, "C11.init", T, "default constructible", "")
    for T in ("xtl::xcomplex_vector<double>", "xtl::xoptional_vector<int>"):
        w.must_hold("std::is_default_constructible<%s>::value" % T, "C11.init", T, "default constructible", "")
    w.run(rep)


REALLOC = {"resize", "reserve", "clear", "assign", "push_back", "emplace_back", "insert", "erase", "shrink_to_fit", "swap", "operator=", "pop_back"}


def rule_alias(rep, d):
    """a value passed by reference may be an element of the container itself (`v.resize(n, v[0])`): it must have been consumed before the storage it
    may live in is reallocated.  std::vector::resize(n, x) itself copes with x being one of its elements, so the only safe order is: the first
    call that may reallocate a storage is the one that receives the part of the value living in that storage."""
    from .. import flow
    R = "C11.alias"
    rep.rule(R, "in members taking a value by reference, no part of that value is read after a call that may reallocate the storage the part may alias "
                "(value()/real() part: first storage, has_value()/imag() part: second storage)")
    n = 0
    for fam, f in FAMILIES.items():
        for fn in ir.functions(d):
            cls = ir.enclosing_class(d, fn)
            if cls is None or cls.get("name") not in f["classes"] or not ir.is_template_pattern(d, fn) or ir.body(fn) is None:
                continue
            refs = [p for p in ir.params(fn) if "&" in ir.wtype(p) and "&&" not in ir.wtype(p) and "size_type" not in ir.wtype(p)
                    and not re.search(r"self_type|initializer_list|x(optional|complex)_(sequence|vector|array)\s*(<|&|$)", ir.wtype(p))]
            if not refs:
                continue
            label = "%s::%s(%s)" % (cls["name"], fn.get("name"), ", ".join(ir.wtype(p).split("::")[-1] for p in ir.params(fn)))
            try:
                paths = flow.function_paths(fn, with_ctor_inits=True)
            except cj.AnalysisBroken:
                continue
            touched = False
            bad = None
            for path in paths:
                moved = set()
                for st in path:
                    if st[0] not in ("ev", "cond", "decl", "return") or not isinstance(st[1], dict):
                        continue
                    node = st[1]
                    t = ir.sx(node) if st[0] != "decl" else (ir.sx(ir.ekids(node)[-1]) if ir.ekids(node) else ("none",))
                    for p in refs:
                        v = p.get("name")
                        whole_is_value = not any(x in ir.wtype(p) for x in ("xoptional<", "xcomplex<", "value_type")) or "base_value_type" in ir.wtype(p)
                        for sub in ir.subterms(t):
                            parts = None
                            if sub[0] == "call" and sub[1][0] == "mem" and sub[1][1] == ("ref", v) and len(sub) == 2:
                                parts = {f["a"]} if sub[1][2] == f["acc_a"] else ({f["b"]} if sub[1][2] == f["acc_b"] else {f["a"], f["b"]})
                            elif sub == ("ref", v) and not any(s2[0] == "call" and s2[1][0] == "mem" and s2[1][1] == ("ref", v) for s2 in ir.subterms(t) if s2 is not sub):
                                parts = {f["a"]} if whole_is_value else {f["a"], f["b"]}
                            if parts and parts & moved:
                                bad = bad or (node, "`%s` is read after %s may have been reallocated: if it refers to an element of this container it is gone" % (
                                    ir.show(sub), " / ".join(sorted(parts & moved))))
                    if st[0] == "ev" and t[0] == "call" and t[1][0] == "mem" and t[1][2] in REALLOC:
                        base = t[1][1]
                        for fld in (f["a"], f["b"]):
                            if base == ("mem", ("this",), fld) or base == ("ref", fld):
                                moved.add(fld)
                                touched = True
            if not touched:
                continue
            n += 1
            if bad and is_nonpublic(d, cls, fn) and all(re.fullmatch(r"(const\s+)?[A-Z]\w*\s*&(\.\.\.)?", ir.wtype(p_).strip()) for p_ in refs):
                # a non-public worker whose parameters have bare template-parameter types: which storage each of them may alias is known to its callers only
                rep.inconclusive(R, label, "reference parameter consumed before reallocation", where=d.where(bad[0]),
                                 detail="%s - but which storage a parameter of this worker may alias is decided at its call sites" % bad[1][:120])
            elif bad:
                rep.violates(R, label, "reference parameter consumed before reallocation", where=d.where(bad[0]), detail=bad[1])
            else:
                rep.holds(R, label, "reference parameter consumed before reallocation", where=d.where(fn), detail="%d paths" % len(paths))
    if n == 0:
        rep.note("C11.alias: no member takes a value by reference and calls something that may reallocate a storage directly (the floor of the rule decides whether that is an anchor that vanished)")


MAKE_DRIVER = '''#include "xtl/xsequence.hpp"
#include <array>
#include <vector>
namespace wxtl
{
    inline void use_make()
    {
        auto a = xtl::make_sequence<std::array<double, 3>>(3);
        auto b = xtl::make_sequence<std::array<double, 3>>(3, 1.5);
        auto c = xtl::make_sequence<std::vector<double>>(3);
        auto e = xtl::make_sequence<std::vector<double>>(3, 1.5);
        auto f = xtl::make_sequence<std::array<bool, 3>>(3);
        auto g = xtl::make_sequence<std::array<bool, 3>>(3, true);
        (void)a; (void)b; (void)c; (void)e; (void)f; (void)g;
    }
}
'''


def rule_make(rep):
    """what the containers' constructors rely on: make_sequence<S>(n) is n value-initialised elements (for std::array: all of its elements),
    make_sequence<S>(n, v) is n copies of v - decided on the instantiated builders"""
    R = "C11.make"
    rep.rule(R, "make_sequence<S>(n) yields value-initialised elements (std::array: a zero-initialised array, std::vector: S(n)) and make_sequence<S>(n, v) "
                "yields copies of v (std::array: filled with v, std::vector: S(n, v)); the wrappers pass their arguments on in order")
    d = cj.dump(MAKE_DRIVER, "xtl::")
    rep.cmd(d.cmd)
    n_inst = 0

    def defined_by(fn, e, vparam):
        """how the returned object gets its contents: 'zero' | 'fill' | 'sized' | 'sized+value' | ('bad', why) | None"""
        e = ir.strip(e)
        k = e.get("kind")
        ks = ir.ekids(e)
        if k in ("CXXFunctionalCastExpr", "CXXBindTemporaryExpr") and ks:
            return defined_by(fn, ks[-1], vparam)
        if k in ("CXXConstructExpr", "CXXTemporaryObjectExpr") and len(ks) == 1 and ir.strip(ks[0]).get("kind") == "DeclRefExpr" and \
                (d.by_id.get((ir.strip(ks[0]).get("referencedDecl") or {}).get("id")) or {}).get("kind") == "VarDecl":
            return defined_by(fn, ks[0], vparam)            # the move/copy of a returned local
        if k in ("CXXTemporaryObjectExpr", "CXXConstructExpr") and len(ks) == 1:
            # copy / move construction from a temporary of the same type (what C++14 shows where C++17 elides the copy)
            a0 = ir.strip(ks[0])
            if a0.get("kind") in ("CXXTemporaryObjectExpr", "CXXFunctionalCastExpr", "CXXConstructExpr", "CXXBindTemporaryExpr", "InitListExpr") and \
                    ir.qtype(a0).replace("const ", "") == ir.qtype(e).replace("const ", ""):
                return defined_by(fn, a0, vparam)
        if k in ("CXXTemporaryObjectExpr", "CXXConstructExpr"):
            args = [a for a in ks if a.get("kind") != "CXXDefaultArgExpr"]
            if not args:
                return "zero" if e.get("zeroing") else ("bad", "the object is default-initialised (`T x;` / `T()` without zeroing): its elements are indeterminate")
            names = [ir.sx(a) for a in args]
            ps = [("ref", p.get("name")) for p in ir.params(fn)]
            if names == ps[:len(names)]:
                return "sized" if len(names) == 1 else "sized+value"
            return ("bad", "constructed from `%s`, expected the parameters in order" % ", ".join(ir.show(x) for x in names))
        if k == "InitListExpr":
            return "zero" if not [a for a in ks if a.get("kind") not in ("ImplicitValueInitExpr",)] else None
        if k in ("CXXScalarValueInitExpr", "ImplicitValueInitExpr"):
            return "zero"
        if k == "DeclRefExpr":
            v = d.by_id.get((e.get("referencedDecl") or {}).get("id"))
            if v is None or v.get("kind") != "VarDecl":
                return None
            init = ir.ekids(v)
            how = defined_by(fn, init[-1], vparam) if init else ("bad", "the local `%s` has no initialiser" % v.get("name"))
            # a later fill(v) of the whole object defines it
            for c in ir.walk_expr(ir.body(fn)):
                if c.get("kind") == "CXXMemberCallExpr":
                    m = ir.strip(ir.ekids(c)[0])
                    if m.get("kind") == "MemberExpr" and (m.get("name") or "") == "fill" and ir.ekids(m) and ir.sx(ir.ekids(m)[0]) == ("ref", v.get("name")):
                        a = ir.sx(ir.ekids(c)[1]) if len(ir.ekids(c)) > 1 else None
                        if vparam is not None and a == ("ref", vparam):
                            return "fill"
                        an = ir.strip(ir.ekids(c)[1]) if len(ir.ekids(c)) > 1 else None
                        while an is not None and an.get("kind") in ("CXXFunctionalCastExpr", "CXXStaticCastExpr", "CStyleCastExpr", "MaterializeTemporaryExpr") and ir.ekids(an):
                            an = ir.strip(ir.ekids(an)[-1])
                        if an is not None and (an.get("kind") in ("CXXScalarValueInitExpr", "ImplicitValueInitExpr") or
                                               (an.get("kind") in ("CXXTemporaryObjectExpr", "CXXConstructExpr") and not ir.ekids(an) and an.get("zeroing")) or
                                               (an.get("kind") in ("IntegerLiteral", "FloatingLiteral") and float(an.get("value", 1)) == 0.0) or
                                               (an.get("kind") == "CXXBoolLiteralExpr" and not an.get("value")) or
                                               (an.get("kind") == "InitListExpr" and not ir.ekids(an))):
                            return "zero"           # filled with a value-initialised element
                        return ("bad", "filled with `%s`, expected the value parameter" % (ir.show(a) if a else "?"))
            return how
        return None

    for f in ir.functions(d, "make"):
        c = ir.enclosing_class(d, f)
        if c is None or c.get("name") != "sequence_builder" or ir.is_template_pattern(d, f):
            continue
        ps = ir.params(f)
        if any("initializer_list" in ir.qtype(p) for p in ps) or len(ps) not in (1, 2):
            continue
        targ = " ".join(ir.template_args(c))
        is_array = "array<" in targ
        lab = "sequence_builder<%s>::make(%s)" % (targ[:40], ", ".join(ir.qtype(p) for p in ps))
        rets = [x for x in ir.walk_expr(ir.body(f)) if x.get("kind") == "ReturnStmt" and ir.ekids(x)]
        if len(rets) != 1:
            rep.inconclusive(R, lab, "contents of the result", where=d.where(f), detail="%d return statements" % len(rets))
            continue
        n_inst += 1
        how = defined_by(f, ir.ekids(rets[0])[0], ps[1].get("name") if len(ps) == 2 else None)
        want = ("zero" if len(ps) == 1 else "fill") if is_array else ("sized" if len(ps) == 1 else "sized+value")
        if isinstance(how, tuple):
            rep.violates(R, lab, "contents of the result", where=d.where(rets[0]), detail=how[1])
        elif how is None:
            rep.inconclusive(R, lab, "contents of the result", where=d.where(rets[0]), detail="form of the returned object not recognised")
        elif how == want or (is_array and len(ps) == 1 and how == "zero"):
            rep.holds(R, lab, "contents of the result", where=d.where(rets[0]), detail={"zero": "value-initialised", "fill": "filled with the value parameter",
                                                                                            "sized": "S(size)", "sized+value": "S(size, v)"}[how])
        else:
            rep.violates(R, lab, "contents of the result", where=d.where(rets[0]),
                         detail="the result is %s, expected %s" % (how, want))
    for f in ir.functions(d, "make_sequence"):
        if ir.is_template_pattern(d, f) or any("initializer_list" in ir.qtype(p) for p in ir.params(f)):
            continue
        ps = ir.params(f)
        lab = "make_sequence<%s>(%s)" % ((f.get("type") or {}).get("qualType", "").split("(")[0].strip()[:40], ", ".join(ir.qtype(p) for p in ps))
        calls = [x for x in ir.walk_expr(ir.body(f)) if x.get("kind") == "CallExpr" and ir.sx(x)[0] == "call" and ir.sx(x)[1] in (("ref", "make"), ("mem", ("this",), "make"))]
        n_inst += 1
        ok = len(calls) == 1 and list(ir.sx(calls[0])[2:]) == [("ref", p.get("name")) for p in ps]
        (rep.holds if ok else rep.violates)(R, lab, "passes its arguments on", where=d.where(f),
                                            **({} if ok else {"detail": "calls `%s`" % (ir.show(ir.sx(calls[0])) if calls else "nothing")}))
    if n_inst < 8:
        raise cj.AnalysisBroken("C11.make: only %d builder instantiations found" % n_inst)


def rule_default_ctor(rep, d):
    """array variants: the default constructor must delegate to a base constructor with the array extent"""
    for cname, extent in (("xoptional_array", "I"), ("xcomplex_array", "N")):
        ctors = [f for f in d.walk() if f.get("kind") == "CXXConstructorDecl" and not ir.params(f) and ir.in_repo(f)
                 and (ir.enclosing_class(d, f) or {}).get("name") == cname and ir.is_template_pattern(d, f)]
        defs = [c for c in ctors if ir.has_body(c)]
        label = cname + "::" + cname + "()"
        if any(c.get("explicitlyDefaulted") for c in ctors):
            c = [c for c in ctors if c.get("explicitlyDefaulted")][0]
            rep.violates("C11.init", label, "sizes both storages", where=d.where(c),
                         detail="the default constructor is defaulted: the std::array storage has %s elements while the other storage / the "
                                "element values are left to their defaults" % extent)
            continue
        if not defs:
            rep.inconclusive("C11.init", label, "sizes both storages", detail="no default constructor definition found")
            continue
        c = defs[0]
        inits = [k for k in ir.kids(c) if k.get("kind") == "CXXCtorInitializer"]
        t = strip_casts(ir.sx(ir.ekids(inits[0])[0])) if inits and ir.ekids(inits[0]) else None
        ok = t is not None and any(s == ("ref", extent) for s in ir.subterms(t))
        (rep.holds if ok else rep.violates)("C11.init", label, "sizes both storages", where=d.where(c),
                                            detail=ir.show(t) if ok else "the base is not constructed with the extent %s: `%s`" % (extent, ir.show(t) if t else "no initialiser"))


class _Rename:
    """forwards to a Report, renaming the rule id (reuses C12's lockstep analysis for the two paired iterators)"""
    def __init__(self, rep, rule):
        self.rep, self.rule_id = rep, rule
    def rule(self, *a): pass
    def holds(self, r, *a, **k): self.rep.holds(self.rule_id, *a, **k)
    def violates(self, r, *a, **k): self.rep.violates(self.rule_id, *a, **k)
    def inconclusive(self, r, *a, **k): self.rep.inconclusive(self.rule_id, *a, **k)


def rule_iter(rep, d):
    from . import c12
    rep.rule("C11.iter", "the paired iterators advance, compare and subtract both sub-iterators alike (same operation, same argument, same orientation)")
    classes = [(c, k) for c, k in c12.iterator_classes(d) if c["name"] in ("xoptional_iterator", "xcomplex_iterator")]
    if len(classes) != 2:
        raise cj.AnalysisBroken("paired iterator classes not found")
    c12.rule_step(_Rename(rep, "C11.iter"), d, classes)


def rule_iter_inst(rep, tier):
    """forward, const and reverse iteration of all four containers must at least instantiate: a traits class that only works for class-type iterators leaves
    the array variants (whose storage iterators are raw pointers) without any usable iterator"""
    from ..witness import WitnessTU
    w = WitnessTU('#include "xtl/xoptional_sequence.hpp"\n#include "xtl/xcomplex_sequence.hpp"\nnamespace w {\n')
    k = 0
    for C in ("xtl::xoptional_vector<double>", "xtl::xoptional_array<double, 3>", "xtl::xcomplex_vector<double>", "xtl::xcomplex_array<double, 3>",
              "xtl::xcomplex_vector<float, true>", "xtl::xcomplex_array<float, 2, true>"):
        for what, body in (("forward", "for (auto it = c.begin(); it != c.end(); ++it) { auto v = *it; (void)v; } auto d = c.end() - c.begin(); (void)d; auto e = c.begin()[1]; (void)e;"),
                           ("const", "for (auto it = c.cbegin(); it != c.cend(); it++) { auto v = *it; (void)v; } const auto& cc = c; for (auto it = cc.begin(); it != cc.end(); ++it) { } (void)(cc.begin() < cc.end());"),
                           ("reverse", "for (auto it = c.rbegin(); it != c.rend(); ++it) { auto v = *it; (void)v; } for (auto it = c.crbegin(); it != c.crend(); ++it) { }")):
            k += 1
            w.must_compile("inline void f%d(%s& c) { %s }" % (k, C, body), "C11.iter", C.replace("xtl::", ""), "%s iteration instantiates" % what, what)
    w.raw("}")
    for comp, std in ([("clang++", "gnu++17"), ("g++", "gnu++14")] if tier == "quick" else [("clang++", "gnu++14"), ("clang++", "gnu++20"), ("g++", "gnu++14"), ("g++", "gnu++17")]):
        w.run(rep, std=std, compiler=comp)


def rule_proxy(rep, tier):
    """operator[], at(), front/back and the iterators hand out xoptional<T&, B&> proxies: a write through one is xoptional's assignment operator.  That it
    takes over BOTH halves of the source unconditionally (and that the constructors the proxies and temporaries go through carry the flag) is the constructor /
    assignment rule of the optional property (C04.ctor), decided again here - strictly: a value copied only when the source is present leaves values[i] stale."""
    from . import c04
    from ..report import Renamed
    st = ("a write through an element proxy lands in exactly the pair (values[i], flags[i]): xoptional's constructors and assignment operators take value and flag "
          "from the source, unconditionally")
    rep.rule("C11.proxy", st)
    c04.rule_ctor(Renamed(rep, {"C04.ctor": "C11.proxy", "C04.conv": "C11.proxy"}, {"C11.proxy": st}), tier, strict=True)


def rule_flags(rep):
    """the flag storage of xoptional_vector is xdynamic_bitset<std::size_t>: its resize must keep the block buffer, the size and the unused bits in
    step, otherwise flags of elements created by a later resize come back present (decided by C03's rules on that instantiation)"""
    from . import c03
    rep.rule("C11.flags", "the flag bitset (xdynamic_bitset<std::size_t>) keeps block count = ceil(size/64), clears the bits beyond size() at every exit of its "
                          "size-changing members, and resize(n, true) fills the old last block: newly created elements get exactly the requested flag")
    d2 = cj.dump(c03.driver(["std::uint64_t"]), "xtl::")
    rep.cmd(d2.cmd)
    insts = c03.gather(d2)
    inst = insts.get("unsigned long")
    if inst is None:
        raise cj.AnalysisBroken("xdynamic_bitset<std::size_t> not instantiated")
    sub = Report("C11", rep.tier, rep.level, "")
    flows = c03.shift_analysis(sub, inst)
    before = len(rep.instances)
    c03.rule_blocks(rep, inst, "C11.flags")
    c03.rule_grow(rep, inst, "C11.flags")
    keep = {"resize", "push_back", "pop_back", "clear", "assign", "xdynamic_bitset", "set", "reset", "flip"}
    tmp = Report("C11", rep.tier, rep.level, "")
    c03.rule_canon(tmp, inst, flows, "C11.flags")
    for i in tmp.instances:
        if any(("::%s(" % k) in i["function"] for k in keep):
            rep.instances.append(i)
    # has_value() of a proxy is a bit reference into the flag storage: assigning through it must copy the SOURCE's flag
    tmp2 = Report("C11", rep.tier, rep.level, "")
    c03.rule_helpers(tmp2, inst, "C11.flags")
    for i in tmp2.instances:
        # ... and the index / block-count helpers every flag access and resize goes through (a block too many is filled with the requested flag and never cleared)
        if i["function"].startswith(("xbitset_reference", "compute_block_count", "count_extra_bits", "zero_unused_bits", "block_index", "bit_index", "bit_mask")):
            rep.instances.append(i)
    # == of two containers compares the flag storages with the bitset's ==: every block must take part
    tmp3 = Report("C11", rep.tier, rep.level, "")
    c03.rule_cover(tmp3, inst, "C11.flags")
    n_eq = 0
    for i in tmp3.instances:
        if "operator==" in i["function"]:
            rep.instances.append(i)
            n_eq += 1
    if n_eq == 0:
        # no hand loop: the whole buffers compared by the standard library
        whole = False
        for cname, kind, fn in inst.fns:
            if fn.get("name") != "operator==" or cname != "xdynamic_bitset_base":
                continue
            for x in ir.walk_expr(fn):
                t = ir.sx(x)
                if x.get("kind") == "CallExpr" and t[0] == "call" and t[1][0] == "ref" and str(t[1][1]).split("::")[-1] == "equal" and \
                        any(a == ("call", ("mem", ("mem", ("this",), "m_buffer"), "begin")) or a == ("call", ("mem", ("mem", ("this",), "m_buffer"), "cbegin")) for a in t[2:]) and \
                        any(a in (("call", ("mem", ("mem", ("this",), "m_buffer"), "end")), ("call", ("mem", ("mem", ("this",), "m_buffer"), "cend"))) for a in t[2:]):
                    whole = True
                if t[0] == "bin" and t[1] in ("==", "!=") and t[2] == ("mem", ("this",), "m_buffer") and t[3][0] == "mem" and t[3][2] == "m_buffer":
                    whole = True
        if whole:
            rep.holds("C11.flags", "xdynamic_bitset_base<unsigned long>::operator==", "every block compared", detail="the block buffers are compared as a whole")
        else:
            rep.inconclusive("C11.flags", "xdynamic_bitset_base<unsigned long>::operator==", "every block compared", detail="no block loop found in the flag storage's ==")
    rep.unit("flag storage xdynamic_bitset<unsigned long>: %d instances from C03's block/size rules" % (len(rep.instances) - before))


def run(tier):
    rep = Report("C11", tier, "other",
                 "Sibling-storage pairing rule over every member/constructor pattern of xoptional_sequence/vector/array and "
                 "xcomplex_sequence/vector/array (operation, size/index argument, prescribed fill, (first, second) order), ==/!= shape, "
                 "and default-initialisation witnesses.  Iterator lockstep is in C12.step, the bitset's own at()/resize in C03.",
                 trusted_base=["clang 14 AST of the class-template patterns", "family tables in sa/rules/c11.py"],
                 assumptions=["make_sequence<S>(n[, v]) builds an S of n elements (for std::array: of its extent) - xsequence.hpp",
                              "constructors taking a size are called with the container's own size (property proviso)"])
    d = cj.dump(DRIVER, "xtl::")
    rep.cmd(d.cmd)
    rule_pairing(rep, d)
    rule_eq(rep, d)
    rule_iter(rep, d)
    rule_iter_inst(rep, tier)
    rule_proxy(rep, tier)
    rule_default_ctor(rep, d)
    rule_init(rep)
    rule_make(rep)
    rule_alias(rep, d)
    rule_flags(rep)
    return rep
