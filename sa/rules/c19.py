"""C19 — every header is self-contained in every supported configuration.

C19.matrix  each header compiles alone and twice, compilers x standards x {exc, no-exc}
C19.pair    (thorough) every ordered pair of headers compiles in one TU
C19.odr     no namespace-scope entity with external linkage is defined non-inline in a header
C19.link    two TUs including all headers and odr-using every non-template function link (never run)
C19.noexc   every `throw` site of the exceptions build is matched, in the -fno-exceptions build, by a
            call to a noreturn function inside the innermost block the two builds share
"""
import glob
import os
import re
import subprocess
import tempfile
import shutil
from concurrent.futures import ThreadPoolExecutor

from .. import clangjson as cj
from ..report import Report

INC = lambda: os.path.join(cj.REPO, "include")
NORETURN_NAMES = {"terminate", "abort", "exit", "_Exit", "quick_exit", "__builtin_trap", "__builtin_abort",
                  "__assert_fail", "__throw_bad_alloc"}


def headers():
    hs = sorted(os.path.basename(p) for p in glob.glob(os.path.join(INC(), "xtl", "*.hpp")))
    return hs


def _compile(args):
    compiler, std, noexc, text, tag = args
    with tempfile.NamedTemporaryFile("w", suffix=".cpp", delete=False, dir=os.environ.get("TMPDIR", "/tmp")) as f:
        f.write(text)
        path = f.name
    cmd = [compiler, "-std=" + std, "-I" + INC()] + cj.EXTRA_INC + ["-fsyntax-only", "-w"]
    if noexc:
        cmd.append("-fno-exceptions")
    try:
        p = subprocess.run(cmd + [path], stdout=subprocess.PIPE, stderr=subprocess.PIPE)
        err = p.stderr.decode("utf-8", "replace").replace(path, "<tu>")
        return tag, p.returncode, err, " ".join(cmd)
    finally:
        os.unlink(path)


def rule_matrix(rep, tier):
    rep.rule("C19.matrix", "each public header compiles as the only include and as a repeated include of a TU, "
                           "for every compiler x standard x {exceptions, -fno-exceptions}")
    hs = headers()
    jobs = []
    for h in hs:
        for comp in ("g++", "clang++"):
            # quick: the project's compiler under every standard, clang under C++14 and C++17; thorough: everything
            stds = ["c++14", "c++17", "c++20"] if (tier == "thorough" or comp == "g++") else ["c++14", "c++17"]
            for std in stds:
                for noexc in (False, True):
                    text = '#include "xtl/%s"\n#include "xtl/%s"\nint main() { return 0; }\n' % (h, h)
                    jobs.append((comp, std, noexc, text, (h, comp, std, "no-exceptions" if noexc else "exceptions")))
    with ThreadPoolExecutor(16) as ex:
        for tag, rc, err, cmd in ex.map(_compile, jobs):
            h, comp, std, mode = tag
            rep.cmd("%s -std=<std> -I<repo>/include -fsyntax-only [-fno-exceptions] <tu>" % comp)
            scen = "%s -std=%s %s, included twice" % (comp, std, mode)
            if rc == 0:
                rep.holds("C19.matrix", h, "standalone TU", scenario=scen, where="include/xtl/" + h)
            else:
                first = [l for l in err.splitlines() if "error" in l][:3]
                rep.violates("C19.matrix", h, "standalone TU", scenario=scen, where="include/xtl/" + h,
                             detail="does not compile: " + " | ".join(first))
    rep.unit("%d headers x %d configurations" % (len(hs), len(jobs) // max(1, len(hs))))
    return hs


def rule_pairs(rep, hs):
    rep.rule("C19.pair", "every ordered pair of headers compiles in one TU (g++ -std=c++17, exceptions)")
    jobs = []
    for a in hs:
        for b in hs:
            if a != b:
                text = '#include "xtl/%s"\n#include "xtl/%s"\n' % (a, b)
                jobs.append(("g++", "c++17", False, text, (a, b)))
    with ThreadPoolExecutor(16) as ex:
        for tag, rc, err, cmd in ex.map(_compile, jobs):
            a, b = tag
            if rc == 0:
                rep.holds("C19.pair", a, "then " + b, where="include/xtl/" + a)
            else:
                first = [l for l in err.splitlines() if "error" in l][:2]
                rep.violates("C19.pair", a, "then " + b, where="include/xtl/" + a, detail=" | ".join(first))


ALL_FILTERS = ["xtl", "mpark", "tcb", "half_float"]


def _all_headers_tu(hs):
    return "".join('#include "xtl/%s"\n' % h for h in hs)


def _in_repo(d, n):
    l = n.get("loc") or {}
    f = l.get("file") or ""
    return f.startswith(INC())


def _is_template_context(d, n):
    p = d.parent_of(n)
    while p is not None:
        k = p.get("kind")
        if k in ("FunctionTemplateDecl", "ClassTemplateDecl", "ClassTemplatePartialSpecializationDecl", "VarTemplateDecl",
                 "VarTemplatePartialSpecializationDecl"):
            return True
        if k == "ClassTemplateSpecializationDecl":
            # explicit full specialisation is NOT a template context; implicit instantiation is
            return True if not _explicit_spec(p) else False
        p = d.parent_of(p)
    return False


def _explicit_spec(n):
    # JSON has no direct marker; an implicit instantiation carries no own source braces distinct from the pattern.
    # We only need it for namespace-scope bodies, handled by the caller.
    return False


def _has_body(n):
    return any(isinstance(c, dict) and c.get("kind") in ("CompoundStmt", "CXXTryStmt") for c in n.get("inner", ()))


def _ns_path(d, n):
    names = []
    p = d.parent_of(n)
    anon = False
    while p is not None:
        if p.get("kind") == "NamespaceDecl":
            if not p.get("name"):
                anon = True
            names.append(p.get("name") or "(anonymous)")
        elif p.get("kind") in ("CXXRecordDecl", "ClassTemplateSpecializationDecl"):
            names.append(p.get("name", "?"))
        p = d.parent_of(p)
    return "::".join(reversed(names)), anon


def collect_ns_entities(hs, filters=None):
    """All namespace-scope function definitions / variables (non-template) written in the repo's headers."""
    out = {}
    dumps = []
    for filt in (filters or ALL_FILTERS):
        d = cj.dump(_all_headers_tu(hs), filt)
        dumps.append(d)
        for n in d.walk():
            k = n.get("kind")
            if k not in ("FunctionDecl", "CXXMethodDecl", "CXXConstructorDecl", "CXXDestructorDecl", "CXXConversionDecl", "VarDecl"):
                continue
            if not _in_repo(d, n) or n.get("isImplicit"):
                continue
            par = d.parent_of(n)
            if par is None:
                continue   # a filter match below namespace level (e.g. member of a std:: specialisation): lexical
                           # context unknown here; such entities are covered by the link witness only
            pk = par.get("kind")
            if pk not in ("NamespaceDecl", "LinkageSpecDecl"):
                continue   # class scope (implicitly inline), template pattern, or local
            key = cj.loc_key(n)
            if key in out:
                continue
            out[key] = (d, n)
    return out, dumps


def _top_level_const(t):
    """is the variable itself const (internal linkage at namespace scope)?  `const char*` is a non-const pointer to const."""
    t = t.strip()
    base = re.sub(r"<.*>", "<>", t)
    if "(" in base:              # function pointers / references to arrays: be conservative, only `...) const`-free forms are variables
        return base.rstrip().endswith("const")
    if "*" in base:
        return base.rsplit("*", 1)[1].strip().startswith("const")
    if base.endswith("&"):
        return False
    toks = base.replace("[", " [").split()
    return "const" in toks


def rule_odr(rep, ents):
    rep.rule("C19.odr", "no namespace-scope function, explicit specialisation, out-of-class member or variable with "
                        "external linkage is defined non-inline in a header")
    nfun = nvar = 0
    for key, (d, n) in sorted(ents.items(), key=lambda kv: (kv[0][0] or "", kv[0][1] or 0, kv[0][3] or 0)):
        k = n.get("kind")
        ns, anon = _ns_path(d, n)
        qn = (ns + "::" if ns else "") + n.get("name", "?")
        if k == "VarDecl":
            t = (n.get("type") or {}).get("qualType", "")
            if n.get("storageClass") == "extern" and "init" not in n:
                continue   # declaration
            if "init" not in n and n.get("storageClass") == "extern":
                continue
            internal = anon or n.get("storageClass") == "static" or n.get("constexpr") or _top_level_const(t)
            nvar += 1
            if n.get("inline") or internal:
                rep.holds("C19.odr", qn, "variable definition", where=d.where(n), nontrivial=False)
            else:
                # static data member of a class template defined at namespace scope is fine (templated entity)
                if _templated_member_def(d, n):
                    rep.holds("C19.odr", qn, "variable definition", where=d.where(n), nontrivial=False)
                else:
                    rep.violates("C19.odr", qn, "variable definition", where=d.where(n),
                                 detail="namespace-scope variable with external linkage defined in a header without `inline`/`static`/`const`: "
                                        "two TUs including it define the symbol twice")
            continue
        if not _has_body(n):
            continue
        nfun += 1
        ok = (n.get("inline") or n.get("constexpr") or n.get("storageClass") == "static" or anon
              or _templated_member_def(d, n))
        if ok:
            rep.holds("C19.odr", qn, "function definition", where=d.where(n))
        else:
            rep.violates("C19.odr", qn, "function definition", where=d.where(n),
                         detail="non-template function `%s` is defined in a header without `inline`: a program with two "
                                "TUs including the header has duplicate definitions" % d.text(n).split("{")[0].strip()[:160])
    rep.unit("namespace-scope non-template definitions: %d functions, %d variables" % (nfun, nvar))


def _templated_member_def(d, n):
    """Out-of-class definition of a member of a class template (`template<...> R C<T>::f() {...}`) is a templated
    entity; clang puts it at namespace scope as a plain CXXMethodDecl/VarDecl whose parentDeclContextId names the
    class.  Members of *non-template* classes defined out of class are not templated."""
    pid = n.get("parentDeclContextId")
    seen = 0
    while pid and seen < 10:
        seen += 1
        c = d.by_id.get(pid)
        if c is None:
            return False
        if c.get("kind") in ("ClassTemplateSpecializationDecl", "ClassTemplatePartialSpecializationDecl"):
            # explicit full specialisations are not templated, partial ones are
            return c.get("kind") == "ClassTemplatePartialSpecializationDecl" or _is_dependent_spec(c)
        par = d.parent_of(c)
        if par is not None and par.get("kind") == "ClassTemplateDecl":
            return True
        if par is not None and par.get("kind") in ("CXXRecordDecl", "ClassTemplateSpecializationDecl", "ClassTemplatePartialSpecializationDecl"):
            pid = par.get("id")
            continue
        return False
    return False


def _is_dependent_spec(c):
    return False


def _fnptr_type(qual):
    """'R (A, B) noexcept' -> ('R (*)(A, B)')"""
    q = qual
    q = re.sub(r"\s*noexcept(\(.*\))?\s*$", "", q)
    q = re.sub(r"\s*__attribute__\(\(.*?\)\)", "", q)
    depth = 0
    end = None
    for i in range(len(q) - 1, -1, -1):
        c = q[i]
        if c == ")":
            if depth == 0 and end is None:
                end = i
            depth += 1
        elif c == "(":
            depth -= 1
            if depth == 0:
                return q[:i].rstrip() + " (*)" + q[i:end + 1]
    return None


def link_entities(ents):
    """(namespace path list, name, fn-pointer type) for each non-template namespace-scope function."""
    out = []
    for key, (d, n) in sorted(ents.items(), key=lambda kv: (kv[0][0] or "", kv[0][1] or 0, kv[0][3] or 0)):
        if n.get("kind") != "FunctionDecl":
            continue
        ns, anon = _ns_path(d, n)
        name = n.get("name", "")
        if anon or not name or name.startswith("operator") or name == "main" or n.get("explicitlyDeleted"):
            continue
        par = d.parent_of(n)
        chain = []
        while par is not None:
            if par.get("kind") == "NamespaceDecl":
                chain.append(par.get("name"))
            par = d.parent_of(par)
        fp = _fnptr_type((n.get("type") or {}).get("qualType", ""))
        if not fp or "type-parameter" in fp or "<dependent" in fp:
            continue
        targs = [c for c in n.get("inner", ()) if isinstance(c, dict) and c.get("kind") == "TemplateArgument"]
        if targs:
            parts = []
            for a in targs:
                if "value" in a:
                    parts.append(str(a["value"]))
                elif "type" in a:
                    parts.append(a["type"]["qualType"])
                else:
                    parts = None
                    break
            if parts is None:
                continue
            name = "%s<%s>" % (name, ", ".join(parts))
        out.append((tuple(reversed(chain)), name, fp, d.where(n)))
    return out


INST14 = '''
#include "xtl/xdynamic_bitset.hpp"
#include "xtl/xbasic_fixed_string.hpp"
#include "xtl/xoptional_sequence.hpp"
#include "xtl/xcomplex_sequence.hpp"
#include "xtl/xcomplex.hpp"
#include "xtl/xiterator_base.hpp"
#include "xtl/xvariant.hpp"
#include <cstdint>
#include <string>
template class xtl::xdynamic_bitset<std::uint64_t>;
template class xtl::xdynamic_bitset<std::uint8_t>;
template class xtl::xdynamic_bitset_base<xtl::xdynamic_bitset<std::uint64_t>>;
template class xtl::xdynamic_bitset_base<xtl::xdynamic_bitset<std::uint8_t>>;
template class xtl::xdynamic_bitset_view<std::uint64_t>;
template class xtl::xdynamic_bitset_view<std::uint8_t>;
template class xtl::xdynamic_bitset_base<xtl::xdynamic_bitset_view<std::uint64_t>>;
template class xtl::xdynamic_bitset_base<xtl::xdynamic_bitset_view<std::uint8_t>>;
template class xtl::xbitset_reference<xtl::xdynamic_bitset<std::uint64_t>, false>;
template class xtl::xbitset_iterator<xtl::xdynamic_bitset<std::uint64_t>, false>;
template class xtl::xbitset_iterator<xtl::xdynamic_bitset<std::uint64_t>, true>;
template class xtl::xoptional_array<double, 3>;
template class xtl::xcomplex_array<double, 3>;
template class xtl::xbasic_fixed_string<char, 16, xtl::buffer | xtl::store_size, xtl::string_policy::throwing_error>;
template class xtl::xbasic_fixed_string<char, 16, xtl::buffer, xtl::string_policy::silent_error>;
template class xtl::xoptional_vector<double>;
template class xtl::xcomplex_vector<double>;
template class xtl::xcomplex<double>;
template class mpark::variant<int, std::string>;
int use() { return 0; }
'''


def rule_link(rep, hs, lents):
    rep.rule("C19.link", "two TUs that include all headers and odr-use every non-template namespace-scope function "
                         "compile and link into one program (the program is never run)")
    seen = set()
    body = []
    k = 0
    for chain, name, fp, where in lents:
        key = (chain, name, fp)
        if key in seen:
            continue
        seen.add(key)
        k += 1
        body.append("%s static const void* volatile verif_use_%d = reinterpret_cast<const void*>(static_cast<%s>(&%s)); %s"
                    % (" ".join("namespace %s {" % c for c in chain), k, fp, name, "}" * len(chain)))
    work = tempfile.mkdtemp(prefix="c19link", dir=os.environ.get("TMPDIR", "/tmp"))
    try:
        inc = _all_headers_tu(hs)
        for i in (1, 2):
            with open(os.path.join(work, "tu%d.cpp" % i), "w") as f:
                f.write(inc)
                f.write("\n".join(body))
                f.write("\nint use%d() { return 0; }\n" % i)
        with open(os.path.join(work, "main.cpp"), "w") as f:
            f.write("int use1(); int use2();\nint main() { return use1() + use2(); }\n")
        # under C++17 (static constexpr data members are implicitly inline) and under C++14 (they are not: one that a non-template inline function odr-uses
        # needs a definition, or the program does not link at -O0)
        for std_ in ("c++17", "c++14"):
            base = ["g++", "-std=" + std_, "-O0", "-w", "-I" + INC()] + cj.EXTRA_INC
            sfx = "" if std_ == "c++17" else "_14"

            def cc(name, base=base, sfx=sfx):
                p = subprocess.run(base + ["-c", os.path.join(work, name + ".cpp"), "-o", os.path.join(work, name + sfx + ".o")],
                                   stdout=subprocess.PIPE, stderr=subprocess.PIPE)
                return name, p.returncode, p.stderr.decode("utf-8", "replace")
            with ThreadPoolExecutor(3) as ex:
                res = list(ex.map(cc, ["tu1", "tu2", "main"]))
            rep.cmd(" ".join(base) + " -c tu{1,2}.cpp main.cpp && g++ tu1.o tu2.o main.o (link only, not executed)")
            lab_ = "all headers" if std_ == "c++17" else "all headers (C++14)"
            failed_ = False
            for name, rc, err in res:
                if rc != 0:
                    first = [l for l in err.splitlines() if "error" in l][:4]
                    if any(cj.REPO in l for l in first):
                        rep.violates("C19.link", lab_, "compile " + name, detail=" | ".join(first))
                    else:
                        rep.inconclusive("C19.link", lab_, "compile " + name, detail=" | ".join(first))
                    failed_ = True
                    break
            if failed_:
                if std_ == "c++17":
                    return
                continue
            p = subprocess.run(["g++", "-o", os.path.join(work, "prog" + sfx)] + [os.path.join(work, n + sfx + ".o") for n in ("tu1", "tu2", "main")] + ["-lpthread"],
                               stdout=subprocess.PIPE, stderr=subprocess.PIPE)
            err = p.stderr.decode("utf-8", "replace")
            if p.returncode == 0:
                rep.holds("C19.link", lab_, "link of 2 TUs", scenario="%d non-template functions odr-used in both TUs, -std=%s" % (len(body), std_))
            else:
                syms = sorted(set(re.findall(r"(multiple definition of `[^']+'|undefined reference to `[^']+')", err)))
                for s in syms[:20] or ["link failed: " + err[:300]]:
                    rep.violates("C19.link", lab_, s, detail="g++ -std=%s link of two TUs including all headers fails: %s" % (std_, s))
        rep.unit("link witness: %d functions odr-used" % len(body))
        # second witness: class templates explicitly instantiated under C++14, where a static constexpr data member that is odr-used
        # (subscripted with a run-time index, bound to a reference) still needs a namespace-scope definition
        with open(os.path.join(work, "inst14.cpp"), "w") as f:
            f.write(INST14)
        with open(os.path.join(work, "main14.cpp"), "w") as f:
            f.write("int use();\nint main() { return use(); }\n")
        base14 = ["g++", "-std=c++14", "-O0", "-w", "-I" + INC()] + cj.EXTRA_INC
        rep.cmd(" ".join(base14) + " -c inst14.cpp main14.cpp && g++ inst14.o main14.o (explicit instantiations; link only, not executed)")
        objs = []
        failed = False
        for nm in ("inst14", "main14"):
            p = subprocess.run(base14 + ["-c", os.path.join(work, nm + ".cpp"), "-o", os.path.join(work, nm + ".o")], stdout=subprocess.PIPE, stderr=subprocess.PIPE)
            if p.returncode != 0:
                first = [l for l in p.stderr.decode("utf-8", "replace").splitlines() if "error" in l][:3]
                (rep.violates if any(cj.REPO in l for l in first) else rep.inconclusive)("C19.link", "explicit instantiations (C++14)", "compile " + nm, detail=" | ".join(first)[:400])
                failed = True
                break
            objs.append(os.path.join(work, nm + ".o"))
        if not failed:
            p = subprocess.run(["g++", "-o", os.path.join(work, "prog14")] + objs + ["-lpthread"], stdout=subprocess.PIPE, stderr=subprocess.PIPE)
            err = p.stderr.decode("utf-8", "replace")
            if p.returncode == 0:
                rep.holds("C19.link", "explicit instantiations (C++14)", "link", scenario="g++ -std=c++14, %d class templates instantiated in full" % INST14.count("template class"))
            else:
                syms = sorted(set(re.findall(r"(multiple definition of `[^']+'|undefined reference to `[^']+')", err)))
                for sy in syms[:20] or ["link failed: " + err[:300]]:
                    rep.violates("C19.link", "explicit instantiations (C++14)", sy,
                                 detail="g++ -std=c++14 cannot link a program that instantiates the class templates in full: %s (a static constexpr data member that is odr-used "
                                        "needs an out-of-class definition before C++17)" % sy)
    finally:
        shutil.rmtree(work, ignore_errors=True)


def _throw_sites(d, root, want_noreturn, noreturn_ids):
    """yield (node, chain of enclosing CompoundStmt begin offsets innermost-first)"""
    out = []

    def rec(n, chain):
        k = n.get("kind")
        if k == "CompoundStmt":
            b = (n.get("range") or {}).get("begin") or {}
            chain = [(b.get("file"), b.get("offset"))] + chain
        if k == "LambdaExpr":
            pass
        if not want_noreturn and k == "CXXThrowExpr" and n.get("inner"):
            out.append((n, chain))
        if want_noreturn and k == "CallExpr":
            callee = _callee_ref(n)
            if callee is not None and (callee.get("name") in NORETURN_NAMES or callee.get("id") in noreturn_ids):
                out.append((n, chain))
        for c in n.get("inner", ()):
            if isinstance(c, dict):
                rec(c, chain)
    rec(root, [])
    return out


def _callee_ref(call):
    inner = call.get("inner") or []
    if not inner:
        return None
    n = inner[0]
    while n.get("kind") in ("ImplicitCastExpr", "ParenExpr") and n.get("inner"):
        n = n["inner"][0]
    if n.get("kind") == "DeclRefExpr":
        return n.get("referencedDecl")
    if n.get("kind") == "UnresolvedLookupExpr":
        return {"name": n.get("name")}
    return None


def _functions_with_bodies(d):
    for n in d.walk():
        if n.get("kind") in ("FunctionDecl", "CXXMethodDecl", "CXXConstructorDecl", "CXXDestructorDecl", "CXXConversionDecl") \
                and _has_body(n) and _in_repo(d, n):
            yield n


def rule_noexc(rep, hs, filters=None):
    rep.rule("C19.noexc", "each `throw <expr>` site of the exceptions build has, in the -fno-exceptions build, a call to a "
                          "noreturn function (std::terminate/abort or a [[noreturn]] function of the library) inside the "
                          "innermost enclosing block that both builds share — the error path ends the process")
    tu = _all_headers_tu(hs)
    nsites = 0
    for filt, ndebug in [(f, nd) for f in (filters or ALL_FILTERS) for nd in (False, True)]:
        # the error paths must also terminate in a release build: an `assert`-based termination disappears under -DNDEBUG
        de = cj.dump(tu, filt)
        dn = cj.dump(tu, filt, extra=["-fno-exceptions"] + (["-DNDEBUG"] if ndebug else []))
        mode = "-fno-exceptions -DNDEBUG" if ndebug else "-fno-exceptions"
        # [[noreturn]] functions of the library in the no-exceptions build
        noret = set()
        for n in dn.walk():
            if n.get("kind") in ("FunctionDecl", "CXXMethodDecl") and any(
                    isinstance(c, dict) and c.get("kind") in ("CXX11NoReturnAttr", "NoReturnAttr", "C11NoReturnAttr") for c in n.get("inner", ())):
                noret.add(n.get("id"))
        # blocks of the no-exceptions build that contain a noreturn call
        blocks_n = {}
        funcs_n = {}
        for fn in _functions_with_bodies(dn):
            funcs_n[cj.loc_key(fn)] = fn
            for c in dn.walk(fn):
                if c.get("kind") == "CompoundStmt":
                    b = c["range"]["begin"]
                    blocks_n.setdefault((b.get("file"), b.get("offset")), False)
            for call, chain in _throw_sites(dn, fn, True, noret):
                for key in chain:
                    blocks_n[key] = True
        seen = set()
        for fn in _functions_with_bodies(de):
            for thr, chain in _throw_sites(de, fn, False, ()):
                b = thr["range"]["begin"]
                skey = (b.get("file"), b.get("offset"))
                if skey in seen:
                    continue   # pattern + instantiations share the site
                seen.add(skey)
                fkey = cj.loc_key(fn)
                fname = fn.get("name", "?")
                par = de.parent_of(fn)
                while par is not None and par.get("kind") not in ("CXXRecordDecl", "ClassTemplateSpecializationDecl", "NamespaceDecl"):
                    par = de.parent_of(par)
                if par is not None and par.get("name"):
                    fname = par["name"] + "::" + fname
                nsites += 1
                text = de.text(thr)[:80].replace("\n", " ")
                if fkey not in funcs_n:
                    rep.holds("C19.noexc", fname, "throw site", where=de.where(thr), scenario="function absent without exceptions (%s)" % mode,
                              detail=text, nontrivial=False)
                    continue
                shared = [k for k in chain if k in blocks_n]
                if not shared:
                    rep.inconclusive("C19.noexc", fname, "throw site", where=de.where(thr), detail="no shared enclosing block")
                    continue
                if blocks_n[shared[0]]:
                    rep.holds("C19.noexc", fname, "throw site", where=de.where(thr), detail=text,
                              scenario="%s: innermost shared block contains a noreturn call" % mode)
                else:
                    rep.violates("C19.noexc", fname, "throw site", where=de.where(thr), scenario=mode,
                                 detail="with exceptions this path executes `%s`; with %s the innermost block shared by both "
                                        "builds contains no call to a noreturn function, so the error path falls through and execution "
                                        "continues" % (text, mode))
    rep.unit("throw sites paired between the two configurations: %d" % nsites)


class _Collect:
    """Report stand-in used inside worker processes."""
    def __init__(self):
        self.items = []
        self.units = []
    def rule(self, *a): pass
    def cmd(self, *a): pass
    def unit(self, u): self.units.append(u)
    def add(self, rule, function, construct, verdict, **kw):
        self.items.append((rule, function, construct, verdict, kw))
    def holds(self, r, f, c, **kw): self.add(r, f, c, "holds", **kw)
    def violates(self, r, f, c, **kw): self.add(r, f, c, "violates", **kw)
    def inconclusive(self, r, f, c, **kw): self.add(r, f, c, "inconclusive", **kw)


def _worker(arg):
    kind, filt, hs = arg
    col = _Collect()
    lents = []
    try:
        if kind == "odr":
            ents, _ = collect_ns_entities(hs, [filt])
            rule_odr(col, ents)
            lents = link_entities(ents)
        else:
            rule_noexc(col, hs, [filt])
    except cj.AnalysisBroken as e:
        col.inconclusive("C19." + kind, "filter " + filt, "dump", detail=str(e)[:500])
    return col.items, col.units, lents


def run(tier):
    import multiprocessing
    rep = Report("C19", tier, "exploration",
                 "Compile matrix over the finite configuration set, AST lint for ODR-unsafe definitions, a link witness, and "
                 "a structural pairing of throw sites with noreturn calls between the two exception configurations. "
                 "'terminates' is read as 'reaches a call to a noreturn function'.",
                 trusted_base=["g++ 12 / clang++ 14 front ends and GNU ld as the arbiters of 'compiles' and 'links'"],
                 assumptions=["nlohmann_json headers (needed by xjson.hpp) are found under /root/miniconda/include as in the test build"])
    hs = headers()
    rep.rule("C19.odr", "no namespace-scope function, explicit specialisation, out-of-class member or variable with "
                        "external linkage is defined non-inline in a header")
    rep.rule("C19.noexc", "each `throw <expr>` site of the exceptions build has, in the -fno-exceptions build, a call to a "
                          "noreturn function (std::terminate/abort or a [[noreturn]] function of the library) inside the "
                          "innermost enclosing block that both builds share - the error path ends the process")
    jobs = [(k, f, hs) for k in ("odr", "noexc") for f in ALL_FILTERS]
    pool = multiprocessing.Pool(len(jobs))
    async_res = pool.map_async(_worker, jobs)
    rule_matrix(rep, tier)
    if tier == "thorough":
        rule_pairs(rep, hs)
    lents = []
    for items, units, le in async_res.get():
        for rule, fn, cons, verdict, kw in items:
            rep.add(rule, fn, cons, verdict, **kw)
        for u in units:
            rep.unit(u)
        lents += le
    pool.close()
    rule_link(rep, hs, lents)
    return rep
