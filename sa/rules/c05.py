"""C05 - mpark/xtl variant: lifetime typestate of the destroy/construct/assign/swap machinery over the template patterns
(all alternative types at once) under every valueless/same-index/different-index scenario with exceptional successors at
every element construction/assignment, access guards of get/get_if/visit/hash, the relational truth tables, the defining
shape of the index/valueless primitives and the agreement of the switch-based dispatch tables."""
import re

from .. import clangjson as cj
from .. import ir
from .. import flow
from ..report import Report
from ..witness import WitnessTU

PAT_DRIVER = '#include "xtl/xvariant.hpp"\n'
NPOS = None


class LifeViolation(Exception):
    def __init__(self, msg, node=None):
        Exception.__init__(self, msg)
        self.node = node


class Unknown(Exception):
    pass


def callee_name(n):
    """(kind, name, base node or None) of a call's callee in a template pattern"""
    ks = ir.ekids(n)
    if not ks:
        return (None, None, None)
    c = ks[0]
    while c.get("kind") in ("ImplicitCastExpr", "ParenExpr") and ir.ekids(c):
        c = ir.ekids(c)[0]
    k = c.get("kind")
    if k == "CXXDependentScopeMemberExpr":
        b = ir.ekids(c)
        return ("member", c.get("member"), b[0] if b else None)
    if k == "UnresolvedMemberExpr":
        b = ir.ekids(c)
        return ("member", c.get("member"), b[0] if b else None)
    if k == "MemberExpr":
        b = ir.ekids(c)
        return ("member", c.get("name"), b[0] if b else None)
    if k in ("UnresolvedLookupExpr", "DependentScopeDeclRefExpr"):
        nm = c.get("name") or ""
        return ("free", nm.split("::")[-1].split("<")[0], None)
    if k == "DeclRefExpr":
        rd = c.get("referencedDecl") or {}
        if rd.get("kind") == "VarDecl":
            return ("local", rd.get("name"), c)
        return ("free", rd.get("name"), None)
    return (None, None, None)


def same_variant(d, f, g):
    """two members of the same specialisation of a class of the chain (the destructor class exists once per trait)"""
    cf, cg = ir.enclosing_class(d, f), ir.enclosing_class(d, g)
    return cf is cg or (cf or {}).get("id") == (cg or {}).get("id")


class Patterns:
    """the anchor function patterns, found by (class, function) and by what their bodies do"""

    def __init__(self, d):
        self.d = d
        self.by = {}
        for f in ir.functions(d):
            c = ir.enclosing_class(d, f)
            cn = (c or {}).get("name")
            nm = f.get("name") or ""
            if not nm.startswith("operator"):
                nm = nm.split("<")[0]
            self.by.setdefault((cn, nm), []).append(f)

    def calls(self, fn, name, depth=0):
        """`fn` calls `name`, itself or through further functions of its own class (a body split into helpers)"""
        seen = [callee_name(n)[1] for n in ir.walk_expr(fn) if n.get("kind") == "CallExpr"]
        if name in seen:
            return True
        if depth >= 3:
            return False
        cn = (ir.enclosing_class(self.d, fn) or {}).get("name")
        return any(g is not fn and ir.body(g) is not None and self.calls(g, name, depth + 1)
                   for nm in set(seen) if nm for g in self.by.get((cn, nm), []) if same_variant(self.d, fn, g))

    def get(self, cls, name, must_call=None, pred=None):
        c = [f for f in self.by.get((cls, name), []) if (must_call is None or self.calls(f, must_call)) and (pred is None or pred(f))]
        if not c:
            raise cj.AnalysisBroken("anchor %s::%s%s not found" % (cls, name, " (calling %s)" % must_call if must_call else ""))
        return c[0]


class VarSim:
    PURE_MEMBERS = {"valueless_by_exception", "index", "move_nothrow", "size"}
    PURE_FREE = {"forward", "move", "addressof", "get_alt", "declval"}

    def __init__(self, d, pats):
        self.d = d
        self.P = pats
        self.fn_destroy = pats.get("destructor", "destroy", must_call="visit_alt")
        self.fn_generic_construct = pats.get("constructor", "generic_construct")
        self.fn_emplace = pats.get("assignment", "emplace")
        self.fn_assign_alt = pats.get("assignment", "assign_alt")
        self.fn_generic_assign = pats.get("assignment", "generic_assign")
        self.fn_swap = pats.get("impl", "swap")
        self.fn_assign = pats.get("impl", "assign")
        self.fn_dtor = pats.get("destructor", "~destructor", must_call="destroy")
        self.fn_move_ctor = pats.get("move_constructor", "move_constructor", must_call="generic_construct")
        self.fn_copy_ctor = pats.get("copy_constructor", "copy_constructor", must_call="generic_construct")
        self.fn_move_assign = pats.get("move_assignment", "operator=", must_call="generic_assign")
        self.fn_copy_assign = pats.get("copy_assignment", "operator=", must_call="generic_assign")
        self.nobj = 0
        self.throw_kinds = set()         # kinds of element operations for which an exceptional successor was generated

    # -- values ---------------------------------------------------------------------------------------------------------
    def val(self, n, fr, st):
        if n is None:
            return None
        while n.get("kind") in ir.WRAPPERS or n.get("kind") == "ImplicitCastExpr":
            kk = ir.ekids(n)
            if not kk:
                break
            n = kk[-1] if n.get("kind") in ir.WRAPPERS else kk[0]
        k = n.get("kind")
        ks = ir.ekids(n)
        if k == "CXXThisExpr":
            return ("ptr", fr["this"]) if fr.get("this") else None
        if k == "UnaryOperator":
            op = n.get("opcode")
            v = self.val(ks[0], fr, st)
            if op == "*":
                return ("obj", v[1]) if v and v[0] == "ptr" else None
            if op == "&":
                return ("ptr", v[1]) if v and v[0] == "obj" else None
            if op == "!":
                return ("bool", not v[1]) if v and v[0] == "bool" else None
            if op == "-" and v and v[0] == "int":
                return ("int", -v[1])
            return None
        if k == "IntegerLiteral":
            return ("int", int(n.get("value")))
        if k in ("CXXStaticCastExpr", "CXXFunctionalCastExpr", "CStyleCastExpr"):
            v = self.val(ks[-1], fr, st) if ks else None
            if v and v[0] == "int" and v[1] == -1:
                return ("idx", NPOS)
            return v
        if k == "DeclRefExpr":
            rd = n.get("referencedDecl") or {}
            nm = rd.get("name")
            if nm in fr["bind"]:
                return fr["bind"][nm]
            if rd.get("kind") == "NonTypeTemplateParmDecl" and nm == "I" and fr.get("I") is not None:
                return ("idx", fr["I"])
            if nm == "variant_npos":
                return ("idx", NPOS)
            return None
        if k == "MemberExpr":
            # fields of the local functor in assign_alt: this_ / arg_
            nm = n.get("name")
            if nm in fr["bind"]:
                return fr["bind"][nm]
            if nm == "impl_":
                b = self.val(ks[0], fr, st) if ks else ("ptr", fr.get("this"))
                return ("obj", b[1]) if b and b[1] else None
            return None
        if k in ("CXXDependentScopeMemberExpr",):
            nm = n.get("member")
            b = self.val(ks[0], fr, st) if ks else (("ptr", fr["this"]) if fr.get("this") else None)
            if nm == "index_" and b and b[0] in ("obj", "ptr"):
                return ("idx", st[b[1]]["i"])
            if nm == "value" and b and b[0] == "alt":
                return ("value", b[1], b[2])
            if nm == "impl_" and b and b[0] in ("obj", "ptr"):
                return ("obj", b[1])
            return None
        if k == "CallExpr":
            kind, nm, base = callee_name(n)
            if kind == "free" and nm in ("move", "forward") and len(ks) >= 2:
                return self.val(ks[1], fr, st)
            if kind == "free" and nm == "addressof" and len(ks) >= 2:
                v = self.val(ks[1], fr, st)
                return ("ptr", v[1]) if v and v[0] == "obj" else None
            if kind == "free" and nm == "get_alt" and len(ks) >= 2:
                v = self.val(ks[1], fr, st)
                return ("alt", v[1], fr.get("I")) if v and v[0] == "obj" else None
            if kind == "member" and nm in ("valueless_by_exception", "index"):
                b = self.val(base, fr, st) if base is not None else (("ptr", fr["this"]) if fr.get("this") else None)
                if not b or b[0] not in ("obj", "ptr"):
                    return None
                i = st[b[1]]["i"]
                return ("bool", i is NPOS) if nm == "valueless_by_exception" else ("idx", i)
            return None
        if k == "ConditionalOperator":
            c = self.val(ks[0], fr, st)
            if c and c[0] == "bool":
                return self.val(ks[1] if c[1] else ks[2], fr, st)
            return None
        if k == "BinaryOperator" and n.get("opcode") in ("&&", "||"):
            a = self.val(ks[0], fr, st)
            if a and a[0] == "bool" and a[1] == (n.get("opcode") == "||"):
                return a
            b = self.val(ks[1], fr, st)
            if a and a[0] == "bool" and b and b[0] == "bool":
                return b
            return None
        if k == "BinaryOperator" and n.get("opcode") in ("==", "!=", "<", ">", "<=", ">="):
            a, b = self.val(ks[0], fr, st), self.val(ks[1], fr, st)
            if a and b and a[0] == "bool" and b[0] == "bool" and n.get("opcode") in ("==", "!="):
                return ("bool", (a[1] == b[1]) == (n.get("opcode") == "=="))
            if not a or not b or a[0] != "idx" or b[0] != "idx":
                return None
            x = 10 ** 6 if a[1] is NPOS else a[1]
            y = 10 ** 6 if b[1] is NPOS else b[1]
            op = n.get("opcode")
            return ("bool", {"==": x == y, "!=": x != y, "<": x < y, ">": x > y, "<=": x <= y, ">=": x >= y}[op])
        return None

    CHAIN = ("base", "destructor", "constructor", "move_constructor", "copy_constructor", "assignment", "move_assignment", "copy_assignment", "impl")
    HANDLED = {"destroy", "generic_construct", "emplace", "construct_alt", "assign_alt", "generic_assign", "swap", "assign", "visit_alt", "visit_alt_at"}

    def helper(self, nm):
        """a further function of the variant class chain with a body (e.g. a helper extracted from swap/assign): it is inlined like the known ones"""
        if not nm or nm in self.PURE_MEMBERS or nm in self.PURE_FREE or nm in self.HANDLED or nm.startswith("operator") or nm in self.CHAIN:
            return None
        for cls in self.CHAIN:
            for f in self.P.by.get((cls, nm), []):
                if ir.body(f) is not None:
                    return f
        return None

    def assume(self, n, truth, fr, st):
        """record what a condition known to be `truth` says about move_nothrow()"""
        n = ir.strip(n)
        k = n.get("kind")
        ks = ir.ekids(n)
        if k == "UnaryOperator" and n.get("opcode") == "!":
            return self.assume(ks[0], not truth, fr, st)
        if k == "BinaryOperator" and n.get("opcode") == "&&" and truth:
            self.assume(ks[0], True, fr, st)
            self.assume(ks[1], True, fr, st)
        if k == "BinaryOperator" and n.get("opcode") == "||" and not truth:
            self.assume(ks[0], False, fr, st)
            self.assume(ks[1], False, fr, st)
        if k == "CallExpr" and callee_name(n)[1] == "move_nothrow" and truth:
            base = callee_name(n)[2]
            b = self.val(base, fr, st) if base is not None else (("ptr", fr["this"]) if fr.get("this") else None)
            if b and b[0] in ("obj", "ptr"):
                fr["nothrow_from"].add(b[1])

    # -- primitives --------------------------------------------------------------------------------------------------------
    def prim_construct(self, st, obj, idx, node, what):
        o = st[obj]
        if o["s"] is not None:
            raise LifeViolation("%s constructs an alternative of `%s` while it still holds a live one (index %s): the old object is never destroyed" % (what, obj, o["s"]), node)
        o["s"] = idx
        o["mod"] = True

    def prim_destroy_alt(self, st, obj, node):
        o = st[obj]
        if o["s"] is None:
            raise LifeViolation("the alternative of `%s` is destroyed although none is alive (double destruction)" % obj, node)
        o["s"] = None
        o["mod"] = True

    def need_live(self, st, obj, idx, node, what):
        o = st[obj]
        if o["s"] is None:
            raise LifeViolation("%s uses the alternative of `%s`, which holds no live object" % (what, obj), node)
        if idx is not None and o["s"] != idx:
            raise LifeViolation("%s accesses alternative %s of `%s`, whose live alternative is %s" % (what, idx, obj, o["s"]), node)

    # -- simulation ---------------------------------------------------------------------------------------------------------
    def may_throw_node(self, n, in_catch=False):
        k = n.get("kind")
        if k == "CallExpr":
            kind, nm, base = callee_name(n)
            if kind in ("member", "free") and nm in ("generic_construct", "emplace", "construct_alt", "assign_alt", "generic_assign", "assign"):
                return True
            if kind in ("member", "free") and self.helper(nm) is not None:
                return True
            if kind == "free" and nm in ("visit_alt_at", "construct_alt"):
                return True
            if kind == "free" and nm == "swap":
                args = ir.ekids(n)[1:]
                return any(a.get("kind") == "CXXDependentScopeMemberExpr" and a.get("member") == "value" for a in args)
            if kind == "local":
                return True
            return False
        if k == "BinaryOperator" and n.get("opcode") == "=":
            l = ir.ekids(n)[0]
            return l.get("kind") == "CXXDependentScopeMemberExpr" and l.get("member") == "value"
        if k in ("CXXUnresolvedConstructExpr",):
            return "integral_constant" not in ir.qtype(n) and "bool_constant" not in ir.qtype(n) and ir.qtype(n) not in ("dtor",)
        if k == "ParenListExpr":
            return True
        return False

    def run(self, fn, fr, st, depth=0):
        if depth > 8:
            raise Unknown("call depth")
        d = self.d

        def in_catch(n):
            p = d.parent_of(n)
            while p is not None and p is not fn:
                if p.get("kind") == "CXXCatchStmt":
                    return True
                p = d.parent_of(p)
            return False

        def is_tmp_init(n):
            p = d.parent_of(n)
            return n.get("kind") == "ParenListExpr" and p is not None and p.get("kind") == "VarDecl"

        paths = flow.function_paths(fn, may_throw=lambda n: self.may_throw_node(n) and not in_catch(n), events=is_tmp_init, with_ctor_inits=True, unroll=1)
        out = []
        for path in paths:
            out += self.path(fn, path, 0, self.cfr(fr), self.cst(st), depth)
        return out

    @staticmethod
    def cst(st):
        return {k: dict(v) for k, v in st.items()}

    @staticmethod
    def cfr(fr):
        f = dict(fr)
        f["bind"] = dict(fr["bind"])
        f["locals"] = list(fr["locals"])
        f["nothrow_from"] = set(fr.get("nothrow_from", ()))
        return f

    def finish(self, fr, st, outcome, depth):
        states = [st]
        for oid in reversed(fr["locals"]):
            nxt = []
            for s in states:
                for o2, s2 in self.run(self.fn_dtor, {"this": oid, "bind": {}, "locals": [], "I": None}, s, depth + 1):
                    if o2 != "normal":
                        raise LifeViolation("a destructor exits by exception")
                    if s2[oid]["s"] is not None:
                        raise LifeViolation("local variant `%s` is destroyed but its alternative stays alive (leak)" % oid)
                    nxt.append(s2)
            states = nxt
        return [(outcome, s) for s in states]

    def call(self, callee, fr2, st, depth):
        return self.run(callee, fr2, st, depth + 1)

    def path(self, fn, path, i, fr, st, depth):
        d = self.d
        while i < len(path):
            step = path[i]
            i += 1
            kind = step[0]
            if kind == "cond":
                node = step[1]
                # X.move_nothrow() known true: moves from X cannot throw
                self.assume(node, step[2], fr, st)
                v = self.val(node, fr, st)
                if v is not None and v[0] == "bool" and v[1] != step[2]:
                    return []
                continue
            if kind == "case":
                continue
            if kind == "init":
                # delegating constructor to the valueless state
                ini = step[1]
                txt = d.text(ini)
                if fr.get("this"):
                    st[fr["this"]]["s"] = None
                    st[fr["this"]]["i"] = NPOS
                continue
            if kind == "decl":
                v = step[1]
                init = ir.ekids(v)
                if init and init[-1].get("kind") != "ParenListExpr":
                    val = self.val(init[-1], fr, st)
                    if val is not None:
                        fr["bind"][v.get("name")] = val
                    elif ir.qtype(v).replace("const ", "").strip() == "bool":
                        # a flag computed from something the simulation does not know (move_nothrow()): both values are followed
                        res = []
                        for tv in (True, False):
                            fr2, st2 = self.cfr(fr), self.cst(st)
                            fr2["bind"][v.get("name")] = ("bool", tv)
                            self.assume(init[-1], tv, fr2, st2)
                            res += self.path(fn, path, i, fr2, st2, depth)
                        return res
                continue
            if kind == "catch":
                continue
            if kind not in ("ev", "throw"):
                continue
            n = step[1]
            want_throw = kind == "throw"
            k = n.get("kind") if n is not None else None
            if k == "CXXThrowExpr":
                continue       # rethrow: flow ends the path with escape
            outs = self.event(fn, n, fr, st, depth)
            if outs is None:
                if want_throw:
                    return []          # this event cannot throw after all
                continue
            res = []
            for out, fr2, st2 in outs:
                if (out == "throw") != want_throw:
                    continue
                res += self.path(fn, path, i, fr2, st2, depth)
            return res
        end = path[-1][0] if path else "end"
        return self.finish(fr, st, "throw" if end == "escape" else "normal", depth)

    def event(self, fn, n, fr, st, depth):
        """-> None (no effect) or list of (outcome, frame, state)"""
        d = self.d
        k = n.get("kind")
        ks = ir.ekids(n)
        if k == "BinaryOperator" and n.get("opcode") == "=":
            lhs = ks[0]
            if (lhs.get("kind") == "CXXDependentScopeMemberExpr" and lhs.get("member") == "index_") or \
                    (lhs.get("kind") == "MemberExpr" and (lhs.get("name") or "").lstrip("->.") == "index_"):
                b = self.val(ir.ekids(lhs)[0], fr, st) if ir.ekids(lhs) else ("ptr", fr["this"])
                v = self.val(ks[1], fr, st)
                if not b or b[0] not in ("obj", "ptr"):
                    raise Unknown("index_ store on an unknown object")
                if v is None or v[0] != "idx":
                    raise Unknown("index_ assigned from `%s`" % d.text(ks[1])[:40])
                st[b[1]]["i"] = v[1]
                st[b[1]]["mod"] = True
                return None
            if lhs.get("kind") == "CXXDependentScopeMemberExpr" and lhs.get("member") == "value":
                a = self.val(ir.ekids(lhs)[0], fr, st)
                if not a or a[0] != "alt":
                    raise Unknown("assignment to the value of an unknown alternative")
                self.need_live(st, a[1], a[2], n, "the element assignment")
                self.throw_kinds.add("assign")
                st2 = self.cst(st)
                st[a[1]]["mod"] = True
                st2[a[1]]["mod"] = True
                return [("normal", fr, st), ("throw", self.cfr(fr), st2)]
            return None
        if k == "CXXUnresolvedConstructExpr":
            if not self.may_throw_node(n):
                return None
            # T(forward(arg)): a temporary element; constructing it may throw, nothing else happens
            fr2 = self.cfr(fr)
            fr["temp_built"] = True
            return [("normal", fr, st), ("throw", fr2, self.cst(st))]
        if k == "ParenListExpr":
            p = d.parent_of(n)
            src = self.val(ir.ekids(n)[0], fr, st) if ir.ekids(n) else None
            if p is None or p.get("kind") != "VarDecl" or not src or src[0] != "obj":
                raise Unknown("local `%s` initialised from something that is not a variant" % (p or {}).get("name"))
            self.nobj += 1
            oid = "%s#%d" % (p.get("name"), self.nobj)
            res = []
            st0 = self.cst(st)
            st0[oid] = {"s": None, "i": "uninit", "mod": False}
            for out, st2 in self.call(self.fn_move_ctor, {"this": oid, "bind": {"that": ("obj", src[1])}, "locals": [], "I": None, "nothrow_from": set(fr["nothrow_from"])}, st0, depth):
                fr2 = self.cfr(fr)
                if out == "normal":
                    if st2[oid]["i"] == "uninit":
                        raise LifeViolation("the move constructor leaves index_ uninitialised", n)
                    fr2["locals"].append(oid)
                    fr2["bind"][p.get("name")] = ("obj", oid)
                else:
                    if st2[oid]["s"] is not None:
                        raise LifeViolation("the move constructor exits by exception with a live alternative (leak)", n)
                    del st2[oid]
                res.append((out, fr2, st2))
            return res
        if k != "CallExpr":
            return None
        kind, nm, base = callee_name(n)
        args = ks[1:]
        if kind in ("member", "free") and nm == "generic_construct" and len(args) >= 2:
            a0, a1 = self.val(args[0], fr, st), self.val(args[1], fr, st)
            if not a0 or not a1:
                raise Unknown("generic_construct with unknown operands")
            ps = [p.get("name") for p in ir.params(self.fn_generic_construct)]
            return self.inline(self.fn_generic_construct, {"this": None, "bind": {ps[0]: ("obj", a0[1]), ps[1]: ("obj", a1[1])}, "I": None}, fr, st, depth)
        if kind in ("member", "free") and self.helper(nm) is not None:
            h = self.helper(nm)
            this = fr.get("this")
            if kind == "member" and base is not None:
                b = self.val(base, fr, st)
                if not b or b[0] not in ("obj", "ptr"):
                    raise Unknown("%s() on an unknown object" % nm)
                this = b[1]
            bind = {}
            for p_, a_ in zip(ir.params(h), args):
                v_ = self.val(a_, fr, st)
                bind[p_.get("name")] = v_ if v_ is not None else ("opaque",)
            return self.inline(h, {"this": this, "bind": bind, "I": fr.get("I")}, fr, st, depth)
        if kind == "member":
            b = self.val(base, fr, st) if base is not None else (("ptr", fr["this"]) if fr.get("this") else None)
            if nm in self.PURE_MEMBERS:
                return None
            if nm == "destroy":
                if not b:
                    raise Unknown("destroy() on an unknown object")
                return self.inline(self.fn_destroy, {"this": b[1], "bind": {}, "I": None}, fr, st, depth)
            if nm == "generic_construct":
                a0, a1 = self.val(args[0], fr, st), self.val(args[1], fr, st)
                if not a0 or not a1:
                    raise Unknown("generic_construct with unknown operands")
                ps = [p.get("name") for p in ir.params(self.fn_generic_construct)]
                return self.inline(self.fn_generic_construct, {"this": None, "bind": {ps[0]: ("obj", a0[1]), ps[1]: ("obj", a1[1])}, "I": None}, fr, st, depth)
            if nm == "emplace":
                if not b:
                    raise Unknown("emplace on an unknown object")
                return self.inline(self.fn_emplace, {"this": b[1], "bind": {}, "I": fr.get("I"), "nothrow_ctor": bool(fr.get("temp_built"))}, fr, st, depth)
            if nm == "construct_alt":
                a = self.val(args[0], fr, st)
                if not a or a[0] != "alt":
                    raise Unknown("construct_alt on an unknown alternative")
                return self.construct_event(fr, st, a, n, None)
            if nm == "assign_alt":
                a = self.val(args[0], fr, st)
                if not b or not a or a[0] != "alt":
                    raise Unknown("assign_alt with unknown operands")
                src = self.val(args[1], fr, st)
                ps = [p.get("name") for p in ir.params(self.fn_assign_alt)]
                return self.inline(self.fn_assign_alt, {"this": b[1], "bind": {ps[0]: a, ps[1]: src or ("opaque",)}, "I": a[2]}, fr, st, depth)
            if nm == "generic_assign":
                a = self.val(args[0], fr, st)
                if not b or not a:
                    raise Unknown("generic_assign with unknown operands")
                ps = [p.get("name") for p in ir.params(self.fn_generic_assign)]
                return self.inline(self.fn_generic_assign, {"this": b[1], "bind": {ps[0]: ("obj", a[1])}, "I": None}, fr, st, depth)
            if nm in ("swap", "assign"):
                raise Unknown("nested %s" % nm)
            return None
        if kind == "free":
            if nm in self.PURE_FREE:
                return None
            if nm == "visit_alt":
                # visit_alt(dtor{}, X)
                x = self.val(args[1], fr, st) if len(args) > 1 else None
                if "dtor" not in (ir.qtype(args[0]) + d.text(args[0])):
                    raise Unknown("visit_alt with a visitor other than dtor")
                if not x:
                    raise Unknown("visit_alt on an unknown object")
                self.prim_destroy_alt(st, x[1], n)
                return None
            if nm == "visit_alt_at":
                idx = self.val(args[0], fr, st)
                vis = args[1]
                objs = [self.val(a, fr, st) for a in args[2:]]
                if idx is None or idx[0] != "idx" or any(o is None for o in objs):
                    raise Unknown("visit_alt_at with unknown operands")
                if idx[1] is NPOS:
                    raise LifeViolation("visit_alt_at is reached with the index of a valueless variant", n)
                lam = ir.strip(vis)
                if lam.get("kind") != "LambdaExpr":
                    raise Unknown("visitor is not a lambda")
                body = None
                params = None
                for x in ir.walk_expr(lam):
                    if x.get("kind") == "CXXMethodDecl" and x.get("name") == "operator()" and ir.body(x) is not None:
                        body, params = x, [p.get("name") for p in ir.params(x)]
                        break
                if body is None or len(params) != len(objs):
                    raise Unknown("lambda call operator not found")
                bind = {p: ("alt", o[1], idx[1]) for p, o in zip(params, objs)}
                # captured `this`
                return self.inline(body, {"this": fr.get("this"), "bind": bind, "I": idx[1]}, fr, st, depth)
            if nm == "construct_alt":
                a = self.val(args[0], fr, st)
                if not a or a[0] != "alt":
                    raise Unknown("construct_alt on an unknown alternative")
                src = self.val(args[1], fr, st) if len(args) > 1 else None
                return self.construct_event(fr, st, a, n, src)
            if nm == "swap":
                a, b2 = (self.val(x, fr, st) for x in args[:2])
                if a and b2 and a[0] == "value" and b2[0] == "value":
                    self.need_live(st, a[1], a[2], n, "the element swap")
                    self.need_live(st, b2[1], b2[2], n, "the element swap")
                    self.throw_kinds.add("swap")
                    st2 = self.cst(st)
                    return [("normal", fr, st), ("throw", self.cfr(fr), st2)]
                if a and b2 and a[0] == "ptr" and b2[0] == "ptr":
                    n1 = (ir.strip(args[0]).get("referencedDecl") or {}).get("name")
                    n2 = (ir.strip(args[1]).get("referencedDecl") or {}).get("name")
                    fr["bind"][n1], fr["bind"][n2] = fr["bind"][n2], fr["bind"][n1]
                    return None
                raise Unknown("swap of unknown operands")
            return None
        if kind == "local":
            # call of the local functor of assign_alt: both overloads are possible (which one depends on the element type)
            var = None
            for x in ir.walk_expr(fn):
                if x.get("kind") == "VarDecl" and x.get("name") == nm:
                    var = x
            rec = None
            for x in ir.walk_expr(fn):
                if x.get("kind") == "CXXRecordDecl" and any(c.get("kind") == "CXXMethodDecl" and c.get("name") == "operator()" for c in ir.kids(x)):
                    rec = x
            if var is None or rec is None:
                raise Unknown("local functor not found")
            fields = [c.get("name") for c in ir.kids(rec) if c.get("kind") == "FieldDecl"]
            inits = ir.ekids(ir.ekids(var)[-1]) if ir.ekids(var) else []
            fb = {}
            for f_, e in zip(fields, inits):
                v = self.val(e, fr, st)
                fb[f_] = v if v is not None else ("opaque",)
            res = []
            for m in [c for c in ir.kids(rec) if c.get("kind") == "CXXMethodDecl" and c.get("name") == "operator()"]:
                tparam = ir.qtype(ir.params(m)[0]) if ir.params(m) else ""
                this_ptr = fb.get("this_")
                sub = {"this": this_ptr[1] if this_ptr and this_ptr[0] in ("ptr", "obj") else fr.get("this"), "bind": dict(fb), "I": fr.get("I")}
                r = self.inline(m, sub, self.cfr(fr), self.cst(st), depth)
                res += r
            return res
        return None

    def construct_event(self, fr, st, a, n, src):
        obj, idx = a[1], a[2]
        if src and src[0] == "value":
            self.need_live(st, src[1], src[2], n, "the element construction")
        nothrow = bool(fr.get("nothrow_ctor")) or (src and src[0] == "value" and src[1] in fr.get("nothrow_from", ()))
        st_throw = self.cst(st)
        o = st_throw[obj]
        if o["s"] is not None:
            raise LifeViolation("construct_alt runs on `%s` while it still holds a live alternative (index %s): that object is overwritten without being destroyed" % (obj, o["s"]), n)
        self.prim_construct(st, obj, idx, n, "construct_alt")
        outs = [("normal", fr, st)]
        if not nothrow:
            self.throw_kinds.add("construct")
            outs.append(("throw", self.cfr(fr), st_throw))
        return outs

    def inline(self, callee, sub, fr, st, depth):
        sub = dict(sub)
        sub.setdefault("locals", [])
        sub["locals"] = []
        sub["nothrow_from"] = set(fr.get("nothrow_from", ()))
        res = []
        for out, st2 in self.call(callee, sub, st, depth):
            res.append((out, self.cfr(fr), st2))
        return res


def consistent(o, name):
    if o["i"] == "uninit":
        return "`%s`: index_ is left uninitialised" % name
    if o["s"] is None and o["i"] is not NPOS:
        return "`%s` reports index %s but holds no constructed alternative (get/visit/destructor will use unconstructed storage)" % (name, o["i"])
    if o["s"] is not None and o["i"] is NPOS:
        return "`%s` is valueless_by_exception but still holds a live alternative (index %s): it is never destroyed" % (name, o["s"])
    if o["s"] is not None and o["s"] != o["i"]:
        return "`%s` reports index %s but its live alternative is %s" % (name, o["i"], o["s"])
    return None


def rule_life(rep, d, pats):
    R = "C05.life"
    sim = VarSim(d, pats)

    def mk(s):
        return {"s": s, "i": s, "mod": False}

    def show(s):
        return "valueless" if s is None else "holds alt %s" % s

    jobs = []
    # (label, fn, frame builder, scenarios [(this, other, I)], postcondition(outcome, init, final) -> msg)
    def post_same_as_other(out, init, fin):
        if out == "normal" and fin["this"]["i"] != init["other"]["i"]:
            return "afterwards *this reports index %s, expected the source's (%s)" % (fin["this"]["i"], init["other"]["i"])
        if fin["other"]["i"] != init["other"]["i"] or fin["other"]["s"] != init["other"]["s"]:
            return "the source's alternative changes (index %s -> %s)" % (init["other"]["i"], fin["other"]["i"])
        return None

    def post_holds_I(I):
        def f(out, init, fin):
            if out == "normal" and fin["this"]["i"] != I:
                return "afterwards *this reports index %s, expected the requested alternative %s" % (fin["this"]["i"], I)
            return None
        return f

    two = [(a, b) for a in (None, 0) for b in (None, 0, 1)]
    ps_gc = [p.get("name") for p in ir.params(sim.fn_generic_construct)]
    for a, b in two:
        jobs.append(("constructor::generic_construct", sim.fn_generic_construct, {"this": None, "bind": {ps_gc[0]: ("obj", "this"), ps_gc[1]: ("obj", "other")}, "I": None},
                     a, b, None, post_same_as_other, {"this": "lhs", "other": "rhs"}))
    for a in (None, 0):
        jobs.append(("destructor::destroy", sim.fn_destroy, {"this": "this", "bind": {}, "I": None}, a, "-", None,
                     lambda out, init, fin: None if fin["this"]["i"] is NPOS else "still reports an index after destroy()", {}))
        jobs.append(("destructor::~destructor", sim.fn_dtor, {"this": "this", "bind": {}, "I": None}, a, "-", None,
                     lambda out, init, fin: None if fin["this"]["s"] is None else "the alternative outlives the variant (leak)", {}))
    for a in (None, 0, 1):
        jobs.append(("assignment::emplace<I>", sim.fn_emplace, {"this": "this", "bind": {}, "I": 0}, a, "-", 0, post_holds_I(0), {}))
        ps = [p.get("name") for p in ir.params(sim.fn_assign_alt)]
        jobs.append(("assignment::assign_alt<I>", sim.fn_assign_alt, {"this": "this", "bind": {ps[0]: ("alt", "this", 0), ps[1]: ("opaque",)}, "I": 0}, a, "-", 0, post_holds_I(0), {}))
        psa = [p.get("name") for p in ir.params(sim.fn_assign)]
        jobs.append(("impl::assign<I>", sim.fn_assign, {"this": "this", "bind": {psa[0]: ("opaque",)}, "I": 0}, a, "-", 0, post_holds_I(0), {}))
    ps_ga = [p.get("name") for p in ir.params(sim.fn_generic_assign)]
    for a, b in two:
        jobs.append(("assignment::generic_assign", sim.fn_generic_assign, {"this": "this", "bind": {ps_ga[0]: ("obj", "other")}, "I": None}, a, b, None, post_same_as_other, {"other": "that"}))
        for nm, f in (("move_assignment::operator=", sim.fn_move_assign), ("copy_assignment::operator=", sim.fn_copy_assign)):
            p0 = ir.params(f)[0].get("name")
            jobs.append((nm, f, {"this": "this", "bind": {p0: ("obj", "other")}, "I": None}, a, b, None, post_same_as_other, {"other": "that"}))

    def post_swapped(out, init, fin):
        if out == "normal" and (fin["this"]["i"], fin["other"]["i"]) != (init["other"]["i"], init["this"]["i"]):
            return "after swap *this reports %s and that reports %s; expected %s and %s" % (fin["this"]["i"], fin["other"]["i"], init["other"]["i"], init["this"]["i"])
        return None
    p0 = ir.params(sim.fn_swap)[0].get("name")
    for a, b in two:
        jobs.append(("impl::swap", sim.fn_swap, {"this": "this", "bind": {p0: ("obj", "other")}, "I": None}, a, b, None, post_swapped, {"other": "that"}))
    for nm, f in (("move_constructor::move_constructor", sim.fn_move_ctor), ("copy_constructor::copy_constructor", sim.fn_copy_ctor)):
        p0 = ir.params(f)[0].get("name")
        for b in (None, 0):
            jobs.append((nm, f, {"this": "this", "bind": {p0: ("obj", "other")}, "I": None}, "uninit", b, None, post_same_as_other, {"other": "that"}))

    kinds_by_label = {}
    for lab, fn, frame, a, b, I, post, names in jobs:
        sim.throw_kinds = set()
        st = {}
        st["this"] = {"s": None, "i": "uninit", "mod": False} if a == "uninit" else mk(a)
        if b != "-":
            st["other"] = mk(b)
        scen = "%s=%s" % (names.get("this", "*this"), "under construction" if a == "uninit" else show(a))
        if b != "-":
            scen += ", %s=%s" % (names.get("other", "other"), show(b))
        if I is not None:
            scen += ", I=%d" % I
        init = VarSim.cst(st)
        fr = dict(frame)
        fr["locals"] = []
        fr["nothrow_from"] = set()
        is_ctor = a == "uninit"
        try:
            outs = sim.run(fn, fr, st)
        except LifeViolation as e:
            rep.violates(R, lab, "lifetime typestate", where=d.where(e.node) if e.node is not None else d.where(fn), scenario=scen, detail=str(e))
            continue
        except (Unknown, cj.AnalysisBroken) as e:
            rep.inconclusive(R, lab, "lifetime typestate", where=d.where(fn), scenario=scen, detail=str(e))
            continue
        kinds_by_label.setdefault(lab, set()).update(sim.throw_kinds)
        if not outs:
            rep.inconclusive(R, lab, "lifetime typestate", where=d.where(fn), scenario=scen, detail="no feasible path")
            continue
        bad = None
        for out, fin in outs:
            for key in ("this", "other"):
                if key not in fin:
                    continue
                if is_ctor and key == "this" and out == "throw":
                    if fin["this"]["s"] is not None:
                        bad = "the constructor exits by exception with a live alternative (nobody will destroy it)"
                    continue
                bad = consistent(fin[key], names.get(key, "*this" if key == "this" else key))
                if bad:
                    bad = "%s exit: %s" % ("exceptional" if out == "throw" else "normal", bad)
                    break
            if not bad:
                bad = post(out, init, fin)
            if bad:
                break
        if bad:
            rep.violates(R, lab, "lifetime typestate", where=d.where(fn), scenario=scen, detail=bad)
        else:
            kinds = sorted({o for o, _ in outs})
            rep.holds(R, lab, "lifetime typestate", where=d.where(fn), scenario=scen, detail="%d outcome(s): %s" % (len(outs), ", ".join(kinds)))


    # C05.noexcept: a conditional noexcept-specification must name a nothrow trait for every kind of element operation the body can raise from
    TRAIT = {"construct": "is_nothrow_move_constructible", "assign": "is_nothrow_move_assignable", "swap": "is_nothrow_swappable"}
    vswap = [f for f in pats.by.get(("variant", "swap"), []) if pats.calls(f, "swap")]
    table = [("move_constructor::move_constructor", sim.fn_move_ctor, "move_constructor::move_constructor"),
             ("move_assignment::operator=", sim.fn_move_assign, "move_assignment::operator="),
             ("variant::swap", vswap[0] if vswap else None, "impl::swap")]
    for lab, fn, src in table:
        if fn is None:
            rep.inconclusive("C05.noexcept", lab, "noexcept-specification", detail="function not found")
            continue
        q = (fn.get("type") or {}).get("qualType", "")
        m = re.search(r"noexcept\((.*)\)\s*$", q)
        kinds = kinds_by_label.get(src, set())
        if not m:
            # unconditional noexcept or none at all
            if re.search(r"\bnoexcept\b", q) and kinds:
                rep.violates("C05.noexcept", lab, "noexcept-specification", where=d.where(fn),
                             detail="declared unconditionally noexcept although its body can raise from element %s" % ", ".join(sorted(kinds)))
            else:
                rep.holds("C05.noexcept", lab, "noexcept-specification", where=d.where(fn), detail="not noexcept: exceptions propagate")
            continue
        missing = [TRAIT[k] for k in sorted(kinds) if TRAIT[k] not in m.group(1)]
        if missing:
            rep.violates("C05.noexcept", lab, "noexcept-specification", where=d.where(fn),
                         detail="the body can raise from element %s, but the noexcept condition `%s` does not require %s: an exception from that operation meets a "
                                "noexcept function and the process is terminated instead of the variant becoming valueless / keeping its value" % (
                                    ", ".join(sorted(kinds)), m.group(1)[:140], ", ".join(missing)))
        else:
            rep.holds("C05.noexcept", lab, "noexcept-specification", where=d.where(fn), detail="requires %s" % ", ".join(TRAIT[k] for k in sorted(kinds)))


# ---------------------------------------------------------------------------------------------------------------------
# C05.shape - primitives the simulation treats by name
def rule_shape(rep, d, pats):
    R = "C05.shape"

    def single_return(fn):
        b = ir.body(fn)
        ks = ir.kids(b) if b else []
        if len(ks) == 1 and ks[0].get("kind") == "ReturnStmt" and ir.ekids(ks[0]):
            return ir.sx(ir.ekids(ks[0])[0])
        return None
    npos = ("cast", "CXXStaticCastExpr", "unsigned int", ("un", "-", ("lit", "1")))

    def is_npos(t):
        return t[0] == "cast" and t[-1] == ("un", "-", ("lit", "1")) or t == ("ref", "variant_npos")
    base_v = [f for f in pats.by.get(("base", "valueless_by_exception"), [])]
    base_i = [f for f in pats.by.get(("base", "index"), [])]
    if not base_v or not base_i:
        raise cj.AnalysisBroken("base::valueless_by_exception / base::index not found")
    # both accessors are evaluated for the two kinds of stored index (index_t(-1) and a real one), along every path, so that any
    # equivalent spelling is accepted and any other mapping is not
    NPOS_T, VNPOS = "index_t(-1)", "variant_npos"

    def evalx(t, idx, depth=0):
        k = t[0]
        if k == "cast":
            inner = t[3]
            while inner[0] == "cast":
                inner = inner[3]
            if inner == ("un", "-", ("lit", "1")):
                return VNPOS if ("long" in str(t[2]) or "size_t" in str(t[2])) else NPOS_T
            return evalx(t[3], idx, depth)
        if t == ("ref", "variant_npos"):
            return VNPOS
        if t == ("mem", ("this",), "index_"):
            return idx
        if k == "lit":
            if t[1] in ("true", "false"):
                return t[1] == "true"
            try:
                return int(str(t[1]))
            except ValueError:
                return None
        if k == "call" and t[1] == ("mem", ("this",), "valueless_by_exception") and len(t) == 2 and depth < 3:
            return run_fn(base_v[0], idx, depth + 1)
        if k == "call" and t[1] == ("mem", ("this",), "index") and len(t) == 2 and depth < 3:
            return run_fn(base_i[0], idx, depth + 1)
        if k == "un" and t[1] == "!":
            v = evalx(t[2], idx, depth)
            return (not v) if isinstance(v, bool) else None
        if k == "cond":
            c = evalx(t[1], idx, depth)
            return evalx(t[2] if c else t[3], idx, depth) if isinstance(c, bool) else None
        if k == "bin" and t[1] in ("&&", "||"):
            x = evalx(t[2], idx, depth)
            if not isinstance(x, bool):
                return None
            return x if x == (t[1] == "||") else evalx(t[3], idx, depth)
        if k == "bin" and t[1] in ("==", "!="):
            x, y = evalx(t[2], idx, depth), evalx(t[3], idx, depth)
            if x is None or y is None or isinstance(x, bool) or isinstance(y, bool):
                return None
            return (x == y) == (t[1] == "==")
        return None

    def run_fn(fn, idx, depth=0):
        got = set()
        for path in flow.function_paths(fn, with_ctor_inits=False):
            feas = True
            for s_ in path:
                if s_[0] == "cond":
                    v = evalx(ir.sx(s_[1]), idx, depth)
                    if not isinstance(v, bool):
                        return None
                    if v != s_[2]:
                        feas = False
                        break
            if feas and path[-1][0] == "return" and ir.ekids(path[-1][1]):
                rt = ir.sx(ir.ekids(path[-1][1])[0])
                v = evalx(rt, idx, depth)
                if v is None:
                    # a ?: / && / || return is split by flow: the last atom decides a boolean result
                    lastc = [s_ for s_ in path if s_[0] == "cond"]
                    v = lastc[-1][2] if lastc and rt[0] == "bin" and rt[1] in ("&&", "||") else None
                got.add(v)
        return got.pop() if len(got) == 1 else None
    for idx, want_v, want_i, what in ((NPOS_T, True, VNPOS, "index_ == index_t(-1)"), (2, False, 2, "index_ == 2")):
        gv = run_fn(base_v[0], idx)
        ok = gv is want_v
        (rep.holds if ok else rep.violates)(R, "base::valueless_by_exception", "index_ == index_t(-1)", where=d.where(base_v[0]), scenario=what,
                                            **({} if ok else {"detail": "yields %s when %s" % ("something not evaluable" if gv is None else gv, what)}))
        gi = run_fn(base_i[0], idx)
        ok = gi == want_i and not isinstance(gi, bool)
        (rep.holds if ok else rep.violates)(R, "base::index", "valueless ? variant_npos : index_", where=d.where(base_i[0]), scenario=what,
                                            **({} if ok else {"detail": "yields %s when %s, expected %s" % ("something not evaluable" if gi is None else gi, what, want_i)}))
    # constructors of base: valueless tag -> index_(-1); in_place_index_t<I> -> index_(I) and data_(in_place_index_t<I>{}, ...)
    for f in pats.by.get(("base", "base"), []):
        if f.get("kind") != "CXXConstructorDecl":
            continue
        inits = {}
        for c in ir.kids(f):
            if c.get("kind") == "CXXCtorInitializer":
                nm = (c.get("anyInit") or {}).get("name")
                inits[nm] = ir.sx(ir.ekids(c)[0]) if ir.ekids(c) else None
        ps = ir.params(f)
        if not ps:
            continue
        tagged = "valueless_t" in ir.qtype(ps[0])
        lab = "base::base(%s)" % ("valueless_t" if tagged else "in_place_index_t<I>, args...")
        idx = inits.get("index_")
        if tagged:
            ok = idx is not None and is_npos(idx) if idx and idx[0] == "cast" else (idx is not None and any(s == ("un", "-", ("lit", "1")) for s in ir.subterms(idx)))
            det = "index_ initialised with `%s`, expected index_t(-1)" % (ir.show(idx) if idx else "nothing")
        else:
            ok = idx is not None and any(s == ("ref", "I") for s in ir.subterms(idx)) and not any(s[0] == "bin" for s in ir.subterms(idx))
            det = "index_ initialised with `%s`, expected I" % (ir.show(idx) if idx else "nothing")
            dt = inits.get("data_")
            if ok and not (dt is not None and "in_place_index_t<I>" in ir.show(dt).replace(" ", "")):
                ok, det = False, "data_ is constructed with `%s`, expected in_place_index_t<I>{} first" % (ir.show(dt) if dt else "nothing")
        (rep.holds if ok else rep.violates)(R, lab, "initial index", where=d.where(f), **({} if ok else {"detail": det}))
    # construct_alt = placement new of alt<I,T> at the alternative's address; dtor functor = explicit destructor call
    ca = pats.get("constructor", "construct_alt")
    news = [n for n in ir.walk_expr(ca) if n.get("kind") == "CXXNewExpr"]
    a0 = ir.params(ca)[0].get("name")
    ok = len(news) == 1 and any(s == ("call", ("ref", "addressof"), ("ref", a0)) or s == ("un", "&", ("ref", a0)) for s in ir.subterms(ir.sx(news[0])))
    (rep.holds if ok else rep.violates)(R, "constructor::construct_alt", "placement new at the alternative", where=d.where(ca), **({} if ok else {"detail": "no single placement-new at addressof(%s)" % a0}))
    dt = pats.by.get(("dtor", "operator()"), [])
    ok = bool(dt) and any(n.get("kind") in ("CXXPseudoDestructorExpr",) or (n.get("kind") in ("CXXDependentScopeMemberExpr", "MemberExpr") and str(n.get("member") or n.get("name") or "").startswith("~")) for n in ir.walk_expr(dt[0]))
    (rep.holds if ok else rep.violates)(R, "dtor::operator()", "explicit destructor call on the alternative", where=d.where(dt[0]) if dt else "", **({} if ok else {"detail": "the visitor used by destroy() does not call alt.~Alt()"}))


# ---------------------------------------------------------------------------------------------------------------------
# C05.relop
SPEC = {
    # operator: (lhs valueless, rhs valueless, ordering of indices when both valued) -> expected
    "==": lambda lv, rv, o: (lv and rv) if (lv or rv) else (False if o != "=" else "visit"),
    "!=": lambda lv, rv, o: (not (lv and rv)) if (lv or rv) else (True if o != "=" else "visit"),
    "<": lambda lv, rv, o: False if rv else (True if lv else (True if o == "<" else False if o == ">" else "visit")),
    ">": lambda lv, rv, o: False if lv else (True if rv else (True if o == ">" else False if o == "<" else "visit")),
    "<=": lambda lv, rv, o: True if lv else (False if rv else (True if o == "<" else False if o == ">" else "visit")),
    ">=": lambda lv, rv, o: True if rv else (False if lv else (True if o == ">" else False if o == "<" else "visit")),
}
FUNCTOR = {"==": "equal_to", "!=": "not_equal_to", "<": "less", ">": "greater", "<=": "less_equal", ">=": "greater_equal"}


def rule_relop(rep, d):
    R = "C05.relop"
    found = 0
    for op in SPEC:
        fns = [f for f in ir.functions(d, "operator" + op) if len(ir.params(f)) == 2 and all("variant<Ts...>" in ir.qtype(p) for p in ir.params(f))]
        if not fns:
            rep.inconclusive(R, "operator" + op, "truth table", detail="operator%s(const variant&, const variant&) not found" % op)
            continue
        fn = fns[0]
        found += 1
        ln, rn = [p.get("name") for p in ir.params(fn)]
        paths = flow.function_paths(fn, with_ctor_inits=False)
        aliases = {}
        linit = {}
        for n in ir.walk_expr(fn):
            if n.get("kind") == "TypeAliasDecl":
                aliases[n.get("name")] = ir.wtype(n)
            if n.get("kind") == "VarDecl" and ir.ekids(n) and "const" in ir.qtype(n):
                linit[n.get("name")] = ir.sx(ir.ekids(n)[-1])
        for lv, rv, o in ((True, True, "="), (True, False, "="), (False, True, "="), (False, False, "<"), (False, False, "="), (False, False, ">")):
            scen = "lhs %s, rhs %s%s" % ("valueless" if lv else "valued", "valueless" if rv else "valued", "" if (lv or rv) else ", lhs.index() %s rhs.index()" % o)
            li = 2 ** 64 - 1 if lv else (0 if o == "<" else 1)
            ri = 2 ** 64 - 1 if rv else (1 if o == "<" else (1 if o == "=" else 0))
            if not lv and not rv and o == "=":
                li = ri = 1

            M64 = 2 ** 64

            def iv(x, depth=0, binds=None):
                """unsigned 64-bit value of an index expression in this scenario (npos = 2^64-1 wraps like the real thing)"""
                binds = binds or {}
                while x[0] == "cast":
                    x = x[3]
                if x[0] == "ref" and x[1] in binds:
                    return binds[x[1]]
                if x[0] == "ref" and x[1] in linit:
                    return iv(linit[x[1]], depth, binds)
                if x[0] == "ref" and str(x[1]).split("::")[-1] == "variant_npos":
                    return M64 - 1
                if x[0] == "lit":
                    try:
                        return int(str(x[1])) % M64
                    except ValueError:
                        return None
                if x[0] == "call" and x[1][0] == "mem" and x[1][2] == "index" and x[1][1][0] == "ref":
                    who = binds.get("@" + x[1][1][1], x[1][1][1])
                    return li if who == ln else (ri if who == rn else None)
                if x[0] == "bin" and x[1] in ("+", "-"):
                    a_, b_ = iv(x[2], depth, binds), iv(x[3], depth, binds)
                    return None if a_ is None or b_ is None else ((a_ + b_) if x[1] == "+" else (a_ - b_)) % M64
                if x[0] == "call" and x[1][0] == "ref" and depth < 3 and len(x) == 3 and x[2][0] == "ref" and x[2][1] in (ln, rn):
                    # a single-return helper of the library over one operand (order_key(v) = v.index() + 1)
                    nm_ = str(x[1][1]).split("::")[-1]
                    for h_ in ir.functions(d, nm_):
                        ks_ = ir.kids(ir.body(h_)) if ir.body(h_) is not None else []
                        if len(ks_) == 1 and ks_[0].get("kind") == "ReturnStmt" and ir.ekids(ks_[0]) and len(ir.params(h_)) == 1:
                            return iv(ir.sx(ir.ekids(ks_[0])[0]), depth + 1, {"@" + ir.params(h_)[0].get("name"): x[2][1]})
                return None

            def truth(t):
                """evaluate a boolean term: True / False / ("visit", term) / None if unknown"""
                while t[0] == "cast":
                    t = t[3]
                if t[0] == "lit" and t[1] in ("true", "false"):
                    return t[1] == "true"
                if t[0] == "ref" and t[1] in linit:
                    return truth(linit[t[1]])
                if t[0] == "call" and t[1][0] == "mem" and t[1][2] == "valueless_by_exception" and t[1][1][0] == "ref":
                    return lv if t[1][1][1] == ln else (rv if t[1][1][1] == rn else None)
                if t[0] == "call" and "visit_value_at" in ir.show(t[1]):
                    return ("visit", t)
                if t[0] == "un" and t[1] == "!":
                    v = truth(t[2])
                    return (not v) if isinstance(v, bool) else None
                if t[0] == "cond":
                    c = truth(t[1])
                    return truth(t[2] if c else t[3]) if isinstance(c, bool) else None
                if t[0] == "bin" and t[1] in ("&&", "||"):
                    a = truth(t[2])
                    if not isinstance(a, bool):
                        return None
                    if a == (t[1] == "||"):
                        return a
                    return truth(t[3])
                if t[0] == "bin" and t[1] in ("==", "!=", "<", ">", "<=", ">="):
                    a, b = iv(t[2]), iv(t[3])
                    if a is None or b is None:
                        return None
                    return {"==": a == b, "!=": a != b, "<": a < b, ">": a > b, "<=": a <= b, ">=": a >= b}[t[1]]
                return None
            results = []
            unknown = False
            for path in paths:
                feas = True
                for s in path:
                    if s[0] == "cond":
                        v = truth(ir.sx(s[1]))
                        if isinstance(v, tuple):
                            # the visit itself used as a condition (in the && / || form): both outcomes are the visit's
                            results.append(("visit", s[1], v[1]))
                            feas = False
                            break
                        if v is None:
                            unknown = True
                            continue
                        if v != s[2]:
                            feas = False
                            break
                if not feas:
                    continue
                end = path[-1]
                if end[0] != "return":
                    results.append(("?", None, None))
                    continue
                rt = ir.sx(ir.ekids(end[1])[0]) if ir.ekids(end[1]) else ("none",)
                v = truth(rt)
                if isinstance(v, bool):
                    results.append((v, end[1], None))
                elif isinstance(v, tuple):
                    results.append(("visit", ir.ekids(end[1])[0], v[1]))
                else:
                    # && / || form folded by flow: the last evaluated atom decides
                    lastc = [s for s in path if s[0] == "cond"]
                    results.append((lastc[-1][2] if lastc else "?", end[1], None))
            want = SPEC[op](lv, rv, o)
            got = {r[0] for r in results}
            if unknown or not results:
                rep.inconclusive(R, "operator" + op, "truth table", where=d.where(fn), scenario=scen, detail="conditions not evaluable")
                continue
            if got != {want}:
                rep.violates(R, "operator" + op, "truth table", where=d.where(results[0][1]) if results[0][1] is not None else d.where(fn), scenario=scen,
                             detail="yields %s, [variant.relops] requires %s" % (sorted(map(str, got)), "the comparison of the two values" if want == "visit" else want))
                continue
            if want == "visit":
                # the visit must be at lhs.index(), on (lhs, rhs) in that order, with the operator's own functor
                node, t = [(r[1], r[2]) for r in results if r[0] == "visit"][0]
                args = list(t[2:])
                if args and args[0][0] == "ref" and args[0][1] in linit:
                    args[0] = linit[args[0][1]]
                while args and args[0][0] == "cast":
                    args[0] = args[0][3]
                fun = ir.show(args[1]) if len(args) > 1 else "?"
                alias = re.sub(r"[{}()\s]", "", fun)
                real = aliases.get(alias, alias)
                ok_f = re.search(r"convert_to_bool<\s*(?:mpark::)?(?:lib::|std::)?%s\s*(?:<(?:void)?>)?\s*>" % FUNCTOR[op], real) is not None
                ok_a = len(args) == 4 and iv(args[0]) is not None and iv(args[0]) == li == ri and args[2] == ("ref", ln) and args[3] == ("ref", rn)
                if not ok_f:
                    rep.violates(R, "operator" + op, "truth table", where=d.where(node), scenario=scen, detail="same-index values are compared with `%s`, expected %s" % (real, FUNCTOR[op]))
                    continue
                if not ok_a:
                    rep.violates(R, "operator" + op, "truth table", where=d.where(node), scenario=scen, detail="the value visit is not (lhs.index(), functor, lhs, rhs): `%s`" % ir.show(t)[:100])
                    continue
            rep.holds(R, "operator" + op, "truth table", where=d.where(fn), scenario=scen, detail=str(want))
    if found < 6:
        raise cj.AnalysisBroken("only %d of the 6 relational operators found" % found)


# ---------------------------------------------------------------------------------------------------------------------
# C05.guard
def rule_guard(rep, d, pats):
    R = "C05.guard"
    # holds_alternative<I>(v) == (v.index() == I)
    for f in ir.functions(d, "holds_alternative"):
        b = ir.body(f)
        rets = [x for x in ir.walk_expr(b) if x.get("kind") == "ReturnStmt"]
        t = ir.sx(ir.ekids(rets[0])[0]) if len(rets) == 1 else None
        v = ir.params(f)[0].get("name")
        if t and t[0] == "bin":
            ok = t[1] == "==" and {t[2], t[3]} == {("call", ("mem", ("ref", v), "index")), ("ref", "I")}
            (rep.holds if ok else rep.violates)(R, "holds_alternative<I>", "v.index() == I", where=d.where(f), **({} if ok else {"detail": "returns `%s`" % ir.show(t)}))
        elif t and t[0] == "call":
            ok = "holds_alternative" in ir.show(t[1]) and t[2:] == (("ref", v),)
            (rep.holds if ok else rep.violates)(R, "holds_alternative<T>", "delegates to the index form", where=d.where(f), **({} if ok else {"detail": "returns `%s`" % ir.show(t)}))
    # generic_get: the alternative is reached only when holds_alternative<I>(v), else throw_bad_variant_access (decided per path, so the
    # selection may be written with either polarity, as ?: or as if/else)
    def uncast(t):
        while t[0] == "cast":
            t = t[3]
        return t

    def is_holds(t, arg):
        t = uncast(t)
        return t[0] == "call" and "holds_alternative" in ir.show(t[1]) and tuple(uncast(x) for x in t[2:]) == (arg,)

    def holds_truth(t, arg, truth):
        """the truth of `holds alternative I` that a condition with this outcome establishes, else None: holds_alternative<I>(arg), or arg.index() ==/!= I"""
        t = uncast(t)
        if is_holds(t, arg):
            return truth
        if t[0] == "bin" and t[1] in ("==", "!="):
            a_, b_ = uncast(t[2]), uncast(t[3])
            for x_, y_ in ((a_, b_), (b_, a_)):
                if y_ == ("ref", "I") and x_[0] == "call" and len(x_) == 2 and x_[1][0] == "mem" and x_[1][2] == "index" and uncast(x_[1][1]) == arg:
                    return truth == (t[1] == "==")
        return None

    for f in ir.functions(d, "generic_get"):
        v = ir.params(f)[0].get("name")
        bad, npaths = None, 0
        for path in flow.function_paths(f, with_ctor_inits=False):
            holds = None
            threw = False
            for s_ in path:
                if s_[0] == "cond" and holds_truth(ir.sx(s_[1]), ("ref", v), s_[2]) is not None:
                    holds = holds_truth(ir.sx(s_[1]), ("ref", v), s_[2])
                if s_[0] in ("ev", "throw") and s_[1] is not None and ((s_[1].get("kind") == "CallExpr" and callee_name(s_[1])[1] == "throw_bad_variant_access") or s_[1].get("kind") == "CXXThrowExpr"):
                    threw = True
            npaths += 1
            if holds is None and not threw:
                bad = "a path reaches the alternative without testing holds_alternative<I>(%s)" % v
            elif holds is False and not threw:
                bad = "when holds_alternative<I>(%s) is false the alternative is still reached: bad_variant_access is not raised" % v
            elif holds is True and threw:
                bad = "bad_variant_access is raised although the variant holds alternative I"
        if npaths < 2 and not bad:
            bad = "no `holds_alternative<I>(v) ? ... : throw` selection found"
        (rep.violates if bad else rep.holds)(R, "detail::generic_get<I>", "access only under holds_alternative<I>, else bad_variant_access", where=d.where(f), **({"detail": bad} if bad else {}))
    for f in ir.functions(d, "throw_bad_variant_access"):
        thr = [n for n in ir.walk_expr(f) if n.get("kind") == "CXXThrowExpr"]
        ok = len(thr) == 1 and "bad_variant_access" in ir.qtype(ir.ekids(thr[0])[0])
        (rep.holds if ok else rep.violates)(R, "throw_bad_variant_access", "throws bad_variant_access", where=d.where(f), **({} if ok else {"detail": "does not throw bad_variant_access"}))
    # generic_get_if: per path; the alternative is addressed iff the pointer is non-null and holds_alternative<I>(*v), every other path yields nullptr
    for f in ir.functions(d, "generic_get_if"):
        v = ir.params(f)[0].get("name")
        bad, n_access, n_null = None, 0, 0
        for path in flow.function_paths(f, with_ctor_inits=False):
            nonnull = holds = None
            accessed = False
            for s_ in path:
                if s_[0] == "cond":
                    t = uncast(ir.sx(s_[1]))
                    if t == ("ref", v):
                        nonnull = s_[2]
                    elif t[0] == "bin" and t[1] in ("!=", "==") and {uncast(t[2]), uncast(t[3])} in ({("ref", v), ("lit", "nullptr")}, {("ref", v), ("lit", "0")}):
                        nonnull = s_[2] == (t[1] == "!=")
                    elif holds_truth(t, ("un", "*", ("ref", v)), s_[2]) is not None or holds_truth(t, ("ref", v), s_[2]) is not None:
                        if nonnull is not True:
                            bad = "`*%s` is formed before %s was tested against null" % (v, v)
                        h1 = holds_truth(t, ("un", "*", ("ref", v)), s_[2])
                        holds = h1 if h1 is not None else holds_truth(t, ("ref", v), s_[2])
                if s_[0] == "ev" and s_[1].get("kind") == "CallExpr" and callee_name(s_[1])[1] == "get_alt":
                    accessed = True
            end = path[-1]
            if end[0] != "return":
                continue
            # the value returned on this path: follow the arms the recorded conditions select
            def chosen(n_):
                n_ = ir.strip(n_)
                if n_.get("kind") == "ConditionalOperator":
                    kk = ir.ekids(n_)
                    c_ = truth_of(kk[0])
                    return None if c_ is None else chosen(kk[1] if c_ else kk[2])
                return n_

            def truth_of(n_):
                n_ = ir.strip(n_)
                kk = ir.ekids(n_)
                if n_.get("kind") == "UnaryOperator" and n_.get("opcode") == "!":
                    x_ = truth_of(kk[0])
                    return None if x_ is None else not x_
                if n_.get("kind") == "BinaryOperator" and n_.get("opcode") in ("&&", "||"):
                    x_ = truth_of(kk[0])
                    if x_ is None:
                        return None
                    if x_ == (n_.get("opcode") == "||"):
                        return x_
                    return truth_of(kk[1])
                for s2 in path:
                    if s2[0] == "cond" and (s2[1] is n_ or ir.strip(s2[1]) is n_):
                        return s2[2]
                t_ = uncast(ir.sx(n_))
                for s2 in path:
                    if s2[0] == "cond" and uncast(ir.sx(s2[1])) == t_:
                        return s2[2]
                return None
            rv = chosen(ir.ekids(end[1])[0]) if ir.ekids(end[1]) else None
            rt = uncast(ir.sx(rv)) if rv is not None else None
            guard = nonnull is True and holds is True
            if accessed and not guard:
                bad = "the alternative is addressed on a path where %s" % ("the pointer may be null" if nonnull is not True else "holds_alternative<I>(*%s) was not established" % v)
            elif guard and not accessed:
                bad = "a non-null pointer to a variant holding alternative I does not yield the alternative"
            elif not guard and rt is not None and rt not in (("lit", "nullptr"), ("lit", "0")):
                bad = "a failed test yields `%s` instead of nullptr" % ir.show(rt)[:60]
            n_access += accessed
            n_null += (not accessed)
        if not bad and (n_access == 0 or n_null < 2):
            bad = "no guarded selection found (%d accessing, %d null paths)" % (n_access, n_null)
        (rep.violates if bad else rep.holds)(R, "detail::generic_get_if<I>", "non-null and holds_alternative<I> before the alternative is addressed, else nullptr", where=d.where(f), **({"detail": bad} if bad else {}))
    # visit: visit_value is reached only when no operand is valueless, otherwise throw_bad_variant_access() comes first
    for f in ir.functions(d, "visit"):
        if not ir.is_template_pattern(d, f) or len(ir.params(f)) < 2:
            continue
        if not any(n.get("kind") == "CallExpr" and callee_name(n)[1] == "visit_value" for n in ir.walk_expr(f)):
            continue
        paths = flow.function_paths(f, with_ctor_inits=False)
        bad = None
        tested = False
        for path in paths:
            anyv = None
            threw_at = visited_at = None
            for i, s_ in enumerate(path):
                if s_[0] == "cond":
                    t = ir.sx(s_[1])
                    txt = ir.show(t)
                    if "valueless_by_exception" in txt and t[0] == "call" and ("any" in ir.show(t[1])):
                        anyv = s_[2]
                        tested = True
                    elif "valueless_by_exception" in txt and t[0] == "call" and ("all" in ir.show(t[1])):
                        anyv = not s_[2]        # all(!valueless...) form
                        tested = True
                if s_[0] == "ev" and s_[1].get("kind") == "CallExpr":
                    nm_ = callee_name(s_[1])[1]
                    if nm_ == "throw_bad_variant_access" and threw_at is None:
                        threw_at = i
                    if nm_ == "visit_value" and visited_at is None:
                        visited_at = i
            if visited_at is not None and anyv is not False and (threw_at is None or threw_at > visited_at):
                bad = "visit_value is reached on a path where some operand may be valueless and bad_variant_access was not raised first"
            if anyv is False and threw_at is not None:
                bad = "bad_variant_access is raised although no operand is valueless"
        if not tested and not bad:
            bad = "no test of vs.valueless_by_exception()... found"
        (rep.violates if bad else rep.holds)(R, "visit(visitor, vs...)", "no operand valueless, else bad_variant_access", where=d.where(f), **({"detail": bad} if bad else {}))
    for f in ir.functions(d, "any"):
        if not ir.params(f) or "initializer_list<bool>" not in ir.qtype(ir.params(f)[0]):
            continue
        paths = flow.function_paths(f, with_ctor_inits=False)
        bad = None
        for path in paths:
            def elem(t_):
                t_ = uncast(t_)
                return t_[0] == "ref" or (t_[0] == "un" and t_[1] == "*") or t_[0] == "index"
            saw_true = any(s_[0] == "cond" and elem(ir.sx(s_[1])) and s_[2] for s_ in path)
            end = path[-1]
            if end[0] != "return":
                bad = "a path does not return"
                continue
            rt = ir.sx(ir.ekids(end[1])[0])
            if rt == ("lit", "true") and not saw_true:
                bad = "returns true without having seen a true element"
            if rt == ("lit", "false") and saw_true:
                bad = "returns false although an element was true"
        (rep.violates if bad else rep.holds)(R, "detail::any", "true iff some element is true", where=d.where(f), **({"detail": bad} if bad else {}))
    # all_of helper used by visit
    # std::hash<variant>: valueless is hashed without visiting
    for f in ir.functions(d, "operator()"):
        c = ir.enclosing_class(d, f)
        if c is None or c.get("name") != "hash" or not ir.params(f) or "variant" not in ir.qtype(ir.params(f)[0]):
            continue
        v = ir.params(f)[0].get("name")
        paths = flow.function_paths(f, with_ctor_inits=False)
        bad = None
        for path in paths:
            vl = None
            visited = False
            for s in path:
                if s[0] == "cond" and ir.sx(s[1]) == ("call", ("mem", ("ref", v), "valueless_by_exception")):
                    vl = s[2]
                if s[0] == "ev" and s[1].get("kind") == "CallExpr" and "visit" in str(callee_name(s[1])[1]):
                    visited = True
            if visited and vl is not False:
                bad = "the alternatives are visited on a path where the variant may be valueless"
        (rep.violates if bad else rep.holds)(R, "std::hash<variant>::operator()", "visits only a variant that holds a value", where=d.where(f), **({"detail": bad} if bad else {}))


# ---------------------------------------------------------------------------------------------------------------------
# C05.switch - switch-based dispatch: case labels, dispatched index, default continuation
SWITCH_DRIVER = r'''
#include "xtl/xvariant.hpp"
namespace wxtl {
template <int> struct E { E(); E(const E&); E& operator=(const E&); ~E(); int x; };
using V40 = xtl::variant<E<0>, E<1>, E<2>, E<3>, E<4>, E<5>, E<6>, E<7>, E<8>, E<9>, E<10>, E<11>, E<12>, E<13>, E<14>, E<15>, E<16>, E<17>, E<18>, E<19>,
                         E<20>, E<21>, E<22>, E<23>, E<24>, E<25>, E<26>, E<27>, E<28>, E<29>, E<30>, E<31>, E<32>, E<33>, E<34>, E<35>, E<36>, E<37>, E<38>, E<39>>;
struct Vis { template <class T> void operator()(const T&) const {} };
using S2 = xtl::variant<int, long>;
struct Vis2 { template <class T, class U> void operator()(const T&, const U&) const {} };
void use(V40& a, const V40& b) { xtl::visit(Vis{}, a); V40 c(b); c = b; }
void use2(V40& a, S2& s) { xtl::visit(Vis2{}, a, s); }
}
'''


def targs_deep(n):
    """template arguments incl. the elements of packs"""
    out = []

    def rec(c):
        if "value" in c:
            out.append(str(c["value"]))
        elif "type" in c:
            out.append(c["type"].get("qualType", "?"))
        else:
            for x in ir.kids(c):
                if x.get("kind") == "TemplateArgument":
                    rec(x)
    for c in ir.kids(n):
        if c.get("kind") == "TemplateArgument":
            rec(c)
    return out


def rule_switch(rep, tier):
    R = "C05.switch"
    d = cj.dump(SWITCH_DRIVER, "mpark::detail::visitation")
    rep.cmd(d.cmd)
    n_sw = 0
    for f in ir.functions(d):
        if f.get("name") not in ("dispatch", "dispatch_at") or ir.is_template_pattern(d, f):
            continue
        sws = [n for n in ir.walk_expr(f) if n.get("kind") == "SwitchStmt"]
        if not sws:
            continue
        ta = ir.template_args(f)
        try:
            B = int(ta[0])
        except (ValueError, IndexError):
            continue
        own_f = ir.enclosing_class(d, f)
        level = sum(1 for a in (targs_deep(own_f) if own_f is not None else []) if "indexed_type<" in a)
        # the driver visits (V40) and (V40, S2): the first variant switched has 40 alternatives, the second 2
        NALT = 40 if level == 0 else 2
        for sw in sws:
            n_sw += 1
            lab = "dispatcher::%s<B=%d>%s" % (f.get("name"), B, "" if level == 0 else " [variant %d of a visit]" % (level + 1))
            cases = [n for n in ir.walk_expr(sw) if n.get("kind") == "CaseStmt"]
            defaults = [n for n in ir.walk_expr(sw) if n.get("kind") == "DefaultStmt"]
            labels = []
            bad = None
            for c in cases:
                ks = ir.kids(c)
                cv = ks[0]
                val = None
                for x in ir.walk_expr(cv):
                    if x.get("kind") == "ConstantExpr" and "value" in x:
                        val = int(x["value"])
                        break
                if val is None:
                    bad = (c, "case label is not a folded constant")
                    break
                labels.append(val)
                # the call made under this label must carry the label's value as its alternative index
                callee_idx = None
                flag = None
                next_b = None
                for x in ir.walk_expr(ks[-1]):
                    if x.get("kind") == "DeclRefExpr":
                        rd = x.get("referencedDecl") or {}
                        if rd.get("name") in ("dispatch_case", "dispatch"):
                            target = d.by_id.get(rd.get("id"))
                            if target is None:
                                continue
                            owner = ir.enclosing_class(d, target)
                            oargs = targs_deep(owner) if owner is not None else []
                            flag = None if not oargs else ("false" if oargs[0] in ("0", "false") else "true")
                            if rd.get("name") == "dispatch_case":
                                try:
                                    callee_idx = int(ir.template_args(target)[0])
                                except (ValueError, IndexError):
                                    pass
                            else:
                                its = [a for a in oargs if "indexed_type<" in a]
                                if its:
                                    m = re.search(r"indexed_type<(\d+)", its[-1])
                                    callee_idx = int(m.group(1)) if m else None
                                # the next variant is switched from its own first block
                                try:
                                    nb = int(ir.template_args(target)[0])
                                except (ValueError, IndexError):
                                    nb = None
                                if nb not in (None, 0):
                                    next_b = nb
                            if callee_idx is not None:
                                break
                if callee_idx is None:
                    bad = (c, "no dispatch of an alternative found under `case %d`" % val)
                    break
                if callee_idx != val:
                    bad = (c, "`case %d` dispatches alternative %d" % (val, callee_idx))
                    break
                if next_b is not None and val < NALT:
                    bad = (c, "under `case %d` the next variant's switch is entered at block B=%d, expected 0: its alternatives below %d are never dispatched" % (val, next_b, next_b))
                    break
                if flag is not None and flag in ("true", "false") and (flag == "true") != (val < NALT):
                    bad = (c, "`case %d` selects the %s dispatcher although the variant has %d alternatives" % (val, "reachable" if flag == "true" else "unreachable", NALT))
                    break
            if not bad:
                if sorted(labels) != list(range(B, B + len(labels))) or len(labels) != 32:
                    bad = (sw, "case labels are %s..%s (%d labels), expected exactly B..B+31" % (min(labels) if labels else "-", max(labels) if labels else "-", len(labels)))
                elif len(defaults) != 1:
                    bad = (sw, "expected one default label")
                else:
                    nxt = None
                    for x in ir.walk_expr(defaults[0]):
                        if x.get("kind") == "DeclRefExpr" and (x.get("referencedDecl") or {}).get("name") in ("dispatch", "dispatch_at", "dispatch_case"):
                            target = d.by_id.get((x.get("referencedDecl") or {}).get("id"))
                            if target is not None:
                                for a in ir.template_args(target):
                                    try:
                                        nxt = int(a)
                                        break
                                    except ValueError:
                                        continue
                    # the default continues with the next block of 32 (or is unreachable for the last block)
                    if nxt is not None and nxt != B + 32:
                        bad = (defaults[0], "default continues at B=%d, expected %d" % (nxt, B + 32))
            if bad:
                rep.violates(R, lab, "case labels agree with dispatched alternatives", where=d.where(bad[0]), detail=bad[1])
            else:
                rep.holds(R, lab, "case labels agree with dispatched alternatives", where=d.where(sw), detail="32 labels %d..%d" % (B, B + 31))
    if n_sw == 0:
        rep.inconclusive(R, "dispatcher", "switch tables", detail="no instantiated switch-based dispatcher found")


# ---------------------------------------------------------------------------------------------------------------------
TRAIT_PRELUDE = r"""
#include "xtl/xvariant.hpp"
#include <type_traits>
#include <utility>
namespace w {
struct Triv { int x; };
struct UCopy { UCopy(); UCopy(const UCopy&); UCopy& operator=(const UCopy&) = default; ~UCopy(); int x; };      // counted copies, defaulted assignment
struct UAssign { UAssign() = default; UAssign(const UAssign&) = default; UAssign& operator=(const UAssign&); int x; };
struct UDtor { ~UDtor(); int x; };
struct UMove { UMove(); UMove(UMove&&) noexcept; UMove& operator=(UMove&&) noexcept; UMove(const UMove&) = default; UMove& operator=(const UMove&) = default; int x; };
struct MoveOnly { MoveOnly(); MoveOnly(MoveOnly&&) noexcept; MoveOnly& operator=(MoveOnly&&) noexcept; MoveOnly(const MoveOnly&) = delete; MoveOnly& operator=(const MoveOnly&) = delete; };
struct NoAssign { NoAssign(); NoAssign(const NoAssign&) = default; NoAssign& operator=(const NoAssign&) = delete; const int x = 0; };
struct ThrowSwap { ThrowSwap(); ThrowSwap(ThrowSwap&&) noexcept; ThrowSwap& operator=(ThrowSwap&&) noexcept; friend void swap(ThrowSwap&, ThrowSwap&); };            // its own swap may throw
struct QuietSwap { QuietSwap(); QuietSwap(QuietSwap&&) noexcept; QuietSwap& operator=(QuietSwap&&) noexcept; friend void swap(QuietSwap&, QuietSwap&) noexcept; };
struct LoudMove { LoudMove(); LoudMove(LoudMove&&); LoudMove& operator=(LoudMove&&); friend void swap(LoudMove&, LoudMove&) noexcept; };                           // quiet swap, moves may throw
struct Unrelated { };
struct LoudCtorQuietAssign { LoudCtorQuietAssign(); LoudCtorQuietAssign(long); LoudCtorQuietAssign& operator=(long) noexcept; };   // converting from long: assignment quiet, construction may throw
struct QuietCtorQuietAssign { QuietCtorQuietAssign(); QuietCtorQuietAssign(long) noexcept; QuietCtorQuietAssign& operator=(long) noexcept; };
struct QuietCtorLoudAssign { QuietCtorLoudAssign(); QuietCtorLoudAssign(long) noexcept; QuietCtorLoudAssign& operator=(long); };
struct NoAddressOf { int x; void operator&() const = delete; };                                                                       // unary & is not the address
template <class P> using V = xtl::variant<P, int>;
template <class P> using VU = xtl::variant<Unrelated, P>;
template <class X> constexpr bool swap_is_noexcept() { return noexcept(std::declval<X&>().swap(std::declval<X&>())); }
template <int> struct E { };
template <class S> struct mk;
template <int... I> struct mk<std::integer_sequence<int, I...>> { using type = xtl::variant<E<I>...>; };
"""


def rule_traits(rep, tier):
    rep.rule("C05.traits", "special members of variant<P, int> exist and are trivial exactly as [variant.ctor]/[variant.assign]/[variant.dtor] say, for payloads whose copy/move "
                           "constructors, assignments and destructor are trivial, user-provided or deleted in different combinations (a memberwise assignment of a variant "
                           "whose alternative has a user-provided copy constructor or destructor would neither destroy the old nor construct the new alternative); the "
                           "stored index distinguishes every alternative from the valueless state for 255 and 256 alternatives")
    w = WitnessTU(TRAIT_PRELUDE)
    T = "std::is_trivially_"
    for P in ("Triv", "UCopy", "UAssign", "UDtor", "UMove", "MoveOnly", "NoAssign"):
        v = "V<%s>" % P
        rows = [
            ("destructor trivial", "%sdestructible<%s>::value == %sdestructible<%s>::value" % (T, v, T, P)),
            ("copy constructor trivial", "%scopy_constructible<%s>::value == %scopy_constructible<%s>::value" % (T, v, T, P)),
            ("copy constructor exists", "std::is_copy_constructible<%s>::value == std::is_copy_constructible<%s>::value" % (v, P)),
            ("move constructor trivial", "%smove_constructible<%s>::value == %smove_constructible<%s>::value" % (T, v, T, P)),
            ("copy assignment exists", "std::is_copy_assignable<%s>::value == (std::is_copy_constructible<%s>::value && std::is_copy_assignable<%s>::value)" % (v, P, P)),
            ("copy assignment trivial", "%scopy_assignable<%s>::value == (%scopy_constructible<%s>::value && %scopy_assignable<%s>::value && %sdestructible<%s>::value)" % (T, v, T, P, T, P, T, P)),
            ("move assignment exists", "std::is_move_assignable<%s>::value == (std::is_move_constructible<%s>::value && std::is_move_assignable<%s>::value)" % (v, P, P)),
            ("move assignment trivial", "%smove_assignable<%s>::value == (%smove_constructible<%s>::value && %smove_assignable<%s>::value && %sdestructible<%s>::value)" % (T, v, T, P, T, P, T, P)),
        ]
        for what, cond in rows:
            w.must_hold(cond, "C05.traits", "variant<%s, int>" % P, what, P)
    # [variant.swap]: noexcept iff every alternative is nothrow move constructible AND nothrow swappable, where "swappable" is the swap the body calls: the one
    # found by argument-dependent lookup, not std::swap (a specification that promises more than the body keeps turns a propagating exception into std::terminate)
    for P, want in (("ThrowSwap", "false"), ("QuietSwap", "true"), ("LoudMove", "false"), ("Triv", "true")):
        w.must_hold("swap_is_noexcept<V<%s>>() == %s" % (P, want), "C05.noexcept", "variant<%s, int>::swap" % P, "noexcept-specification agrees with the swap found by ADL and the moves", P)
    # [variant.assign]: v = t emplaces when another alternative is held, so it is noexcept only if T is nothrow assignable AND nothrow constructible from the argument
    for P, want in (("LoudCtorQuietAssign", "false"), ("QuietCtorQuietAssign", "true"), ("QuietCtorLoudAssign", "false")):
        w.must_hold("noexcept(std::declval<VU<%s>&>() = 1L) == %s" % (P, want), "C05.noexcept", "variant<Unrelated, %s>::operator=(long)" % P,
                    "noexcept-specification covers the assignment and the construction of the alternative", P)
    # get_if hands out the address of the alternative itself (std::addressof), whatever the element type does with unary &
    w.must_compile("inline const void* get_if_addr(xtl::variant<NoAddressOf, int>* v, const xtl::variant<NoAddressOf, int>* cv) { "
                   "const void* a = xtl::get_if<0>(v); const void* b = xtl::get_if<NoAddressOf>(cv); return a ? a : b; }",
                   "C05.guard", "get_if", "the result is the address of the alternative (addressof), not what the element's operator& returns", "element type with deleted operator&")
    for n in (255, 256):
        w.raw("using V%d = mk<std::make_integer_sequence<int, %d>>::type; constexpr V%d v%d(mpark::in_place_index_t<%d>{});" % (n, n, n, n, n - 1))
        w.must_hold("v%d.index() == %d && !v%d.valueless_by_exception()" % (n, n - 1, n), "C05.traits", "variant of %d alternatives" % n, "last alternative is distinct from valueless", "index %d" % (n - 1))
    w.raw("}")
    for comp, std in ([("clang++", "gnu++17"), ("g++", "gnu++14")] if tier == "quick" else [("clang++", "gnu++14"), ("clang++", "gnu++17"), ("clang++", "gnu++20"), ("g++", "gnu++14"), ("g++", "gnu++17")]):
        w.run(rep, std=std, compiler=comp)


def run(tier):
    rep = Report("C05", tier, "other",
                 "Structural necessary conditions decided on the template patterns of mpark::variant (so for every alternative set at once): "
                 "(life) destroy, generic_construct, emplace, assign_alt (both functor branches), assign, generic_assign, swap with its "
                 "rollback, the copy/move constructors and assignments and the destructor are simulated on abstract variants "
                 "{valueless, holds alt 0, holds alt 1} with calls followed into each other, visit_alt/visit_alt_at applied to the lambda "
                 "they are given, local variants destroyed at scope exit, and an exceptional successor at every element construction, "
                 "element assignment, element swap and temporary; at every normal and exceptional exit each variant must be valueless with no "
                 "live alternative or hold exactly the alternative its index names; nothing is constructed over a live alternative or "
                 "destroyed twice; results carry the requested/source index; (shape) the primitives the simulation names; (relop) the six "
                 "relational operators against [variant.relops] under every valueless/index-order scenario incl. functor and operand order; "
                 "(guard) get/get_if/visit/hash reach an alternative only under their guard; (switch) the 32-way dispatch switches of a "
                 "40-alternative instantiation.  That element constructors run exactly once inside construct_alt, overload selection of the "
                 "converting constructor, and history-level value equality with std::variant are NOT decided.",
                 trusted_base=["clang 14 AST of the template patterns", "sa/flow.py", "the abstract variant interpreter in sa/rules/c05.py"],
                 assumptions=["element constructors, assignments and swaps may throw; destructors do not", "MPARK_CPP14_CONSTEXPR / generic-lambda configuration (C++14 and later)"])
    rep.rule("C05.life", "at every normal and exceptional exit of the lifetime machinery each variant is valueless with no live alternative, or holds exactly the "
                         "alternative its index reports; no construction over a live alternative, no destruction of a dead one; results have the requested / source index")
    rep.rule("C05.noexcept", "the conditional noexcept-specification of the move constructor, move assignment and swap requires a nothrow trait for every kind of element "
                             "operation (move construction, move assignment, swap) from which the simulated body has an exceptional successor")
    rep.rule("C05.shape", "valueless_by_exception() is index_ == index_t(-1); index() maps valueless to variant_npos; base constructors publish -1 / I; construct_alt is "
                          "a placement new at the alternative; the destroy visitor is an explicit destructor call")
    rep.rule("C05.relop", "each relational operator yields the [variant.relops] result for every (lhs valueless, rhs valueless, index order) and compares same-index values "
                          "with its own functor on (lhs, rhs)")
    rep.rule("C05.guard", "get reaches the alternative only under holds_alternative<I> and otherwise throws bad_variant_access; get_if tests null and holds_alternative; "
                          "visit tests every operand for valueless; hash visits only a valued variant")
    rep.rule("C05.switch", "in every instantiated 32-way dispatch switch the case labels are B..B+31, each dispatches the alternative of its label, default continues at B+32")
    configs = [("gnu++17", []), ("gnu++17", ["-fno-exceptions"])]       # the exceptions-disabled branch of swap/assign is other code
    if tier == "thorough":
        configs += [("gnu++14", []), ("gnu++20", [])]
    for std, extra in configs:
        d = cj.dump(PAT_DRIVER, "mpark::", std=std, extra=extra)
        rep.cmd(d.cmd)
        pats = Patterns(d)
        rep.unit("template patterns of xvariant_impl.hpp (-std=%s %s): %d function definitions" % (std, " ".join(extra), sum(len(v) for v in pats.by.values())))
        rule_shape(rep, d, pats)
        rule_life(rep, d, pats)
        rule_relop(rep, d)
        if not extra:
            rule_guard(rep, d, pats)      # without exceptions throw_bad_variant_access terminates: C19 pairs that configuration
    rule_switch(rep, tier)
    rule_traits(rep, tier)
    return rep
