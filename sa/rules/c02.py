"""C02 - fixed string stays inside its buffer; failed operations change nothing (throwing policy).

Structural clauses decided on every instantiated member, all paths: (cbe) no may-throw check or delegate after the first
effect on *this; (pos) every position parameter used as an offset into X or subtracted from X.size() is dominated by a
check against that same X; (pub) every published length is exactly a policy-check result, the size of a same-capacity
string, or 0; (exc) the exception-type table.  Byte-exact extents of the shifting writes are not decided."""
import re

from .. import clangjson as cj
from .. import ir
from .. import flow
from .. import norm
from .. import fstring as fs
from .. import linear
from ..linear import Lin
from ..report import Report

INSTS = {
    "quick": [("P16", "char", 16, "xtl::buffer | xtl::store_size", "throwing_error"), ("E16", "char", 16, "xtl::buffer", "throwing_error")],
    "thorough": [("P16", "char", 16, "xtl::buffer | xtl::store_size", "throwing_error"), ("E16", "char", 16, "xtl::buffer", "throwing_error"),
                 ("F300", "char", 300, "xtl::buffer | xtl::store_size", "throwing_error"), ("W16", "wchar_t", 16, "xtl::buffer | xtl::store_size", "throwing_error")],
}


def may_throw_summary(S):
    """member id -> may throw by design (has a check, or calls a member that may throw)"""
    d = S.d
    direct = {}
    calls = {}
    for f in S.fns:
        has = False
        cs = set()
        for n in ir.walk_expr(f):
            if n.get("kind") == "CXXThrowExpr" or fs.policy_check(n):
                has = True
            nm = fs.this_member_call(n)
            if nm in ("check_index", "check_index_strict"):
                has = True
            if nm is not None:
                t = fs.member_target(d, n)
                if t is not None:
                    cs.add(t.get("id"))
            if n.get("kind") in ("CXXConstructExpr", "CXXTemporaryObjectExpr") and "xbasic_fixed_string" in ir.qtype(n):
                pass
        direct[f.get("id")] = has
        calls[f.get("id")] = cs
    changed = True
    while changed:
        changed = False
        for fid, cs in calls.items():
            if not direct[fid] and any(direct.get(c) for c in cs):
                direct[fid] = True
                changed = True
    return direct


def rule_cbe(rep, S):
    R = "C02.cbe"
    d = S.d
    mt = may_throw_summary(S)
    for fn in S.fns:
        if fn.get("kind") == "CXXDestructorDecl" or fn.get("isImplicit") or fn.get("explicitlyDefaulted"):
            continue
        q = ir.qtype(fn)
        is_const = bool(re.search(r"\)\s*const", q))
        lab = "%s::%s" % (S.tag, S.label(fn))
        bl = fs.buffer_locals(fn)
        try:
            paths = flow.function_paths(fn, with_ctor_inits=False)
        except cj.AnalysisBroken as e:
            rep.inconclusive(R, lab, "checks before effects", where=d.where(fn), detail=str(e))
            continue
        bad = None
        neff = nchk = 0
        for path in paths:
            effect = None
            for st in path:
                if st[0] != "ev":
                    continue
                n = st[1]
                sc = fs.storage_call(n)
                w = fs.write_event(n, fn, bl)
                tm = fs.this_member_call(n)
                is_effect = sc in ("set_size", "adjust_size") or w is not None
                thrower = None
                if fs.policy_check(n):
                    thrower = "capacity check %s" % fs.policy_check(n)
                elif tm in ("check_index", "check_index_strict"):
                    thrower = "position check %s" % tm
                elif tm is not None:
                    t = fs.member_target(d, n)
                    if t is not None and mt.get(t.get("id")):
                        thrower = "call to %s, which may throw" % S.label(t)
                        if not re.search(r"\)\s*const", ir.qtype(t)):
                            pass
                if thrower:
                    nchk += 1
                    if effect is not None and bad is None:
                        bad = (n, "%s is evaluated after `%s` has already modified the string: if it throws, the string is left changed" % (
                            thrower, d.text(effect)[:60].replace("\n", " ")))
                if is_effect and effect is None:
                    effect = n
                    neff += 1
                # a delegate that modifies *this counts as an effect for what follows
                if tm is not None and not is_effect and effect is None:
                    t = fs.member_target(d, n)
                    if t is not None and not re.search(r"\)\s*const", ir.qtype(t)) and t.get("name") not in ("data", "begin", "end", "rbegin", "rend", "operator[]", "front", "back", "at"):
                        effect = n
        if bad:
            rep.violates(R, lab, "checks before effects", where=d.where(bad[0]), detail=bad[1])
        else:
            rep.holds(R, lab, "checks before effects", where=d.where(fn), detail="%d paths" % len(paths), nontrivial=nchk > 0 and neff > 0)


def size_of_obj(t):
    """sx term X.size() / X.length() / size() -> object term X (('this',) for *this), else None"""
    if t[0] == "cast":
        return size_of_obj(t[3])
    if t[0] == "call" and t[1][0] == "mem" and t[1][2] in ("size", "length") and len(t) == 2:
        return t[1][1]
    return None


def offset_params(S, fn, known):
    """indices of the integer parameters of fn that are used as an offset into *this / subtracted from size() (directly, or by being passed on to a
    helper that does so) - without regard to checks"""
    ints = {p.get("name"): i for i, p in enumerate(ir.params(fn)) if ir.qtype(p) in ("unsigned long", "unsigned long long", "unsigned int")}
    loc = fs.local_sx(fn)
    out = set()
    for n in ir.walk_expr(fn):
        if n.get("kind") == "BinaryOperator" and n.get("opcode") in ("+", "-"):
            t = fs.subst_locals(ir.sx(n), loc)
            if t[0] != "bin":
                continue
            for a, b in ((t[2], t[3]), (t[3], t[2])):
                while b[0] == "cast":
                    b = b[3]
                if b[0] == "ref" and b[1] in ints:
                    if t[1] == "+" and a[0] == "call" and a[1][0] == "mem" and a[1][1] == ("this",) and a[1][2] in ("data", "c_str", "begin", "cbegin"):
                        out.add(ints[b[1]])
                    if t[1] == "-" and a is t[2] and size_of_obj(a) == ("this",):
                        out.add(ints[b[1]])
        tm = fs.this_member_call(n)
        if tm is not None:
            tgt = fs.member_target(S.d, n)
            if tgt is not None and tgt.get("id") in known:
                for i, a in enumerate(ir.ekids(n)[1:]):
                    ta = fs.subst_locals(ir.sx(a), loc)
                    while ta[0] == "cast":
                        ta = ta[3]
                    if i in known[tgt.get("id")] and ta[0] == "ref" and ta[1] in ints:
                        out.add(ints[ta[1]])
    return out


def rule_noexcept(rep, S, R="C02.exc"):
    """a member that reports an error by throwing (it contains a check, or calls a member that does) cannot be noexcept: the exception the throwing policy
    raises for a bad position / an overlong result would end in std::terminate instead of reaching the caller"""
    d = S.d
    mt = may_throw_summary(S)
    n = 0
    for fn in S.fns:
        q = (fn.get("type") or {}).get("qualType", "")
        if "noexcept" not in q.split(")")[-1]:
            continue
        n += 1
        lab = "%s::%s" % (S.tag, S.label(fn))
        if mt.get(fn.get("id")):
            rep.violates(R, lab, "a throwing member is not noexcept", where=d.where(fn),
                         detail="declared noexcept but it checks a position or a length (directly or through a member it calls): under the throwing policy the "
                                "out_of_range / length_error becomes std::terminate")
    if n:
        rep.holds(R, "%s: noexcept members" % S.tag, "a throwing member is not noexcept", detail="%d noexcept members, none of them can raise" % n, nontrivial=False)


def rule_cbe_free(rep, S, d, R="C02.cbe"):
    """non-member functions that change a string passed by reference (operator>>): every member they call keeps the strong guarantee for itself, so the
    function keeps it exactly if no member that may throw is called after a member that has modified the string"""
    mt = may_throw_summary(S)
    cid = S.cls.get("id")
    n = 0
    for fn in ir.functions(d):
        if ir.is_template_pattern(d, fn) or ir.enclosing_class(d, fn) is not None or ir.body(fn) is None:
            continue
        tgt = [p for p in ir.params(fn) if "xbasic_fixed_string" in ir.qtype(p) and ir.qtype(p).rstrip().endswith("&") and not ir.qtype(p).rstrip().endswith("&&")
               and not ir.qtype(p).startswith("const ")]
        if not tgt:
            continue
        names = {p.get("name") for p in tgt}

        def member_on_param(x):
            """(target member, True) if x is a call of a member of this instantiation on one of the reference parameters"""
            c = ir.strip(ir.ekids(x)[0])
            if c.get("kind") == "MemberExpr":
                t = d.by_id.get(c.get("referencedMemberDecl"))
                base = ir.sx(ir.ekids(c)[0]) if ir.ekids(c) else None
            else:
                t = d.by_id.get((c.get("referencedDecl") or {}).get("id"))
                base = ir.sx(ir.ekids(x)[1]) if len(ir.ekids(x)) > 1 else None
            if t is None or base is None or not (base[0] == "ref" and base[1] in names) or (ir.enclosing_class(d, t) or {}).get("id") != cid:
                return None
            return t
        if not any(x.get("kind") in ("CXXMemberCallExpr", "CXXOperatorCallExpr") and member_on_param(x) is not None for x in ir.walk_expr(fn)):
            continue
        lab = "%s %s(%s)" % (S.tag, fn.get("name"), ", ".join(fs.simple_type(ir.wtype(p)) for p in ir.params(fn)))
        try:
            paths = flow.function_paths(fn, with_ctor_inits=False)
        except cj.AnalysisBroken as e:
            rep.inconclusive(R, lab, "checks before effects", where=d.where(fn), detail=str(e))
            continue
        n += 1
        bad = None
        nmod = 0
        for path in paths:
            effect = None
            for st in path:
                if st[0] != "ev" or st[1].get("kind") not in ("CXXMemberCallExpr", "CXXOperatorCallExpr"):
                    continue
                x = st[1]
                t = member_on_param(x)
                if t is None:
                    continue
                if mt.get(t.get("id")) and effect is not None and bad is None:
                    bad = (x, "`%s` may throw after `%s` has already modified the string: the caller sees a string that is neither the old nor the new value" % (
                        d.text(x)[:50].replace("\n", " "), d.text(effect)[:50].replace("\n", " ")))
                if not re.search(r"\)\s*const", ir.qtype(t)) and t.get("name") not in ("data", "begin", "end", "rbegin", "rend", "operator[]", "front", "back", "at"):
                    if effect is None:
                        effect = x
                        nmod += 1
        if bad:
            rep.violates(R, lab, "checks before effects", where=d.where(bad[0]), detail=bad[1])
        else:
            rep.holds(R, lab, "checks before effects", where=d.where(fn), detail="%d paths" % len(paths), nontrivial=nmod > 0)
    if n == 0:
        rep.inconclusive(R, "%s operator>>" % S.tag, "checks before effects", detail="no non-member function modifying a string passed by reference was instantiated (anchor moved?)")


def rule_pos(rep, S, R="C02.pos"):
    d = S.d
    access0 = fs.member_access(S.cls)
    helper_uses = {}
    for _ in range(2):
        for f in S.fns:
            if access0.get(f.get("id"), "public") != "public" and f.get("name") not in ("check_index", "check_index_strict"):
                helper_uses[f.get("id")] = offset_params(S, f, helper_uses)
    for fn in S.fns:
        if fn.get("isImplicit") or fn.get("explicitlyDefaulted"):
            continue
        ints = {p.get("name") for p in ir.params(fn) if ir.qtype(p) in ("unsigned long", "unsigned long long", "unsigned int")}
        if not ints:
            continue
        lab = "%s::%s" % (S.tag, S.label(fn))
        objs = {}
        loc = fs.local_sx(fn)
        access = fs.member_access(S.cls)
        is_helper = access.get(fn.get("id"), "public") != "public"
        helper = fs.calls_private_helper(S, fn, access)

        def symmap(t):
            t = fs.subst_locals(t, loc)
            if t[0] == "ref" and t[1] in ints:
                return "p:" + t[1]
            o = size_of_obj(t)
            if o is not None:
                key = "size:" + ir.show(o)
                objs[key] = o
                return key
            return None
        paths = flow.function_paths(fn, with_ctor_inits=False, events=lambda n: n.get("kind") == "BinaryOperator" and n.get("opcode") in ("+", "-"))
        verdicts = {}
        for path in paths:
            checked = set()        # (param, object shown) established p <= size(object)
            for i, st in enumerate(path):
                if st[0] != "ev":
                    continue
                n = st[1]
                tm = fs.this_member_call(n)
                if tm in ("check_index", "check_index_strict"):
                    a = [fs.subst_locals(ir.sx(x), loc) for x in ir.ekids(n)[1:3]]
                    if a[0][0] == "ref" and a[0][1] in ints:
                        o = size_of_obj(a[1])
                        if o is not None:
                            checked.add((a[0][1], ir.show(o)))
                    continue
                use = None
                if tm is not None:
                    tgt = fs.member_target(d, n)
                    if tgt is not None and helper_uses.get(tgt.get("id")):
                        for ai, a_ in enumerate(ir.ekids(n)[1:]):
                            ta = fs.subst_locals(ir.sx(a_), loc)
                            while ta[0] == "cast":
                                ta = ta[3]
                            if ai in helper_uses[tgt.get("id")] and ta[0] == "ref" and ta[1] in ints:
                                use = (ta[1], ("this",), "argument `%s` of helper %s(), which offsets into the string with it" % (ta[1], tgt.get("name")))
                if use is None and (n.get("kind") != "BinaryOperator" or n.get("opcode") not in ("+", "-")):
                    continue
                t = fs.subst_locals(ir.sx(n), loc) if use is None else ("none",)
                if use is None and t[0] != "bin":
                    continue
                # X.data() + p / X.c_str() + p / X.cbegin() + p
                if use is None and t[1] == "+":
                    for a, b in ((t[2], t[3]), (t[3], t[2])):
                        bb = b
                        while bb[0] == "cast":
                            bb = bb[3]
                        if bb[0] == "ref" and bb[1] in ints and a[0] == "call" and a[1][0] == "mem" and a[1][2] in ("data", "c_str", "begin", "cbegin") and len(a) == 2:
                            use = (bb[1], a[1][1], "offset `%s`" % ir.show(t))
                if use is None and t[1] == "-":
                    bb = t[3]
                    while bb[0] == "cast":
                        bb = bb[3]
                    o = size_of_obj(t[2])
                    if o is not None and bb[0] == "ref" and bb[1] in ints:
                        use = (bb[1], o, "subtraction `%s`" % ir.show(t))
                if use is None:
                    continue
                p, o, what = use
                okey = ir.show(o)
                ok = (p, okey) in checked
                if not ok:
                    facts = fs.path_lin_facts(path[:i], symmap)
                    nonneg = tuple("p:" + x for x in ints) + tuple(objs)
                    goal = Lin({"size:" + okey: 1, "p:" + p: -1})
                    ok = linear.entails(facts, goal, nonneg)
                key = (id(n))
                prev = verdicts.get(key)
                other = sorted(x[1] for x in checked if x[0] == p)
                verdicts[key] = (n, p, okey, what, (prev[4] if prev else True) and ok, other)
        for n, p, okey, what, ok, other in verdicts.values():
            cons = "%s of parameter `%s`" % (what, p)
            if ok:
                rep.holds(R, lab, cons, where=d.where(n), detail="dominated by a check of `%s` against %s.size()" % (p, okey if okey != "this" else "this->"))
            elif is_helper:
                rep.holds(R, lab, cons, where=d.where(n), detail="non-public helper: the position is validated by its callers (each caller is analysed)", nontrivial=False)
            else:
                rep.violates(R, lab, cons, where=d.where(n),
                             detail="`%s` is used relative to `%s` without a dominating check_index[_strict](%s, %s.size()) or branch establishing %s <= %s.size()%s" % (
                                 p, okey, p, okey, p, okey, ("; it was checked against %s instead" % ", ".join(other)) if other else ""))


def rule_pub(rep, S, R="C02.pub"):
    d = S.d
    for fn in S.fns:
        lab = "%s::%s" % (S.tag, S.label(fn))
        linit = {}
        for n in ir.walk_expr(fn):
            if n.get("kind") == "VarDecl" and ir.ekids(n):
                linit[n.get("name")] = ir.ekids(n)[-1]
        selfparams = {p.get("name") for p in ir.params(fn) if "xbasic_fixed_string" in ir.qtype(p)}
        for n in ir.walk_expr(fn):
            sc = fs.storage_call(n)
            if sc == "set_size":
                arg = ir.ekids(n)[1]
                node = ir.strip(arg)
                hops = 0
                while node.get("kind") == "DeclRefExpr" and (node.get("referencedDecl") or {}).get("name") in linit and hops < 4:
                    node = ir.strip(linit[(node.get("referencedDecl") or {}).get("name")])
                    hops += 1
                t = ir.sx(node)
                ok = False
                why = ""
                if fs.policy_check(node):
                    ok, why = True, "result of %s" % fs.policy_check(node)
                elif t == ("lit", "0"):
                    ok, why = True, "0"
                else:
                    o = size_of_obj(t)
                    if o is not None and o[0] == "ref" and o[1] in selfparams:
                        ok, why = True, "size of a string of the same capacity"
                    elif t[0] == "bin" and t[1] == "-" and size_of_obj(t[2]) == ("this",) and "unsigned" in ir.wtype(node) + ir.qtype(node):
                        ok, why = True, "the own size() less something: shrinks (as adjust_size(-k))"
                cons = "set_size(%s)" % d.text(arg)[:50].replace("\n", " ")
                if ok:
                    rep.holds(R, lab, cons, where=d.where(n), detail=why)
                else:
                    rep.violates(R, lab, cons, where=d.where(n),
                                 detail="the published length `%s` is not itself the result of error_policy::check_size/check_add (nor a same-capacity size, nor 0): "
                                        "a length that was never checked, or was changed after the check, becomes the string's size" % ir.show(t)[:80])
            elif sc == "adjust_size":
                arg = ir.sx(ir.ekids(n)[1])
                neg = arg[0] == "un" and arg[1] == "-" or (arg[0] == "lit" and str(arg[1]).startswith("-"))
                cons = "adjust_size(%s)" % ir.show(arg)[:40]
                if neg:
                    verdict, why_ = _shrink_amount(S, d, fn, n, ir.ekids(n)[1], linit)
                    if verdict == "bad":
                        rep.violates(R, lab, cons, where=d.where(n), detail=why_)
                    elif verdict == "unknown":
                        rep.inconclusive(R, lab, cons, where=d.where(n), detail=why_)
                    else:
                        rep.holds(R, lab, cons, where=d.where(n), detail="shrinks" + ("; " + why_ if why_ else ""))
                    continue
                # a difference whose sign is not visible in its spelling: not a growth that could be named
                inner = ir.strip(ir.ekids(n)[1])
                while inner.get("kind") in ("CXXStaticCastExpr", "CXXFunctionalCastExpr", "CStyleCastExpr") and ir.ekids(inner):
                    inner = ir.strip(ir.ekids(inner)[-1])
                hops = 0
                while inner.get("kind") == "DeclRefExpr" and (inner.get("referencedDecl") or {}).get("name") in linit and hops < 4:
                    inner = ir.strip(linit[(inner.get("referencedDecl") or {}).get("name")])
                    hops += 1
                ti = ir.sx(inner)
                if ti[0] == "un" and ti[1] == "-":
                    rep.holds(R, lab, cons, where=d.where(n), detail="shrinks")
                elif ti[0] == "bin" and ti[1] == "-" and "unsigned" not in ir.wtype(inner) and "size_t" not in ir.qtype(inner):
                    why_neg = _difference_shrinks(d, fn, n, inner, linit)
                    if why_neg:
                        rep.holds(R, lab, cons, where=d.where(n), detail="shrinks: " + why_neg)
                    else:
                        rep.inconclusive(R, lab, cons, where=d.where(n), detail="the sign of the difference `%s` is not decided here" % ir.show(ti)[:60])
                else:
                    rep.violates(R, lab, cons, where=d.where(n), detail="grows the length without a capacity check")


def _own_size(t):
    t = norm.uncast(t)
    return t[0] == "call" and len(t) == 2 and ((t[1][0] == "mem" and t[1][2] in ("size", "length") and norm.uncast(t[1][1]) in (("this",), ("un", "*", ("this",))))
                                                or t[1] in (("ref", "size"), ("ref", "length")))


def _shrink_amount(S, d, fn, call, argnode, linit, depth=0):
    """adjust_size(-k): the length only stays a length when k is at most the current size.  k is followed through casts and single-assignment locals:
    a literal (pop_back: non-empty by contract), the smaller of something and `size() - e`, a difference `p - q` whose `p` is capped by the string's end,
    `size() - e` itself; a bare parameter of a public member is not capped by anything -> violation; a parameter of a non-public worker is judged at the
    worker's call sites.  -> ("ok" | "bad" | "unknown", text)"""
    node = ir.strip(argnode)
    if node.get("kind") == "UnaryOperator" and node.get("opcode") == "-":
        node = ir.strip(ir.ekids(node)[0])

    def peel(node, hops=0):
        node = ir.strip(node)
        while True:
            if node.get("kind") in ("CXXStaticCastExpr", "CXXFunctionalCastExpr", "CStyleCastExpr", "ImplicitCastExpr", "MaterializeTemporaryExpr", "ExprWithCleanups") and ir.ekids(node):
                node = ir.strip(ir.ekids(node)[-1])
                continue
            if node.get("kind") == "DeclRefExpr" and (node.get("referencedDecl") or {}).get("name") in linit and hops < 5 and \
                    (node.get("referencedDecl") or {}).get("kind") == "VarDecl":
                node = ir.strip(linit[(node.get("referencedDecl") or {}).get("name")])
                hops += 1
                continue
            return node
    node = peel(node)
    k = node.get("kind")
    t = norm.uncast(ir.sx(node))
    if k == "IntegerLiteral":
        return "ok", ""

    def size_minus(tt):
        tt = norm.uncast(tt)
        if _own_size(tt):
            return True
        if tt[0] == "ref" and tt[1] in linit:
            return size_minus(ir.sx(linit[tt[1]]))
        return tt[0] == "bin" and tt[1] == "-" and size_minus(tt[2])
    if size_minus(t):
        return "ok", "`%s` is at most the size" % ir.show(t)[:40]
    # min(x, y) / x < y ? x : y
    two = None
    if k == "CallExpr" and len(ir.ekids(node)) == 3 and ir.show(ir.sx(ir.ekids(node)[0])).endswith("min"):
        two = ir.ekids(node)[1:]
    elif k == "ConditionalOperator":
        kk = ir.ekids(node)
        c_ = ir.strip(kk[0])
        if c_.get("kind") == "BinaryOperator" and c_.get("opcode") in ("<", "<=", ">", ">="):
            l_, r_ = [norm.uncast(ir.sx(x)) for x in ir.ekids(c_)]
            if c_.get("opcode") in (">", ">="):
                l_, r_ = r_, l_
            if norm.uncast(ir.sx(kk[1])) == l_ and norm.uncast(ir.sx(kk[2])) == r_:
                two = kk[1:]
    if two:
        if any(size_minus(ir.sx(peel(x))) or size_minus(ir.sx(x)) for x in two):
            return "ok", "the smaller of `%s` and `%s`" % tuple(re.sub(r"\s+", " ", d.text(x))[:30] for x in two)
        return "unknown", "neither operand of `%s` is the size less something" % re.sub(r"\s+", " ", d.text(node))[:60]
    if k == "BinaryOperator" and node.get("opcode") == "-":
        # an iterator / pointer difference p - q: at most the size when p is capped by the end (q not before the beginning is the member's contract / guard)
        why = _difference_shrinks(d, fn, call, _swap_operands(node), linit)
        if why:
            return "ok", why
        return "unknown", "`%s` is not shown to be at most the size" % re.sub(r"\s+", " ", d.text(node))[:60]
    if k == "DeclRefExpr" and (node.get("referencedDecl") or {}).get("kind") == "ParmVarDecl":
        pname = (node.get("referencedDecl") or {}).get("name")
        pid = (node.get("referencedDecl") or {}).get("id")
        # a parameter that the body itself clamps (`count = std::min(count, size() - index);`) is what that assignment makes it
        writes = []
        for x in ir.walk_expr(ir.body(fn) or {}):
            if x.get("kind") in ("BinaryOperator", "CompoundAssignOperator", "UnaryOperator") and ir.ekids(x):
                op = x.get("opcode") or ""
                if op in ("++", "--") or (op.endswith("=") and op not in ("==", "!=", "<=", ">=")):
                    l_ = ir.strip(ir.ekids(x)[0])
                    if l_.get("kind") == "DeclRefExpr" and (l_.get("referencedDecl") or {}).get("id") == pid:
                        writes.append(x)
        if writes:
            if len(writes) == 1 and writes[0].get("opcode") == "=" and depth < 3:
                rhs = ir.ekids(writes[0])[1]
                # the right-hand side may mention the parameter's incoming value: only the capped forms are accepted, never the bare parameter again
                r_ = rhs
                while ir.strip(r_).get("kind") in ("ImplicitCastExpr", "CXXStaticCastExpr", "CXXFunctionalCastExpr") and ir.ekids(ir.strip(r_)):
                    r_ = ir.ekids(ir.strip(r_))[-1]
                if ir.strip(r_).get("kind") == "DeclRefExpr":
                    return "unknown", "`%s` is reassigned from another variable" % pname
                return _shrink_amount(S, d, fn, call, rhs, linit, depth + 1)
            return "unknown", "the parameter `%s` is modified in the body" % pname
        access = fs.member_access(S.cls)
        if access.get(fn.get("id"), "public") == "public":
            return "bad", "takes `%s` characters off the length, a parameter that nothing caps by the current size: for a larger value the length wraps around to a huge one" % pname
        if depth >= 2:
            return "unknown", "worker of a worker"
        idx = [p_.get("name") for p_ in ir.params(fn)].index(pname)
        sites = 0
        for g in S.fns:
            if g is fn:
                continue
            glinit = {v.get("name"): ir.ekids(v)[-1] for v in ir.walk_expr(g) if v.get("kind") == "VarDecl" and ir.ekids(v)}
            for c_ in ir.walk_expr(ir.body(g) or {}):
                if c_.get("kind") != "CXXMemberCallExpr":
                    continue
                cal = ir.strip(ir.ekids(c_)[0])
                if cal.get("kind") != "MemberExpr" or cal.get("referencedMemberDecl") != fn.get("id"):
                    continue
                args = ir.ekids(c_)[1:]
                if idx >= len(args):
                    continue
                sites += 1
                v_, w_ = _shrink_amount(S, d, g, c_, args[idx], glinit, depth + 1)
                if v_ != "ok":
                    return v_, "called from %s with `%s`: %s" % (g.get("name"), re.sub(r"\s+", " ", d.text(args[idx]))[:40], w_)
        if sites == 0:
            return "unknown", "no call site of the worker %s found" % fn.get("name")
        return "ok", "`%s` is capped at each of the %d call site(s) of this worker" % (pname, sites)
    return "unknown", "the amount `%s` is not in a recognised form" % re.sub(r"\s+", " ", d.text(node))[:60]


def _swap_operands(node):
    """q - p for p - q (the argument order _difference_shrinks expects: first - last)"""
    n2 = dict(node)
    ks = ir.ekids(node)
    n2["inner"] = [ks[1], ks[0]]
    return n2


def _difference_shrinks(d, fn, call, diff, linit):
    """`a - b` handed to adjust_size: non-positive when every value b can take is at or behind a.  b is followed through its initialiser and the arms of a
    `?:` / std::min; an arm that is the string's own end is behind `a` when the call sits under a test `a < end` / `a <= end`; an arm that is the
    parameter `last` is behind the parameter `first` by the iterator-range contract [first, last) of the member.  -> reason or None"""
    ks = ir.ekids(diff)
    if len(ks) != 2:
        return None
    a = norm.uncast(ir.sx(ks[0]))
    if a[0] != "ref":
        return None
    pnames = [p_.get("name") for p_ in ir.params(fn)]
    ptypes = {p_.get("name"): ir.qtype(p_) for p_ in ir.params(fn)}

    def is_end(t, depth=0):
        t = norm.uncast(t)
        if t[0] == "call" and len(t) == 2 and t[1][0] == "mem" and t[1][2] in ("cend", "end") and norm.uncast(t[1][1]) in (("this",), ("un", "*", ("this",))):
            return True
        if t[0] == "call" and len(t) == 2 and t[1] in (("ref", "cend"), ("ref", "end")):
            return True
        if t[0] == "ref" and t[1] in linit and depth < 3:
            return is_end(ir.sx(linit[t[1]]), depth + 1)
        return False

    def arms(node, depth=0):
        node = ir.strip(node)
        while node.get("kind") in ("ImplicitCastExpr", "MaterializeTemporaryExpr", "ExprWithCleanups", "CXXBindTemporaryExpr", "CXXConstructExpr") and len(ir.ekids(node)) == 1:
            node = ir.strip(ir.ekids(node)[0])
        if node.get("kind") == "ConditionalOperator":
            kk = ir.ekids(node)
            c_ = ir.strip(kk[0])
            if c_.get("kind") == "BinaryOperator" and c_.get("opcode") in ("<", "<=", ">", ">="):
                l_, r_ = [norm.uncast(ir.sx(x)) for x in ir.ekids(c_)]
                if c_.get("opcode") in (">", ">="):
                    l_, r_ = r_, l_
                # l_ < r_ ? l_ : r_   is the smaller of the two
                if norm.uncast(ir.sx(kk[1])) == l_ and norm.uncast(ir.sx(kk[2])) == r_:
                    return [("min", arms(kk[1], depth), arms(kk[2], depth))]
            return [("either", arms(kk[1], depth), arms(kk[2], depth))]
        if node.get("kind") == "CallExpr" and len(ir.ekids(node)) == 3 and ir.show(ir.sx(ir.ekids(node)[0])).endswith("min"):
            return [("min", arms(ir.ekids(node)[1], depth), arms(ir.ekids(node)[2], depth))]
        if node.get("kind") == "DeclRefExpr" and (node.get("referencedDecl") or {}).get("name") in linit and depth < 3 and not is_end(ir.sx(node)):
            return arms(linit[(node.get("referencedDecl") or {}).get("name")], depth + 1)
        return [node]
    # tests dominating the call: conditions of enclosing if statements whose then-branch holds the call
    guarded_end = False
    cur, par = call, d.parent_of(call)
    hops = 0
    while par is not None and par is not fn and hops < 40:
        if par.get("kind") == "IfStmt":
            kk = ir.kids(par)
            cond_i = 0
            stmts_ = [x for x in kk]
            # the then-branch is the statement after the condition
            exprs = [x for x in stmts_ if x.get("kind") not in ("DeclStmt",)]
            if len(exprs) >= 2 and exprs[1] is cur:
                for c_ in [exprs[0]] + [x for x in ir.walk_expr(exprs[0])]:
                    if c_.get("kind") == "BinaryOperator" and c_.get("opcode") in ("<", "<=", ">", ">="):
                        l_, r_ = [norm.uncast(ir.sx(x)) for x in ir.ekids(c_)]
                        if c_.get("opcode") in (">", ">="):
                            l_, r_ = r_, l_
                        if l_ == a and is_end(r_):
                            # only conjunctions lead here: the test must hold on the way to the call
                            up, ok_chain = d.parent_of(c_), True
                            while up is not None and up is not par:
                                if up.get("kind") == "BinaryOperator" and up.get("opcode") == "||":
                                    ok_chain = False
                                if up.get("kind") == "UnaryOperator" and up.get("opcode") == "!":
                                    ok_chain = False
                                up = d.parent_of(up)
                            guarded_end = guarded_end or ok_chain
        cur, par = par, d.parent_of(par)
        hops += 1
    if not guarded_end:
        # path-wise: every path that reaches the call has passed a test `a < end` (early returns instead of an enclosing if)
        try:
            paths_ = flow.function_paths(fn, with_ctor_inits=False)
        except cj.AnalysisBroken:
            paths_ = []
        NEG_ = {"<": ">=", "<=": ">", ">": "<=", ">=": "<"}
        seen_call = 0
        all_ok = True
        for path_ in paths_:
            at = None
            for i_, st_ in enumerate(path_):
                nd_ = st_[1] if len(st_) > 1 and isinstance(st_[1], dict) else None
                if nd_ is not None and (nd_ is call or any(x is call for x in ir.walk_expr(nd_))):
                    at = i_
                    break
            if at is None:
                continue
            seen_call += 1
            ok_ = False
            for st_ in path_[:at]:
                if st_[0] != "cond" or not isinstance(st_[1], dict):
                    continue
                c_ = ir.strip(st_[1])
                if c_.get("kind") != "BinaryOperator" or c_.get("opcode") not in NEG_:
                    continue
                op_ = c_.get("opcode") if st_[2] else NEG_[c_.get("opcode")]
                l_, r_ = [norm.uncast(ir.sx(x)) for x in ir.ekids(c_)]
                if op_ in (">", ">="):
                    l_, r_, op_ = r_, l_, {">": "<", ">=": "<="}[op_]
                if l_ == a and is_end(r_):
                    ok_ = True
            all_ok = all_ok and ok_
        guarded_end = seen_call > 0 and all_ok
    reasons = []

    def capped(arm):
        """is the value at most the string's end (so that no more is taken off than the string has)?"""
        if isinstance(arm, tuple) and arm and arm[0] == "min":
            return any(all(capped(x) for x in side) for side in (arm[1], arm[2]))
        if isinstance(arm, tuple) and arm and arm[0] == "either":
            return all(capped(x) for side in (arm[1], arm[2]) for x in side)
        t_ = norm.uncast(ir.sx(arm))
        if t_[0] == "ref" and t_[1] == "last" and "first" in pnames and "last" in pnames and ptypes.get("first") == ptypes.get("last"):
            return True        # [first, last) is a range of this string by the member's contract: last <= end()
        return is_end(t_)

    def behind(arm):
        if isinstance(arm, tuple) and arm and arm[0] in ("min", "either"):
            return all(behind(x) for side in (arm[1], arm[2]) for x in side)
        t = norm.uncast(ir.sx(arm))
        if is_end(t):
            if guarded_end:
                reasons.append("`%s` is tested to lie before the end" % a[1])
                return True
            return False
        if t[0] == "ref" and t[1] == "last" and a[1] == "first" and "first" in pnames and "last" in pnames and ptypes.get("first") == ptypes.get("last"):
            reasons.append("[first, last) is the member's iterator range (first <= last by contract)")
            return True
        return False
    al = arms(ks[1])
    if al and all(behind(x) for x in al) and all(capped(x) for x in al):
        return "; ".join(sorted(set(reasons))) + "; the subtrahend is capped by the end of the string"
    return None


def rule_exc(rep, S, d):
    """The checking functions are summarised symbolically (sa/checkfn.py): every path of check_size / check_add / check_index /
    check_index_strict / at() is followed through the helpers it calls and ends in a normal return or in a throw; the facts
    on the path must then entail the side of the comparison that the outcome stands for."""
    R = "C02.exc"
    from .. import checkfn

    def judge(lab, what, fn, args, nonneg, throw_goal, ret_goal, exc, ret_value=None):
        """throw_goal / ret_goal: Lin forms that must be >= 0 on the throwing / returning paths"""
        try:
            outs, sm = checkfn.summarise(d, fn, args)
        except checkfn.Undecided as e:
            rep.inconclusive(R, lab, what, where=d.where(fn), detail=str(e))
            return
        bad = None
        nthrow = nret = 0
        import os
        if os.environ.get("C02_DEBUG"):
            for facts, end in outs:
                print("DBG", lab, [f.show() for f in facts], end if not (end[0] == "ret" and end[1] is not None) else ("ret", end[1].show()))
        for facts, end in outs:
            if linear.entails(facts, Lin({"": -1}), nonneg):
                continue            # contradictory path
            if end[0] == "throw":
                nthrow += 1
                if exc not in end[1]:
                    bad = "throws %s, expected std::%s" % (end[1], exc)
                elif not linear.entails(facts, throw_goal, nonneg):
                    bad = "throws on a path that did not establish %s" % what.split(" for ")[-1]
            elif end[0] == "noreturn":
                bad = "ends in %s() instead of throwing std::%s" % (end[1], exc)
            else:
                nret += 1
                if not linear.entails(facts, ret_goal, nonneg):
                    bad = "returns normally on a path that did not establish the negation of %s" % what.split(" for ")[-1]
                elif ret_value is not None and (end[1] is None or (end[1] - ret_value)):
                    bad = "returns `%s`, expected `%s`" % (end[1].show() if end[1] is not None else "?", ret_value.show())
        if not bad and not nthrow:
            bad = "never throws"
        if not bad and not nret:
            bad = "never returns"
        if bad:
            rep.violates(R, lab, what, where=d.where(fn), detail=bad)
        else:
            rep.holds(R, lab, what, where=d.where(fn), detail="%d throwing and %d returning paths%s" % (
                nthrow, nret, (", through %s" % ", ".join(sorted(set(sm.followed)))) if sm.followed else ""))

    for nm in ("check_size", "check_add"):
        for f in ir.functions(d, nm):
            c = ir.enclosing_class(d, f)
            if c is None or c.get("name") != "throwing_error" or ir.is_template_pattern(d, f):
                continue
            cap = int(ir.template_args(c)[0]) if ir.template_args(c) else None
            if cap is None:
                rep.inconclusive(R, "throwing_error::%s" % nm, "capacity", where=d.where(f), detail="template argument not found")
                continue
            lab = "throwing_error<%s>::%s" % (cap, nm)
            if nm == "check_size":
                tot = Lin({"size": 1})
                judge(lab, "length_error exactly for size > N", f, [tot], ("size",), tot + Lin({"": -(cap + 1)}), -tot + Lin({"": cap}), "length_error", tot)
            else:
                tot = Lin({"size1": 1, "size2": 1})
                judge(lab, "length_error exactly for size1 + size2 > N", f, [Lin({"size1": 1}), Lin({"size2": 1})], ("size1", "size2"),
                      tot + Lin({"": -(cap + 1)}), -tot + Lin({"": cap}), "length_error", tot)
    # check_index: out_of_range exactly for pos >= size; check_index_strict: exactly for pos > size
    P, Z = Lin({"pos": 1}), Lin({"size": 1})
    for fn in S.fns:
        if fn.get("name") == "check_index":
            judge("%s::check_index" % S.tag, "out_of_range exactly for pos >= size", fn, [P, Z, None], ("pos", "size"), P - Z, Z - P + Lin({"": -1}), "out_of_range")
        if fn.get("name") == "check_index_strict":
            judge("%s::check_index_strict" % S.tag, "out_of_range exactly for pos > size", fn, [P, Z, None], ("pos", "size"), P - Z + Lin({"": -1}), Z - P, "out_of_range")
    # at(): returns only for pos < size(), throws out_of_range otherwise
    for fn in S.fns:
        if fn.get("name") == "at":
            sz = None
            for g in S.fns:
                if g.get("name") == "size" and not ir.params(g):
                    try:
                        o_ = checkfn.summarise(d, g, [])[0]
                        if len(o_) == 1 and o_[0][1][0] == "ret":
                            sz = o_[0][1][1] if o_[0][1][1] is not None else Lin({"size()": 1})
                    except checkfn.Undecided:
                        pass
            if sz is None or len(sz) != 1 or list(sz.values()) != [1]:
                rep.inconclusive(R, "%s::%s" % (S.tag, S.label(fn)), "out_of_range exactly for pos >= size()", where=d.where(fn), detail="size() is not a single observable quantity")
                continue
            judge("%s::%s" % (S.tag, S.label(fn)), "out_of_range exactly for pos >= size()", fn, [P], ("pos",) + tuple(sz), P - sz, sz - P + Lin({"": -1}), "out_of_range")


def rule_capacity(rep, S, cap):
    """the character buffer of every layout has room for N characters and the terminator"""
    R = "C02.capacity"
    from .c01 import storage_of
    d = S.d
    st = storage_of(S)
    if st is None:
        rep.inconclusive(R, S.tag, "buffer extent", detail="storage class of m_storage not found")
        return
    ta = " ".join(ir.template_args(st))
    m = re.search(r"\[(\d+)\]", ta)
    lab = "%s [%s]" % (st.get("name"), S.tag)
    if not m:
        rep.inconclusive(R, lab, "buffer extent", where=d.where(st), detail="storage is not an array type: %s" % ta)
        return
    ext = int(m.group(1))
    if ext == cap + 1:
        rep.holds(R, lab, "buffer extent", where=d.where(st), detail="%s: N+1 = %d characters for capacity N = %d" % (ta, ext, cap))
    else:
        rep.violates(R, lab, "buffer extent", where=d.where(st),
                     detail="the buffer is `%s` (%d characters) while the policy admits lengths up to N = %d: the terminator of a full string is written at index %d, "
                            "%s" % (ta, ext, cap, cap, "one past the object" if ext <= cap else "and the extra room is never used"))


def run(tier):
    rep = Report("C02", tier, "other",
                 "Structural necessary conditions decided on every instantiated member of xbasic_fixed_string with the throwing policy (packed and strlen "
                 "layouts; thorough adds the size-field layout and wchar_t), over all paths: (cbe) no capacity check, position check or call to a member that "
                 "may throw is evaluated after the first length publication or character write of the same body - argument evaluation order respected, the "
                 "may-throw summary of delegates computed over the member call graph; (pos) every position parameter used as a pointer offset into X or "
                 "subtracted from X.size() is dominated by check_index[_strict] against that same X or by a branch condition entailing pos <= X.size(); "
                 "(pub) every set_size argument is exactly a policy-check result, a same-capacity size or 0, and adjust_size only shrinks; (exc) check_size "
                 "throws length_error exactly for size > N, check_index out_of_range exactly for pos >= size, check_index_strict is check_index(pos, size+1), "
                 "at() checks before access.  The silent policy (capacity is a caller precondition) and the byte-exact extents of shifting writes are NOT decided.",
                 trusted_base=["clang 14 resolved AST (instantiations)", "sa/flow.py", "sa/linear.py", "event tables in sa/fstring.py"],
                 assumptions=["std::char_traits / std::copy write exactly the range their arguments name", "iterator parameters point into *this as the interface requires"])
    rep.rule("C02.cbe", "on every path of every member, each event that may throw by design (error_policy::check_size/check_add, check_index[_strict], a call to a member "
                        "that may throw) precedes the first effect on *this (length publication or character write)")
    rep.rule("C02.pos", "a position parameter p used as `X.data()+p` / `X.c_str()+p` / `X.size()-p` is dominated by check_index[_strict](p, X.size()) for the same object X, "
                        "or by a branch condition entailing p <= X.size()")
    rep.rule("C02.pub", "every length published with set_size is exactly the result of a capacity check, the size of a string of the same capacity, or 0; adjust_size only shrinks")
    rep.rule("C02.extent", "every character write (traits assign/copy/move, std::copy/copy_backward/fill, element stores) has a destination range [start, end) with "
                           "0 <= start and end <= N provable by linear arithmetic from the capacity/position checks, branch conditions and min() clamps established on its path "
                           "(size() <= N on entry; iterator ranges valid)")
    rep.rule("C02.capacity", "the character array of the selected storage layout has exactly N+1 elements: room for the N characters the policy admits plus the terminator")
    rep.rule("C02.reads", "in the search and compare family a traits compare/find over the string's own buffer covers a range that provably ends at or before data()+size() "
                          "(first loop iteration; forms that are not linear are skipped)")
    rep.rule("C02.len", "no offset is computed from a derived length (size()/end()/...) after a possibly growing publication of the same body: on the strlen layout that length is "
                        "stale and the write lands outside the intended range (before the buffer when count > old size)")
    rep.rule("C02.exc", "check_size: length_error iff size > N; check_add = check_size(a+b); check_index: out_of_range iff pos >= size; check_index_strict(p,s) = "
                        "check_index(p, s+1); at() checks against size() before the access")
    insts = INSTS[tier]
    d = cj.dump(fs.driver(insts), "xtl::")
    rep.cmd(d.cmd)
    strs = fs.gather(d, insts)
    if set(strs) != {i[0] for i in insts}:
        raise cj.AnalysisBroken("instantiations found: %s, expected %s" % (sorted(strs), sorted(i[0] for i in insts)))
    caps = {i[0]: i[2] for i in insts}
    for tag in sorted(strs):
        S = strs[tag]
        rep.unit("%s: %d member instantiations" % (tag, len(S.fns)))
        rule_cbe(rep, S)
        rule_cbe_free(rep, S, d)
        rule_pos(rep, S)
        rule_pub(rep, S)
        rule_exc(rep, S, d)
        rule_noexcept(rep, S)
        from .c01 import rule_len
        rule_len(rep, S, "C02.len")
        rule_extent(rep, S, caps[tag])
        rule_extent(rep, S, caps[tag], "read", "C02.reads")
        rule_capacity(rep, S, caps[tag])
    from . import c01
    c01.rule_enc_as(rep, "C02.enc", "the length every bound is checked against is the string's length: for every storage layout (packed N=1, 16, 255, 300 wide; size field; strlen) "
                                    "and every length 0..N, size() decodes what set_size/adjust_size encoded - a size() that over-reports lets at(), copy() and append() "
                                    "work behind the terminator and beyond the buffer")
    return rep


def loop_table(fn):
    """the loops of a function with what one iteration does to the local variables: the ids of the nodes that belong to an iteration,
    the variables it changes (and whether they only move one way), and the pairs whose sum an iteration leaves unchanged"""
    from .. import norm
    out = []
    for loop in [n for n in ir.walk_expr(fn) if n.get("kind") in ("ForStmt", "WhileStmt", "DoStmt")]:
        raw = loop.get("inner", [])
        init = raw[0] if loop.get("kind") == "ForStmt" and isinstance(raw[0], dict) and raw[0].get("kind") else None
        init_ids = {x.get("id") for x in ir.walk_expr(init)} if init is not None else set()
        ids = {x.get("id") for x in ir.walk_expr(loop)} - init_ids
        ids.add(loop.get("id"))
        cond, parts, body = norm.loop_parts(loop)
        # effects embedded in the condition come first in an iteration
        pre = []
        if cond is not None:
            for x in ir.walk_expr(cond):
                if (x.get("kind") == "UnaryOperator" and x.get("opcode") in ("++", "--")) or \
                        (x.get("kind") in ("BinaryOperator", "CompoundAssignOperator") and (x.get("opcode") or "").endswith("=") and x.get("opcode") not in ("==", "!=", "<=", ">=")):
                    pre.append(x)
        def is_effect(x):
            return (x.get("kind") == "UnaryOperator" and x.get("opcode") in ("++", "--")) or \
                (x.get("kind") in ("BinaryOperator", "CompoundAssignOperator") and (x.get("opcode") or "").endswith("=") and x.get("opcode") not in ("==", "!=", "<=", ">="))
        straight = []
        for x in pre + parts:
            if x.get("kind") in ("IfStmt", "ForStmt", "WhileStmt", "SwitchStmt", "CompoundStmt", "DoStmt", "DeclStmt", "ReturnStmt", "BreakStmt", "ContinueStmt", "NullStmt"):
                continue
            # the effects embedded in an expression statement (`*dst++ = *first++`), innermost first
            inner = [y for y in ir.walk_expr(x) if is_effect(y)]
            straight += list(reversed(inner)) if inner else []
        seen_ids = set()
        straight = [x for x in straight if not (x.get("id") in seen_ids or seen_ids.add(x.get("id")))]
        step = norm.sym_step(straight)
        top_ids = {x.get("id") for x in straight}
        # locals of the body that hold the result of a traits find over (p, n): p <= result
        find_from = {}
        sites = {}
        for x in ir.walk_expr(loop):
            if x.get("id") in init_ids:
                continue
            k = x.get("kind")
            if k == "VarDecl" and ir.ekids(x):
                t = ir.sx(ir.ekids(x)[-1])
                while t[0] == "cast":
                    t = t[3]
                if t[0] == "call" and t[1][0] == "ref" and t[1][1] == "find" and len(t) == 5 and t[2][0] == "ref":
                    find_from[x.get("name")] = t[2][1]
            tgt = None
            op = None
            if k == "UnaryOperator" and x.get("opcode") in ("++", "--"):
                tgt, op = ir.strip(ir.ekids(x)[0]), x.get("opcode")
            elif k in ("BinaryOperator", "CompoundAssignOperator") and (x.get("opcode") or "").endswith("=") and x.get("opcode") not in ("==", "!=", "<=", ">="):
                tgt, op = ir.strip(ir.ekids(x)[0]), x.get("opcode")
                t = ir.sx(ir.ekids(x)[1])
                while t[0] == "cast":
                    t = t[3]
                if op == "=" and tgt.get("kind") == "DeclRefExpr" and t[0] == "call" and t[1][0] == "ref" and t[1][1] == "find" and len(t) == 5 and t[2][0] == "ref":
                    find_from[(tgt.get("referencedDecl") or {}).get("name")] = t[2][1]
            if tgt is not None and tgt.get("kind") == "DeclRefExpr":
                sites.setdefault((tgt.get("referencedDecl") or {}).get("name"), []).append((op, x.get("id") in top_ids))
        mods = {}
        for name, ss in sites.items():
            ops = {o for o, _ in ss}
            direction = None
            if ops <= {"++"}:
                direction = "up"
            elif ops <= {"--"}:
                direction = "down"
            elif len(ss) == 1 and ss[0][1] and name in step:
                dl = step[name] - Lin({name: 1})
                if not (set(dl) - {""}):
                    c = dl.const()
                    direction = "up" if c > 0 else ("down" if c < 0 else None)
                else:
                    # v = w + c with w the result of a find that started at v
                    st_ = step[name]
                    ws = [k_ for k_ in st_ if k_ != ""]
                    if len(ws) == 1 and st_[ws[0]] == 1 and find_from.get(ws[0].rstrip("'")) == name and st_.const() >= 0:
                        direction = "up"
            mods[name] = {"dir": direction, "exact": len(ss) == 1 and ss[0][1] and name in step}
        sums, diffs = [], []
        names = sorted(n_ for n_, i_ in mods.items() if i_["exact"])
        for i, a in enumerate(names):
            for b in names[i + 1:]:
                if (step[a] + step[b] - Lin({a: 1}) - Lin({b: 1})) == Lin():
                    sums.append((a, b))
                if (step[a] - step[b] - Lin({a: 1}) + Lin({b: 1})) == Lin():
                    diffs.append((a, b))
        # candidate bounds from the loop condition: `v != B`, `v < B`, `v <= B` (and the mirrored forms) with B not changed by the loop
        bounds = []
        if cond is not None:
            atoms = []

            def split(t):
                while t[0] == "cast":
                    t = t[3]
                if t[0] == "bin" and t[1] == "&&":
                    split(t[2])
                    split(t[3])
                else:
                    atoms.append(t)
            split(ir.sx(cond))
            for t in atoms:
                if t[0] != "bin" or t[1] not in ("!=", "<", "<=", ">", ">="):
                    continue
                for v_, b_, op_ in ((t[2], t[3], t[1]), (t[3], t[2], {"<": ">", ">": "<", "<=": ">=", ">=": "<=", "!=": "!="}[t[1]])):
                    while v_[0] == "cast":
                        v_ = v_[3]
                    if v_[0] == "ref" and v_[1] in mods and not any(x_[0] == "ref" and x_[1] in mods for x_ in ir.subterms(b_)):
                        if op_ in ("<", "<=") or (op_ == "!=" and mods[v_[1]]["dir"] == "up"):
                            bounds.append((v_[1], b_, "ub"))
                        elif op_ in (">", ">=") or (op_ == "!=" and mods[v_[1]]["dir"] == "down"):
                            bounds.append((v_[1], b_, "lb"))
        out.append({"id": loop.get("id"), "ids": ids, "mods": mods, "sums": sums, "diffs": diffs, "bounds": bounds, "kind": loop.get("kind")})
    return out


# ---------------------------------------------------------------------------------------------------------------------
# C02.extent - every character write lies inside the object's own buffer
def rule_extent(rep, S, cap, mode="write", R="C02.extent"):
    """mode="read": the same machinery for character READS of *this in the search/compare family (traits compare/find over a range of the own
    buffer must end at or before data()+size()); unknown forms are skipped there.
    For every character write of every member (throwing policy): destination range [start, end) as linear forms over the entry
    size, the capacity, the parameters and the checked values; obligation 0 <= start and end <= N from the facts the path
    established (policy checks, position checks, branch conditions, min() clamps, size() <= N)."""
    d = S.d
    import itertools
    for fn in S.fns:
        if fn.get("isImplicit") or fn.get("explicitlyDefaulted"):
            continue
        if mode == "write" and re.search(r"\)\s*const", ir.qtype(fn)):
            continue
        if mode == "read" and not ((fn.get("name") or "").startswith(("find", "rfind", "compare")) or re.search(r"\)\s*const", ir.qtype(fn))):
            continue
        lab = "%s::%s" % (S.tag, S.label(fn))
        bl = fs.buffer_locals(fn)
        params = ir.params(fn)
        uint_params = {p.get("name") for p in params if ir.qtype(p) in ("unsigned long", "unsigned long long", "unsigned int")}
        it_params = [p.get("name") for p in params if re.search(r"const_iterator|::iterator", ir.wtype(p))]
        self_params = {p.get("name") for p in params if "xbasic_fixed_string" in ir.qtype(p)}
        # pointers into a range the caller supplies: positions on a line of their own (symbol fp:<name>), so that a cursor over the source and a
        # cursor over the own buffer can be related (`first != last`, distance(first, last))
        fptr_params = {p.get("name") for p in params if ir.qtype(p).rstrip().endswith("*") and p.get("name") not in it_params}
        fptr_pairs = [(a_.get("name"), b_.get("name")) for a_, b_ in zip(params, params[1:])
                      if a_.get("name") in fptr_params and b_.get("name") in fptr_params and ir.qtype(a_) == ir.qtype(b_)]
        try:
            paths = flow.function_paths(fn, with_ctor_inits=False)
        except cj.AnalysisBroken:
            continue
        if mode == "write" and not any(fs.write_event(st[1], fn, bl) for path in paths for st in path if st[0] == "ev"):
            continue
        results = {}
        _cfm = []

        def called_from_members():
            if not _cfm:
                _cfm.append(any(fs.this_member_call(x_) is not None and fs.member_target(d, x_) is fn
                                for g_ in S.fns if g_ is not fn for x_ in ir.walk_expr(g_)))
            return _cfm[0]
        loops = loop_table(fn)
        vtypes = {v.get("name"): ir.qtype(v) for v in ir.walk_expr(fn) if v.get("kind") == "VarDecl"}
        vtypes.update({p_.get("name"): ir.qtype(p_) for p_ in params})
        acc_ = fs.member_access(S.cls)
        bl = set(bl)
        for g_ in S.fns:
            if g_ is not fn and ir.has_body(g_) and acc_.get(g_.get("id"), "public") != "public":
                loops += loop_table(g_)            # the loops of the non-public helpers that may be followed from here
                bl |= fs.buffer_locals(g_)
                for v in ir.walk_expr(g_):
                    if v.get("kind") == "VarDecl":
                        vtypes.setdefault(v.get("name"), ir.qtype(v))

        def variants():
            for path_ in paths:
                # each std::min on the path is split into its two cases
                mins = [st[1] for st in path_ if st[0] == "ev" and st[1].get("kind") == "CallExpr" and (ir.strip(ir.ekids(st[1])[0]).get("referencedDecl") or {}).get("name") == "min"]
                for choice_ in itertools.product((0, 1), repeat=min(len(mins), 4)):
                    yield path_, choice_
        # candidate loop invariants `v >= 0` are assumed at the loop head and must be re-established at every back edge; a candidate that
        # is not is dropped and the function is analysed again without it (induction, to a fixpoint)
        # Two passes.  "exact": the first two iterations of every loop with the variables' exact values - a range that cannot be shown inside
        # the buffer there is reported like one in straight-line code.  "induct": an arbitrary iteration, from the invariants - a range that
        # cannot be shown inside the buffer there only means the invariants found do not suffice (inconclusive).
        inv_drop = set()
        has_loops = bool(loops)
        schedule = [("exact", 0)] + ([("induct", r_) for r_ in range(6)] if has_loops else [])
        paths_by = {"induct": paths}
        if has_loops:
            try:
                paths_by["exact"] = flow.function_paths(fn, with_ctor_inits=False, unroll=2)
            except cj.AnalysisBroken:
                paths_by["exact"] = paths
        else:
            paths_by["exact"] = paths
        results_by = {}
        for pass_, _round in schedule:
            if pass_ in results_by:
                continue
            paths = paths_by[pass_]
            results = {}
            inv_failed = set()
            pending = [(p_, c_, ()) for p_, c_ in variants()]
            n_variants = 0
            while pending:
                path, choice, hsel = pending.pop()
                n_variants += 1
                if n_variants > 4000:
                    results[("cap", 0)] = [fn, "unknown", "more than 4000 path variants through the helpers of this member"]
                    break
                picks = []
                min_i = [0]
                env = {}
                facts = [Lin({"N": 1, "S": -1})]                       # size() <= N on entry
                nonneg = {"S", "N"} | {"p:" + x for x in uint_params}
                for x in it_params:
                    nonneg.add("it:" + x)
                if len(it_params) >= 2:
                    facts.append(Lin({"it:" + it_params[1]: 1, "it:" + it_params[0]: -1}))     # [first, last) is a valid range (caller contract)
                for a_, b_ in fptr_pairs:
                    facts.append(Lin({"fp:" + b_: 1, "fp:" + a_: -1}))                         # the same for a source range
                fresh = [0]

                def sym(prefix):
                    fresh[0] += 1
                    name = "%s#%d" % (prefix, fresh[0])
                    if not prefix.startswith("fp:"):
                        nonneg.add(name)
                    return name

                def val(t):
                    """integer term -> Lin or None (adds facts for checks and clamps)"""
                    if t[0] == "cast":
                        return val(t[3])
                    if t[0] == "lit":
                        try:
                            v = int(str(t[1]))
                            return Lin({"": v}) if v else Lin()
                        except ValueError:
                            return None
                    if t[0] == "ref":
                        if t[1] in env:
                            return env[t[1]]
                        if t[1] in uint_params:
                            return Lin({"p:" + t[1]: 1})
                        return None
                    if t[0] == "cond":
                        tv = cond_truth.get(t[1])
                        if tv is None and t[1][0] == "cast":
                            tv = cond_truth.get(t[1][3])
                        if tv is None:
                            return None
                        return val(t[2] if tv else t[3])
                    if t[0] == "call" and t in call_vals:
                        return call_vals[t]
                    if t[0] == "call":
                        c = t[1]
                        if c[0] == "mem" and c[2] in ("size", "length") and len(t) == 2:
                            if c[1] == ("this",) or c[1] == ("mem", ("this",), "m_storage"):
                                return Lin({"S": 1})
                            key = "S:" + ir.show(c[1])
                            nonneg.add(key)
                            if c[1][0] == "ref" and c[1][1] in self_params:
                                facts.append(Lin({"N": 1, key: -1}))
                            return Lin({key: 1})
                        if c == ("ref", "check_size") and len(t) == 3:
                            a = val(t[2])
                            if a is not None:
                                facts.append(Lin({"N": 1}) - a)
                            return a
                        if c == ("ref", "check_add") and len(t) == 4:
                            a, b = val(t[2]), val(t[3])
                            if a is not None and b is not None:
                                facts.append(Lin({"N": 1}) - a - b)
                                return a + b
                            return None
                        if c == ("ref", "min") and len(t) == 4:
                            a, b = val(t[2]), val(t[3])
                            if a is None or b is None:
                                return None
                            ci = choice[min_i[0]] if min_i[0] < len(choice) else 0
                            min_i[0] += 1
                            m, o = (a, b) if ci == 0 else (b, a)
                            facts.append(o - m)
                            return m
                        if c == ("ref", "distance") and len(t) == 4:
                            fa_, fb_ = foff(t[2]), foff(t[3])
                            if fa_ is not None and fb_ is not None:
                                return fb_ - fa_
                        if c == ("ref", "distance") or c == ("ref", "length"):
                            key = "len:" + ir.show(t)[:40]
                            nonneg.add(key)
                            return Lin({key: 1})
                    if t[0] == "un" and t[1] in ("++", "--", "post++", "post--"):
                        a = val(t[2])
                        if a is None or t[1] in ("++", "--"):
                            return a
                        return a + Lin({"": 1 if t[1] == "post--" else -1})
                    if t[0] == "bin" and t[1] == "=" and t[2][0] == "ref":
                        return val(t[2])
                    if t[0] == "bin" and t[1] in ("+", "-"):
                        # pointer difference pos - cbegin()
                        pa, pb = off(t[2]), off(t[3])
                        if t[1] == "-" and pa is not None and pb is not None:
                            return pa - pb
                        if t[1] == "-" and pa is None and pb is None:
                            pa, pb = foff(t[2]), foff(t[3])
                            if pa is not None and pb is not None:
                                return pa - pb
                        a, b = val(t[2]), val(t[3])
                        if a is None or b is None:
                            return None
                        return a + b if t[1] == "+" else a - b
                    return None

                def off(t):
                    """pointer term -> offset from data() as Lin, or None if it does not point into *this"""
                    if t[0] == "cast":
                        return off(t[3])
                    if t[0] == "construct" and len(t) == 3:
                        return off(t[2])
                    if t[0] == "call" and ("ptr", t) in call_vals:
                        return call_vals[("ptr", t)]          # the pointer a followed helper returned
                    if t[0] == "call" and t[1][0] == "mem" and t[1][1] == ("this",) and len(t) == 2:
                        if t[1][2] in ("data", "c_str", "begin", "cbegin"):
                            return Lin()
                        if t[1][2] in ("end", "cend"):
                            return Lin({"S": 1})
                        return None
                    if t[0] == "call" and t[1] == ("mem", ("mem", ("this",), "m_storage"), "buffer"):
                        return Lin()
                    if t[0] == "cond":
                        tv = cond_truth.get(t[1])
                        if tv is None:
                            return None
                        return off(t[2] if tv else t[3])
                    if t[0] == "call" and t[1] == ("ref", "min") and len(t) == 4:
                        a, b = off(t[2]), off(t[3])
                        if a is None or b is None:
                            return None
                        ci = choice[min_i[0]] if min_i[0] < len(choice) else 0
                        min_i[0] += 1
                        m, o = (a, b) if ci == 0 else (b, a)
                        facts.append(o - m)
                        return m
                    if t[0] == "ref":
                        if ("ptr", t[1]) in env:
                            return env[("ptr", t[1])]
                        if t[1] in it_params:
                            return Lin({"it:" + t[1]: 1})
                        return None
                    if t[0] == "un" and t[1] in ("++", "--", "post++", "post--"):
                        a = off(t[2])
                        if a is None or t[1] in ("++", "--"):
                            return a
                        return a + Lin({"": 1 if t[1] == "post--" else -1})
                    if t[0] == "bin" and t[1] == "=" and t[2][0] == "ref":
                        return off(t[2])
                    if t[0] == "bin" and t[1] in ("+", "-"):
                        p_ = off(t[2])
                        if p_ is not None:
                            x = val(t[3])
                            if x is None:
                                return None
                            return p_ + x if t[1] == "+" else p_ - x
                        if t[1] == "+":
                            p_ = off(t[3])
                            x = val(t[2])
                            if p_ is not None and x is not None:
                                return p_ + x
                    return None

                def foff(t):
                    """pointer into a caller-supplied range -> position on that range's own line, else None"""
                    if t[0] == "cast":
                        return foff(t[3])
                    if t[0] == "ref":
                        if ("fptr", t[1]) in env:
                            return env[("fptr", t[1])]
                        if t[1] in fptr_params and ("ptr", t[1]) not in env:
                            return Lin({"fp:" + t[1]: 1})
                        return None
                    if t[0] == "un" and t[1] in ("++", "--", "post++", "post--"):
                        a = foff(t[2])
                        if a is None or t[1] in ("++", "--"):
                            return a
                        return a + Lin({"": 1 if t[1] == "post--" else -1})
                    if t[0] == "bin" and t[1] == "=" and t[2][0] == "ref":
                        return foff(t[2])
                    if t[0] == "bin" and t[1] in ("+", "-"):
                        p_ = foff(t[2])
                        x = val(t[3]) if p_ is not None else None
                        if p_ is not None and x is not None:
                            return p_ + x if t[1] == "+" else p_ - x
                    return None

                def add_cond(t, truth):
                    while t[0] == "cast":
                        t = t[3]
                    if t[0] == "un" and t[1] == "!":
                        return add_cond(t[2], not truth)
                    if t[0] == "bin" and t[1] in linear.NEG:
                        op = t[1] if truth else linear.NEG[t[1]]
                        # the pointer a traits find returned, compared with null
                        for x_, y_ in ((t[2], t[3]), (t[3], t[2])):
                            while x_[0] == "cast":
                                x_ = x_[3]
                            while y_[0] == "cast":
                                y_ = y_[3]
                            if x_[0] == "bin" and x_[1] == "=":
                                x_ = x_[2]
                            if x_[0] == "ref" and x_[1] in pending_find and y_ in (("lit", "0"), ("lit", "nullptr"), ("lit", 0)):
                                if op == "!=":
                                    found_nonnull(x_[1])
                                return
                        a, b = val(t[2]), val(t[3])
                        if a is None or b is None:
                            a, b = off(t[2]), off(t[3])
                        if a is None and b is None:
                            a, b = foff(t[2]), foff(t[3])
                        if a is not None and b is not None and (may_wrap(t[2]) or may_wrap(t[3])):
                            return          # a sum of unsigned values that may have wrapped around: the comparison tells nothing reliable
                        if a is not None and b is not None:
                            facts.extend(linear.atom_facts(op, a, b))
                            if op == "!=":
                                # different, and ordered one way by what is known: strictly ordered
                                ge_, le_ = linear.entails(facts, a - b, tuple(nonneg)), linear.entails(facts, b - a, tuple(nonneg))
                                if ge_ and le_:
                                    infeasible[0] = True          # known to be equal: this branch is not taken
                                elif ge_:
                                    facts.append(a - b - Lin({"": 1}))
                                elif le_:
                                    facts.append(b - a - Lin({"": 1}))
                    elif t[0] == "ref" and t[1] in pending_find and truth:
                        found_nonnull(t[1])

                def may_wrap(t_):
                    """an unsigned sum with a caller-supplied operand that no fact bounds (count = npos): it may exceed the type"""
                    while t_[0] == "cast":
                        t_ = t_[3]
                    if t_[0] != "bin" or t_[1] != "+":
                        return False
                    for side in (t_[2], t_[3]):
                        v_ = val(side)
                        if v_ is None:
                            continue
                        if any(str(k_).startswith("p:") for k_ in v_) and not linear.entails(facts, Lin({"N": 2, "": 8}) - v_, tuple(nonneg)):
                            return True
                    return False

                def found_nonnull(name):
                    o_, n_ = pending_find.pop(name)
                    h_ = sym("hit")
                    nonneg.discard(h_)
                    env[("ptr", name)] = Lin({h_: 1})
                    facts.append(Lin({h_: 1}) - o_)                          # the hit lies in [p, p + n)
                    facts.append(o_ + n_ - Lin({"": 1}) - Lin({h_: 1}))

                def is_find(t):
                    """traits find(p, n, ch) over a range of the own buffer -> (offset of p, n) else None"""
                    while t[0] == "cast":
                        t = t[3]
                    if t[0] == "call" and t[1][0] == "ref" and t[1][1] == "find" and len(t) == 5:
                        o_, n_ = off(t[2]), val(t[3])
                        if o_ is not None and n_ is not None:
                            return o_, n_
                    return None

                def assign_local(name, rhs_t, op):
                    """effect of `name op rhs` / ++name / --name on the bindings"""
                    isptr = ("ptr", name) in env or "*" in vtypes.get(name, "") or "pointer" in vtypes.get(name, "") or "iterator" in vtypes.get(name, "")
                    isf = isptr and ("ptr", name) not in env and (("fptr", name) in env or name in fptr_params)
                    key = ("fptr", name) if isf else (("ptr", name) if isptr else name)
                    pending_find.pop(name, None)
                    rd = foff if isf else (off if isptr else val)
                    if op in ("++", "--"):
                        cur = rd(("ref", name))
                        if cur is not None:
                            env[key] = cur + Lin({"": 1 if op == "++" else -1})
                        return
                    cur = rd(("ref", name))
                    if op == "=":
                        fnd = is_find(rhs_t) if isptr else None
                        if fnd is not None:
                            pending_find[name] = fnd
                            env.pop(key, None)
                            return
                        new_ = rd(rhs_t)
                        if new_ is None and isptr:
                            # the pointer moves to the other kind of range
                            env.pop(key, None)
                            o2_ = (off if isf else foff)(rhs_t)
                            if o2_ is not None:
                                env[("ptr", name) if isf else ("fptr", name)] = o2_
                            return
                    else:
                        dlt = val(rhs_t)
                        new_ = None if cur is None or dlt is None else (cur + dlt if op == "+=" else cur - dlt)
                    if new_ is None:
                        env.pop(key, None)
                        if not isptr and name in uint_params:
                            env[name] = Lin({sym("v"): 1})       # a parameter that was overwritten no longer stands for the caller's value
                    else:
                        env[key] = new_

                def enter_loop(L):
                    """variables that change in the loop stand for their value at the head of an arbitrary iteration: a fresh symbol,
                    ordered against the initial value when the variable only moves one way, tied to the others by the sums one iteration
                    leaves unchanged, and not below zero when that is re-established at every back edge"""
                    syms = {}
                    if pass_ == "exact":
                        return
                    for name, info in L["mods"].items():
                        isptr = ("ptr", name) in env
                        key = ("ptr", name) if isptr else name
                        if not isptr and (("fptr", name) in env or (name in fptr_params and name not in env)):
                            isptr, key = True, ("fptr", name)
                            env.setdefault(key, Lin({"fp:" + name: 1}))
                        if key not in env:
                            if not isptr and name in uint_params:
                                env[name] = Lin({"p:" + name: 1})
                            else:
                                continue
                        init = env[key]
                        s_ = sym("loop:" + name)
                        unsigned = not isptr and ("unsigned" in vtypes.get(name, "") or "size_t" in vtypes.get(name, "") or name in uint_params)
                        if not unsigned:
                            nonneg.discard(s_)
                        syms[name] = (s_, init, key)
                        if info["dir"] == "down":
                            facts.append(init - Lin({s_: 1}))
                        elif info["dir"] == "up":
                            facts.append(Lin({s_: 1}) - init)
                        if not unsigned and (L["id"], name) not in inv_drop and linear.entails(facts, init, tuple(nonneg)):
                            facts.append(Lin({s_: 1}))
                            L_assumed.setdefault(L["id"], []).append((name, key))
                    for (a_, b_) in L["sums"]:
                        if a_ in syms and b_ in syms:
                            tot = Lin({syms[a_][0]: 1, syms[b_][0]: 1}) - syms[a_][1] - syms[b_][1]
                            facts.append(tot)
                            facts.append(-tot)
                    for (a_, b_) in L["diffs"]:
                        if a_ in syms and b_ in syms:
                            tot = Lin({syms[a_][0]: 1}) - Lin({syms[b_][0]: 1}) - syms[a_][1] + syms[b_][1]
                            facts.append(tot)
                            facts.append(-tot)
                    for (v_, bt_, kind_) in L["bounds"]:
                        if v_ not in syms or (L["id"], v_, kind_) in inv_drop:
                            continue
                        bl_ = val(bt_) if syms[v_][2] == v_ else (foff(bt_) if syms[v_][2][0] == "fptr" else off(bt_))
                        if bl_ is None:
                            continue
                        gap_ = (bl_ - syms[v_][1]) if kind_ == "ub" else (syms[v_][1] - bl_)
                        if linear.entails(facts, gap_, tuple(nonneg)):
                            # holds on entry: assumed at the head, to be re-established at the back edge
                            facts.append((bl_ - Lin({syms[v_][0]: 1})) if kind_ == "ub" else (Lin({syms[v_][0]: 1}) - bl_))
                            L_bounds.setdefault(L["id"], []).append((v_, syms[v_][2], bl_, kind_))
                    for name, (s_, init, key) in syms.items():
                        env[key] = Lin({s_: 1})

                def back_edge(L):
                    for name, key in L_assumed.get(L["id"], []):
                        cur = env.get(key)
                        if cur is None or not linear.entails(facts, cur, tuple(nonneg)):
                            inv_failed.add((L["id"], name))
                    for name, key, bl_, kind_ in L_bounds.get(L["id"], []):
                        cur = env.get(key)
                        if cur is None or not linear.entails(facts, (bl_ - cur) if kind_ == "ub" else (cur - bl_), tuple(nonneg)):
                            import os
                            if os.environ.get("C02_DEBUG"):
                                print("DBGB", lab, name, kind_, "cur", cur.show() if cur is not None else None, "bound", bl_.show(), "facts", [f_.show() for f_ in facts])
                            inv_failed.add((L["id"], name, kind_))

                access = fs.member_access(S.cls)
                call_vals = {}
                cond_truth = {}
                tainted = [False]
                work = list(path)
                depth_guard = [0]
                pending_find = {}
                L_assumed = {}
                L_bounds = {}
                infeasible = [False]
                entered = {}
                while work:
                    st = work.pop(0)
                    if st[0] in ("cond", "ev", "decl") and isinstance(st[1], dict):
                        nid_ = st[1].get("id")
                        for L in loops:
                            if nid_ in L["ids"]:
                                if L["id"] not in entered:
                                    entered[L["id"]] = nid_
                                    enter_loop(L)
                                elif entered[L["id"]] == nid_:
                                    entered[L["id"]] = None          # later arrivals are not enumerated by the unrolling
                                    back_edge(L)
                    if st[0] == "leave":
                        # restore the caller's bindings and record the helper's return value
                        saved, call_t, ret_node = st[1], st[2], st[3]
                        rv = None
                        if ret_node is not None and ir.ekids(ret_node):
                            rt_ = ir.sx(ir.ekids(ret_node)[0])
                            rv = val(rt_)
                            if rv is None:
                                rvp = off(rt_)
                                if rvp is not None:
                                    call_vals[("ptr", call_t)] = rvp
                        if rv is not None:
                            call_vals[call_t] = rv
                        for k_, v_ in saved.items():
                            if v_ is None:
                                env.pop(k_, None)
                            else:
                                env[k_] = v_
                        continue
                    if st[0] == "cond":
                        add_cond(ir.sx(st[1]), st[2])
                        cond_truth[ir.sx(st[1])] = st[2]
                        if not infeasible[0] and len(facts) <= 12 and linear.entails(facts, Lin({"": -1}), tuple(nonneg)):
                            infeasible[0] = True
                        if infeasible[0]:
                            break              # the conditions of this path contradict each other: nothing on it happens
                        continue
                    if st[0] == "decl":
                        v = st[1]
                        init = ir.ekids(v)
                        if not init:
                            continue
                        t = ir.sx(init[-1])
                        env.pop(v.get("name"), None)
                        env.pop(("ptr", v.get("name")), None)
                        pending_find.pop(v.get("name"), None)
                        x = val(t) if "*" not in ir.qtype(v) else None
                        if x is not None and "*" not in ir.qtype(v):
                            env[v.get("name")] = x
                            continue
                        fnd = is_find(t)
                        if fnd is not None:
                            pending_find[v.get("name")] = fnd
                            continue
                        env.pop(("fptr", v.get("name")), None)
                        p_ = off(t)
                        if p_ is not None:
                            env[("ptr", v.get("name"))] = p_
                        elif "*" in ir.qtype(v) and foff(t) is not None:
                            env[("fptr", v.get("name"))] = foff(t)
                        continue
                    if st[0] != "ev":
                        continue
                    n = st[1]
                    tm = fs.this_member_call(n)
                    t = ir.sx(n)
                    if n.get("kind") == "UnaryOperator" and n.get("opcode") in ("++", "--") and t[2][0] == "ref":
                        assign_local(t[2][1], None, n.get("opcode"))
                        continue
                    if n.get("kind") in ("BinaryOperator", "CompoundAssignOperator") and n.get("opcode") in ("=", "+=", "-=") and t[0] == "bin" and t[2][0] == "ref":
                        assign_local(t[2][1], t[3], n.get("opcode"))
                        continue
                    if n.get("kind") in ("BinaryOperator", "CompoundAssignOperator") and (n.get("opcode") or "").endswith("=") and \
                            n.get("opcode") not in ("==", "!=", "<=", ">=") and t[0] == "bin" and t[2][0] == "ref":
                        env.pop(t[2][1], None)
                        env.pop(("ptr", t[2][1]), None)
                        continue
                    if tm is not None and tm not in ("check_index", "check_index_strict", "compare_impl", "data", "c_str", "begin", "end", "cbegin", "cend", "size", "length"):
                        tgt = fs.member_target(d, n)
                        if tgt is not None and ir.has_body(tgt) and access.get(tgt.get("id"), "public") != "public" and depth_guard[0] < 6:
                            try:
                                cps = flow.function_paths(tgt, with_ctor_inits=False, unroll=2 if pass_ == "exact" and has_loops else 1)
                            except cj.AnalysisBroken:
                                cps = []
                            if not cps:
                                tainted[0] = True
                                continue
                            # a helper with several paths: this run follows one of them, the others are scheduled as further variants
                            k_ = len(picks)
                            if k_ < len(hsel):
                                pick = hsel[k_]
                            else:
                                pick = 0
                                for j_ in range(1, len(cps)):
                                    pending.append((path, choice, tuple(picks) + (j_,)))
                            picks.append(pick)
                            depth_guard[0] += 1
                            saved = {}
                            isptr_ = lambda q_: "*" in q_ or "pointer" in q_ or "iterator" in q_
                            for prm, arg in zip(ir.params(tgt), ir.ekids(n)[1:]):
                                ta = ir.sx(arg)
                                nm_ = prm.get("name")
                                vtypes.setdefault(nm_, ir.qtype(prm))
                                if not isptr_(ir.qtype(prm)):
                                    pv = val(ta)
                                    saved[nm_] = env.get(nm_)
                                    # an argument that is not followed still hides a caller's variable of the same name
                                    env[nm_] = pv if pv is not None else Lin({sym("arg:" + nm_): 1})
                                    if pv is None and "unsigned" not in ir.qtype(prm) and "size_t" not in ir.qtype(prm):
                                        nonneg.discard(list(env[nm_])[0])
                                else:
                                    pp = off(ta)
                                    saved[("ptr", nm_)] = env.get(("ptr", nm_))
                                    saved[("fptr", nm_)] = env.get(("fptr", nm_))
                                    env.pop(("ptr", nm_), None)
                                    env.pop(("fptr", nm_), None)
                                    if pp is not None:
                                        env[("ptr", nm_)] = pp
                                    elif foff(ta) is not None:
                                        env[("fptr", nm_)] = foff(ta)
                                    else:
                                        env[("fptr", nm_)] = Lin({sym("fp:arg:" + nm_): 1})      # hides a caller's pointer of the same name
                            callee_steps = cps[pick]
                            last_ = callee_steps[-1] if callee_steps else ("end",)
                            if last_[0] not in ("return", "end"):
                                work = list(callee_steps)          # the helper leaves by an exception on this path: nothing of the caller follows
                                continue
                            ret = last_[1] if last_[0] == "return" else None
                            work = [x for x in callee_steps if x[0] not in ("return", "end")] + [("leave", saved, t, ret)] + work
                            continue
                    if tm == "check_index_strict":
                        a, b = val(t[2]), val(t[3])
                        if a is not None and b is not None:
                            facts.append(b - a)
                        continue
                    if tm == "check_index":
                        a, b = val(t[2]), val(t[3])
                        if a is not None and b is not None:
                            facts.append(b - a - Lin({"": 1}))
                        continue
                    if fs.policy_check(n):
                        val(t)
                        continue
                    if mode == "read":
                        ranges = []
                        if fs.this_member_call(n) == "compare_impl" and len(t) == 6:
                            o_, ln = off(t[2]), val(t[3])
                            if o_ is not None and ln is not None:
                                ranges.append((o_, o_ + ln))
                        elif n.get("kind") == "CallExpr" and t[0] == "call" and t[1][0] == "ref" and t[1][1] in ("copy", "move") and len(t) == 5:
                            # characters copied out of the own buffer: traits copy(dst, src, n) reads [src, src + n); std::copy(first, last, dst) reads [first, last)
                            from .. import trange as _tr2
                            if _tr2.type_range(ir.qtype(ir.ekids(n)[3])) is not None:
                                o_, ln = off(t[3]), val(t[4])
                                if o_ is not None and ln is not None and off(t[2]) is None:
                                    ranges.append((o_, o_ + ln))
                            else:
                                f_, l_ = off(t[2]), off(t[3])
                                if f_ is not None and l_ is not None and off(t[4]) is None:
                                    ranges.append((f_, l_))
                            if not ranges:
                                continue
                        elif n.get("kind") != "CallExpr" or t[0] != "call" or t[1][0] != "ref" or t[1][1] not in ("compare", "find") or len(t) != 5:
                            continue
                        rargs = t[2:]
                        if ranges:
                            pass
                        elif t[1][1] == "compare":
                            ln = val(rargs[2])
                            for a_ in rargs[:2]:
                                o_ = off(a_)
                                if o_ is not None and ln is not None:
                                    ranges.append((o_, o_ + ln))
                        else:
                            from .. import trange as _tr
                            if _tr.type_range(ir.qtype(ir.ekids(n)[2])) is not None:      # traits::find(p, n, ch)
                                o_, ln = off(rargs[0]), val(rargs[1])
                                if o_ is not None and ln is not None:
                                    ranges.append((o_, o_ + ln))
                        for start, end in ranges:
                            ok_lo = linear.entails(facts, start, tuple(nonneg))
                            ok_hi = linear.entails(facts, Lin({"S": 1}) - end, tuple(nonneg))
                            key = (id(n), start.show())
                            if ok_lo and ok_hi:
                                results.setdefault(key, [n, "ok", "reads [%s, %s) within [0, size()]" % (start.show(), end.show())])
                            else:
                                results[key] = [n, "bad", "reads the own buffer over [%s, %s), which is not provably inside [0, size()] on this path: characters behind the "
                                                          "terminator (stale bytes of an earlier, longer value) take part in the result" % (start.show(), end.show())]
                        continue
                    w = fs.write_event(n, fn, bl)
                    if w is None:
                        continue
                    kind, dst = w
                    args = t[2:] if t[0] == "call" else ()
                    start = end = None
                    if kind == "store":
                        if dst[0] == "index":
                            b0, i0 = off(dst[1]), val(dst[2])
                            if b0 is not None and i0 is not None:
                                start, end = b0 + i0, b0 + i0 + Lin({"": 1})
                        else:
                            b0 = off(dst[2])
                            if b0 is not None:
                                start, end = b0, b0 + Lin({"": 1})
                    elif kind in ("assign", "move") or (kind == "copy" and dst == args[0]):
                        b0, ln = off(args[0]), val(args[1] if kind == "assign" else args[2])
                        if b0 is not None and ln is not None:
                            start, end = b0, b0 + ln
                    elif kind in ("copy", "copy_n"):
                        b0 = off(args[2])
                        f0, l0 = off(args[0]), off(args[1])
                        ln = (l0 - f0) if (f0 is not None and l0 is not None) else None
                        pnames_all = {p_.get("name") for p_ in params}
                        foreign = all((a_[0] == "ref" and a_[1] in pnames_all and a_[1] not in it_params) or
                                      (a_[0] == "call" and a_[1][0] == "mem" and a_[1][2] in ("begin", "end") and a_[1][1] != ("this",)) for a_ in (args[0], args[1]))
                        if ln is None and not foreign:
                            b0 = None        # a source range that is neither in *this nor a caller-supplied iterator pair: not followed
                        if ln is None and foreign and foff(args[0]) is not None and foff(args[1]) is not None:
                            ln = foff(args[1]) - foff(args[0])
                        if ln is None and foreign:
                            key = "len:distance(%s, %s)" % (ir.show(args[0]), ir.show(args[1]))
                            alt = [k for k in nonneg if k.startswith("len:") and ir.show(args[0]) in k and ir.show(args[1]) in k]
                            key = alt[0] if alt else key
                            nonneg.add(key)
                            ln = Lin({key: 1})
                        if b0 is not None and ln is not None:
                            start, end = b0, b0 + ln
                    elif kind == "copy_backward":
                        e0 = off(args[2])
                        f0, l0 = off(args[0]), off(args[1])
                        if e0 is not None and f0 is not None and l0 is not None:
                            start, end = e0 - (l0 - f0), e0
                    elif kind in ("fill", "fill_n"):
                        b0 = off(args[0])
                        if kind == "fill":
                            e0 = off(args[1])
                            if b0 is not None and e0 is not None:
                                start, end = b0, e0
                        else:
                            ln = val(args[1])
                            if b0 is not None and ln is not None:
                                start, end = b0, b0 + ln
                    key = id(n)
                    if start is None:
                        moving = kind == "store" and any(x_[0] == "un" and x_[1] in ("++", "--", "post++", "post--") for x_ in ir.subterms(dst))
                        in_loop = False
                        pp_ = d.parent_of(n)
                        while pp_ is not None and pp_ is not fn:
                            if pp_.get("kind") in ("ForStmt", "WhileStmt", "DoStmt"):
                                in_loop = True
                            pp_ = d.parent_of(pp_)
                        if moving or (kind == "store" and in_loop):
                            results.setdefault(key, [n, "skip", "element store through a cursor that moves in a loop: needs a loop invariant, not followed"])
                        else:
                            results.setdefault(key, [n, "unknown", "destination or length of `%s` is not linear in the size, capacity and parameters" % d.text(n)[:60].replace("\n", " ")])
                        continue
                    ok_lo = linear.entails(facts, start, tuple(nonneg))
                    # bulk character writes must stay below the terminator slot (index N); a single element store may be the terminator itself
                    ok_hi = linear.entails(facts, Lin({"N": 1, "": 1 if kind == "store" else 0}) - end, tuple(nonneg))
                    prev = results.get(key)
                    if ok_lo and ok_hi:
                        if prev is None:
                            results[key] = [n, "ok", "[%s, %s) within [0, N]" % (start.show(), end.show())]
                    else:
                        what = "starts at data()+(%s), which is not provably >= 0" % start.show() if not ok_lo else "ends at data()+(%s), which is not provably <= N" % end.show()
                        if access.get(fn.get("id"), "public") != "public" and called_from_members():
                            if prev is None or prev[1] == "ok":
                                results[key] = [n, "skip", "non-public helper: the write is decided at each of its call sites, with the caller's checks"]
                        elif any(str(k_).startswith("loop:") for k_ in list(start) + list(end)):
                            if prev is None or prev[1] == "ok":
                                results[key] = [n, "unknown", "the write %s for an arbitrary iteration of the loop from the invariants found (monotone variables, unchanged sums and "
                                                              "differences, bounds of the loop condition)" % what]
                        elif tainted[0] or access.get(fn.get("id"), "public") != "public":
                            results[key] = [n, "unknown", "the write %s here; the missing facts may be established in a helper / by the callers of this helper" % what]
                        else:
                            results[key] = [n, "bad", "the write %s from the checks on this path (%d facts): a write past the object's own N+1 characters disturbs adjacent memory" % (what, len(facts))]
            if pass_ == "exact" or inv_failed <= inv_drop:
                results_by[pass_] = results
                continue
            inv_drop |= inv_failed
        results = {}
        ex_, ind_ = results_by.get("exact", {}), results_by.get("induct")
        if has_loops and ind_ is None:
            results[("fix", 0)] = [fn, "unknown", "the loop invariants did not settle in 6 rounds"]
            ind_ = {}
        for key in list(ex_) + [k_ for k_ in (ind_ or {}) if k_ not in ex_]:
            e_, h_ = ex_.get(key), (ind_ or {}).get(key)
            if e_ is not None and e_[1] == "bad":
                results[key] = e_
            elif h_ is not None and h_[1] in ("bad", "unknown"):
                results[key] = [h_[0], "unknown", h_[2] if h_[1] == "unknown" else h_[2] + " (for an arbitrary iteration of a loop, from the invariants found)"]
            elif e_ is not None and e_[1] == "unknown":
                results[key] = e_
            else:
                results[key] = h_ if h_ is not None else e_
        for n, verdict, det in results.values():
            cons = "`%s`" % d.text(n)[:70].replace("\n", " ")
            if verdict == "ok":
                rep.holds(R, lab, cons, where=d.where(n), detail=det)
            elif verdict == "skip":
                rep.note("%s %s: %s" % (lab, cons, det))
            elif verdict == "bad":
                rep.violates(R, lab, cons, where=d.where(n), detail=det)
            else:
                rep.inconclusive(R, lab, cons, where=d.where(n), detail=det)
