"""C20 — executable_path / prefix_path / endianness: API-misuse rule for readlink, separator-cut shape, endian table.
The actual path on any install location needs the OS and is not decided."""
import re
from .. import clangjson as cj
from .. import ir
from .. import trange
from ..report import Report

DRIVER = '#include "xtl/xsystem.hpp"\n#include "xtl/xplatform.hpp"\n'


def calls_named(root, name):
    for n in ir.walk_expr(root):
        if n.get("kind") in ("CallExpr", "CXXMemberCallExpr"):
            t = ir.sx(n)
            c = t[1]
            cn = c[1] if c[0] == "ref" else (c[2] if c[0] == "mem" else None)
            if cn == name:
                yield n, t


def rule_readlink(rep, d, fn):
    rep.rule("C20.readlink", "readlink() does not NUL-terminate and truncates silently: its result must be tested for failure, the "
                             "path must be built from the returned length (or the buffer be zeroed and one byte larger than the length "
                             "passed), and the returned length must be compared with the capacity so that a longer path is retried or "
                             "rejected rather than cut")
    # every readlink call of the header, in whichever function it lives (executable_path itself or a helper it was moved into)
    sites = []
    wrappers = {}
    for f_ in ir.functions(d):
        if ir.body(f_) is not None and "xsystem.hpp" in (d.where(f_) or "") and not ir.is_template_pattern(d, f_):
            w_ = _is_wrapper(d, f_)
            if w_ is not None:
                wrappers[f_.get("id")] = w_
    for f_ in ir.functions(d):
        if ir.body(f_) is not None and "xsystem.hpp" in (d.where(f_) or "") and not ir.is_template_pattern(d, f_) and f_.get("id") not in wrappers:
            for call, t in calls_named(f_, "readlink"):
                if not any(call is c0 for _, c0, _ in sites):
                    sites.append((f_, call, t))
            # calls of a function that only forwards to readlink count as readlink calls with the forwarded buffer and capacity
            for n_ in ir.walk_expr(f_):
                if n_.get("kind") in ("CallExpr", "CXXMemberCallExpr", "CXXOperatorCallExpr") and ir.ekids(n_):
                    c_ = ir.strip(ir.ekids(n_)[0])
                    rid_ = c_.get("referencedMemberDecl") if c_.get("kind") == "MemberExpr" else (c_.get("referencedDecl") or {}).get("id")
                    if rid_ in wrappers and not any(n_ is c0 for _, c0, _ in sites):
                        ia_, ic_ = wrappers[rid_]
                        args_ = ir.ekids(n_)[1:]
                        if n_.get("kind") == "CXXOperatorCallExpr":
                            args_ = args_[1:]
                        if max(ia_, ic_) < len(args_):
                            sites.append((f_, n_, ("call", ("ref", "readlink"), ("str", "wrapped"), ir.sx(args_[ia_]), ir.sx(args_[ic_]))))
    if not sites:
        rep.inconclusive("C20.readlink", "executable_path", "readlink call", where=d.where(fn), detail="no readlink call found on this platform")
        return
    # the path the OS reported is handed out as it is: after it has been built nothing erases, truncates or rewrites it
    rets = [x for x in ir.walk_expr(ir.body(fn)) if x.get("kind") == "ReturnStmt" and ir.ekids(x)]
    rv = ir.strip(ir.ekids(rets[-1])[0]) if rets else None
    while rv is not None and rv.get("kind") in ("ImplicitCastExpr", "CXXConstructExpr", "MaterializeTemporaryExpr", "ExprWithCleanups") and ir.ekids(rv):
        rv = ir.strip(ir.ekids(rv)[0])
    pvar = (rv.get("referencedDecl") or {}).get("name") if rv is not None and rv.get("kind") == "DeclRefExpr" else None
    if pvar:
        edits = []
        for n in ir.walk_expr(ir.body(fn)):
            if n.get("kind") in ("CXXMemberCallExpr",):
                t_ = ir.sx(n)
                if t_[0] == "call" and t_[1][0] == "mem" and t_[1][1] == ("ref", pvar) and t_[1][2] in ("erase", "resize", "pop_back", "replace", "insert", "append", "push_back", "clear"):
                    edits.append(n)
        if edits:
            rep.violates("C20.readlink", "executable_path", "reported path returned unedited", where=d.where(edits[0]),
                         detail="`%s` rewrites the path obtained from the OS: a location whose name happens to match is reported wrongly" % d.text(edits[0])[:60])
        else:
            rep.holds("C20.readlink", "executable_path", "reported path returned unedited", where=d.where(fn), detail="no erase/resize/replace/append on `%s`" % pvar)
    flows = {}
    for i, (f_, call, t) in enumerate(sites):
        nm = "executable_path" if f_ is fn else "executable_path via %s" % f_.get("name")
        if f_.get("id") not in flows:
            flows[f_.get("id")] = _readlink_flow(d, f_, wrappers)
        _readlink_site(rep, d, f_, call, t, nm if len(sites) == 1 else "%s [readlink call %d of %d]" % (nm, i + 1, len(sites)), flows[f_.get("id")])


def _is_wrapper(d, f):
    """a function whose whole body is `return readlink(path, a, b);` with a, b among its parameters -> (index of a, index of b) else None"""
    b = ir.body(f)
    ks = ir.kids(b) if b is not None else []
    if len(ks) != 1 or ks[0].get("kind") != "ReturnStmt" or not ir.ekids(ks[0]):
        return None
    t = ir.sx(ir.ekids(ks[0])[0])
    while t[0] == "cast":
        t = t[3]
    if t[0] != "call" or t[1] != ("ref", "readlink") or len(t) != 5:
        return None
    ps = [p.get("name") for p in ir.params(f)]
    a, c = t[3], t[4]
    while a[0] == "cast":
        a = a[3]
    while c[0] == "cast":
        c = c[3]
    if a[0] == "ref" and a[1] in ps and c[0] == "ref" and c[1] in ps:
        return ps.index(a[1]), ps.index(c[1])
    return None


def _string_content(n):
    """does this initialiser / right-hand side give a string characters (anything but a default construction or an empty literal)?"""
    n = ir.strip(n)
    while n.get("kind") in ("CXXConstructExpr", "CXXTemporaryObjectExpr", "CXXFunctionalCastExpr", "CXXBindTemporaryExpr", "MaterializeTemporaryExpr", "ImplicitCastExpr", "ExprWithCleanups"):
        ks = [c for c in ir.ekids(n) if c.get("kind") != "CXXDefaultArgExpr"]
        if not ks:
            return False
        if len(ks) > 1:
            return True
        n = ir.strip(ks[0])
    if n.get("kind") == "StringLiteral":
        return n.get("value") not in ('""', "")
    if n.get("kind") == "InitListExpr" and not ir.ekids(n):
        return False
    return True


def _readlink_flow(d, fn, wrappers):
    """Path-wise: every use of the buffer that readlink filled (a string built / assigned / appended from it) must lie on a path whose conditions
    entail `len >= 0` and `len < capacity` for the most recent call, and a counted use must pass exactly the returned length.
    -> {"uses": n, "fail": (node, text) | None, "trunc": (node, text) | None, "count": (node, text) | None, "cstring": node | None} or None"""
    from .. import flow, linear
    from ..linear import Lin
    try:
        paths = flow.function_paths(fn, with_ctor_inits=False)
    except cj.AnalysisBroken:
        return None

    def uncast(t):
        while isinstance(t, tuple) and t and t[0] == "cast":
            t = t[3]
        if isinstance(t, tuple) and t and t[0] == "construct" and len(t) == 3:
            return uncast(t[2])
        return t

    def rl_call(n):
        """-> (buffer term, capacity term) if n is a readlink call or a call of a wrapper of it"""
        if n.get("kind") not in ("CallExpr", "CXXMemberCallExpr", "CXXOperatorCallExpr"):
            return None
        t = ir.sx(n)
        if t[0] == "call" and t[1] == ("ref", "readlink") and len(t) == 5:
            return t[3], t[4]
        c = ir.strip(ir.ekids(n)[0]) if ir.ekids(n) else None
        rid = None
        if c is not None:
            rid = c.get("referencedMemberDecl") if c.get("kind") == "MemberExpr" else (c.get("referencedDecl") or {}).get("id")
        if rid in wrappers:
            ia, ic = wrappers[rid]
            args = ir.ekids(n)[1:]
            if n.get("kind") == "CXXOperatorCallExpr":
                args = args[1:]          # the object the call operator is applied to
            if max(ia, ic) < len(args):
                return ir.sx(args[ia]), ir.sx(args[ic])
        return None

    def root(t):
        for x in ir.subterms(t):
            if isinstance(x, tuple) and x and x[0] == "ref":
                return x[1]
        return None
    res = {"uses": 0, "fail": None, "trunc": None, "count": None, "cstring": None, "source": None}
    returns_string = "string" in ((fn.get("type") or {}).get("qualType", "").split("(")[0])
    for path in paths:
        written = {}      # string local -> the node that gave it content on this path
        facts = []
        env = {}          # integer local -> Lin
        bools = {}        # bool local -> (op, Lin, Lin)
        st = {"k": 0, "capterm": None, "capvalid": False, "buf": None}
        dead = False

        def L(t):
            t = uncast(t)
            if t[0] == "lit":
                try:
                    v = int(str(t[1]))
                    return Lin({"": v}) if v else Lin()
                except ValueError:
                    return None
            if t[0] == "un" and t[1] == "-":
                a = L(t[2])
                return -a if a is not None else None
            if t[0] == "ref" and t[1] in env:
                return env[t[1]]
            if st["capvalid"] and st["capterm"] is not None and t == st["capterm"]:
                return Lin({"cap#%d" % st["k"]: 1})
            if t[0] == "bin" and t[1] in ("+", "-"):
                a, b = L(t[2]), L(t[3])
                if a is None or b is None:
                    return None
                return a + b if t[1] == "+" else a - b
            return None

        def new_call(bufcap):
            st["k"] += 1
            st["capterm"] = uncast(bufcap[1])
            st["capvalid"] = True
            st["buf"] = root(bufcap[0])
            facts.append(Lin({"len#%d" % st["k"]: 1, "": 1}))          # readlink returns -1 or a length
            return Lin({"len#%d" % st["k"]: 1})

        def value_of(node):
            """Lin of an integer initialiser / right-hand side; a (wrapped) readlink call starts a new (len, cap) pair"""
            inner = node
            while inner.get("kind") in ir.WRAPPERS or inner.get("kind") in ("ImplicitCastExpr", "CXXStaticCastExpr", "CStyleCastExpr", "CXXFunctionalCastExpr"):
                kk = ir.ekids(inner)
                if not kk:
                    break
                inner = kk[-1]
            bc = rl_call(inner)
            if bc is not None:
                return new_call(bc)
            return L(ir.sx(node))

        def cmp_of(t):
            t = uncast(t)
            if t[0] == "bin" and t[1] in linear.NEG:
                a, b = L(t[2]), L(t[3])
                if a is not None and b is not None:
                    return (t[1], a, b)
            return None

        def assume(c, truth):
            op, a, b = c
            if not truth:
                op = linear.NEG[op]
            facts.extend(linear.atom_facts(op, a, b))
            if op == "!=":
                if linear.entails(facts, a - b, ()):
                    facts.append(a - b - Lin({"": 1}))
                elif linear.entails(facts, b - a, ()):
                    facts.append(b - a - Lin({"": 1}))

        def scan_uses(node):
            for x in ir.walk_expr(node):
                k = x.get("kind")
                if k not in ("CXXMemberCallExpr", "CXXConstructExpr", "CXXTemporaryObjectExpr", "CXXOperatorCallExpr"):
                    continue
                t = ir.sx(x)
                args = None
                if k == "CXXMemberCallExpr" and t[0] == "call" and t[1][0] == "mem" and t[1][2] in ("assign", "append"):
                    args = [a for a in t[2:] if a != ("defaultarg",)]
                elif k in ("CXXConstructExpr", "CXXTemporaryObjectExpr") and "basic_string" in ir.qtype(x):
                    args = [ir.sx(a) for a in ir.ekids(x) if a.get("kind") != "CXXDefaultArgExpr"]
                elif k == "CXXOperatorCallExpr" and t[0] == "bin" and t[1] == "=" and "basic_string" in ir.qtype(ir.ekids(x)[1]):
                    args = [t[3]]
                if not args or st["buf"] is None or st["k"] == 0:
                    continue
                a0 = uncast(args[0])
                if root(a0) != st["buf"] or a0 == ("ref", st["buf"]) and "basic_string" in ir.qtype(x) and k != "CXXOperatorCallExpr" and len(args) == 1 and \
                        "basic_string" in (ir.qtype(ir.ekids(x)[0]) if ir.ekids(x) else ""):
                    continue
                # only a pointer into the buffer counts (data(), &buf[0], the array itself); a copy of the string object does not read raw bytes
                lenk = Lin({"len#%d" % st["k"]: 1})
                res["uses"] += 1
                if len(args) >= 2:
                    n_ = L(args[1])
                    if n_ is None or n_ != lenk:
                        res["count"] = res["count"] or (x, "`%s` takes `%s` characters, not the length the last readlink returned" % (d.text(x)[:50], ir.show(args[1])[:30]))
                else:
                    res["cstring"] = res["cstring"] or x
                if not linear.entails(facts, lenk, ()):
                    res["fail"] = res["fail"] or (x, "`%s` is reached on a path that did not rule out the failure result -1" % d.text(x)[:50])
                if len(args) >= 2 and not linear.entails(facts, Lin({"cap#%d" % st["k"]: 1}) - lenk - Lin({"": 1}), ()):
                    res["trunc"] = res["trunc"] or (x, "`%s` is reached on a path that did not establish length < capacity `%s`: a result that fills the whole buffer may "
                                                       "already be truncated" % (d.text(x)[:50], ir.show(st["capterm"])[:30] if st["capterm"] else "?"))
        for step in path:
            kind = step[0]
            if kind == "cond" and isinstance(step[1], dict):
                t = uncast(ir.sx(step[1]))
                c = cmp_of(t)
                if c is None and t[0] == "ref" and t[1] in bools:
                    c = bools[t[1]]
                if c is not None:
                    assume(c, step[2])
                    if len(facts) <= 14 and linear.entails(facts, Lin({"": -1}), ()):
                        dead = True
                        break
                continue
            if kind == "decl":
                v = step[1]
                init = ir.ekids(v)
                if not init:
                    continue
                if ir.qtype(v).replace("const ", "").strip() == "bool":
                    c = cmp_of(ir.sx(init[-1]))
                    if c is not None:
                        bools[v.get("name")] = c
                    else:
                        bools.pop(v.get("name"), None)
                    continue
                val = value_of(init[-1])
                if val is not None:
                    env[v.get("name")] = val
                else:
                    env.pop(v.get("name"), None)
                    scan_uses(v)
                    if "basic_string" in ir.qtype(v) and _string_content(init[-1]):
                        written[v.get("name")] = v
                continue
            if kind == "return" and isinstance(step[1], dict):
                scan_uses(step[1])
                if returns_string and st["k"] == 0 and ir.ekids(step[1]) and res["source"] is None:
                    e_ = ir.ekids(step[1])[0]
                    rt_ = uncast(ir.sx(e_))
                    src_ = None
                    if rt_[0] == "ref" and rt_[1] in written:
                        src_ = written[rt_[1]]
                    elif rt_[0] != "ref" and _string_content(e_):
                        src_ = e_
                    if src_ is not None:
                        res["source"] = (step[1], "a path returns the string given content by `%s` without any readlink call before it: on that path the result is "
                                                  "not the target of /proc/self/exe" % re.sub(r"\s+", " ", d.text(src_))[:70])
                continue
            if kind != "ev" or not isinstance(step[1], dict):
                continue
            n = step[1]
            t = ir.sx(n)
            if n.get("kind") in ("BinaryOperator",) and n.get("opcode") == "=" and uncast(t[2])[0] == "ref":
                nm = uncast(t[2])[1]
                rhs = ir.ekids(n)[1]
                c = cmp_of(ir.sx(rhs))
                if c is not None and "bool" in ir.qtype(ir.ekids(n)[0]):
                    bools[nm] = c
                    continue
                val = value_of(rhs)
                if val is not None:
                    env[nm] = val
                else:
                    env.pop(nm, None)
                    bools.pop(nm, None)
                continue
            if n.get("kind") in ("CXXOperatorCallExpr", "CXXMemberCallExpr"):
                tw = uncast(t)
                tgt_ = None
                if tw[0] == "bin" and tw[1] in ("=", "+=") and uncast(tw[2])[0] == "ref":
                    tgt_, rhs_ = uncast(tw[2])[1], (ir.ekids(n)[2] if len(ir.ekids(n)) > 2 else None)
                    if rhs_ is not None and not _string_content(rhs_):
                        tgt_ = None
                elif tw[0] == "call" and tw[1][0] == "mem" and tw[1][2] in ("assign", "append", "push_back", "insert") and uncast(tw[1][1])[0] == "ref":
                    tgt_ = uncast(tw[1][1])[1]
                if tgt_ is not None and "basic_string" in ir.qtype(ir.ekids(n)[1] if n.get("kind") == "CXXOperatorCallExpr" else n):
                    written.setdefault(tgt_, n)
            bc = rl_call(n)
            if bc is not None:
                # evaluated for its value elsewhere (initialiser / assignment): those sites create the pair; a bare call statement discards the length
                par = d.parent_of(n)
                hops = 0
                while par is not None and par.get("kind") in ("ImplicitCastExpr", "ParenExpr", "CXXStaticCastExpr", "CStyleCastExpr", "ExprWithCleanups") and hops < 5:
                    par = d.parent_of(par)
                    hops += 1
                if par is not None and (par.get("kind") == "VarDecl" or (par.get("kind") == "BinaryOperator" and par.get("opcode") == "=")):
                    continue
                new_call(bc)
                continue
            # a change of the buffer object's size invalidates what `capacity` meant at the call
            if n.get("kind") in ("CXXMemberCallExpr",) and t[0] == "call" and t[1][0] == "mem" and uncast(t[1][1])[0] == "ref" and uncast(t[1][1])[1] == st["buf"] and \
                    t[1][2] not in ("data", "size", "length", "c_str", "begin", "end", "operator[]", "capacity", "empty"):
                st["capvalid"] = False
                continue
            scan_uses(n)
        if dead:
            continue
    return res if res["uses"] else None


def _readlink_site(rep, d, fn, call, t, name, flow_res=None):
    where = d.where(call)
    buf, cap = t[3], t[4]
    # the result variable (or direct comparison)
    par = d.parent_of(call)
    while par is not None and par.get("kind") in ("ImplicitCastExpr", "ParenExpr", "CXXStaticCastExpr"):
        par = d.parent_of(par)
    resvar = None
    if par is not None and par.get("kind") == "VarDecl":
        resvar = par.get("name")
    text_fn = d.text(fn)
    from .. import fstring as fs
    scalar = {v_.get("name") for v_ in ir.walk_expr(fn) if v_.get("kind") == "VarDecl" and trange.type_range(ir.qtype(v_)) is not None or
              (v_.get("kind") == "VarDecl" and ir.qtype(v_).replace("const ", "").strip() in ("std::size_t", "size_t", "ssize_t", "std::string::size_type"))}
    loc = {k_: v_ for k_, v_ in fs.local_sx(fn).items() if k_ != resvar and k_ in scalar}
    _sx = ir.sx

    def SX(n):
        return fs.subst_locals(_sx(n), loc)          # hoisted locals (the converted length, the capacity) are read through
    # (a) failure test
    fail_tests = []
    for n in ir.walk_expr(fn):
        if n.get("kind") == "BinaryOperator" and n.get("opcode") in ("==", "!=", "<", ">=", "<=", ">"):
            s = SX(n)
            sides = [s[2], s[3]]
            is_res = lambda x: (resvar is not None and x == ("ref", resvar)) or (x[0] == "call" and x[1] == ("ref", "readlink"))
            strip = lambda x: strip(x[3]) if x[0] == "cast" else x
            sides = [strip(x) for x in sides]
            if any(is_res(x) for x in sides):
                other = [x for x in sides if not is_res(x)]
                fail_tests.append((n, s[1], other[0] if other else None))
    neg1 = lambda x: x is not None and ((x[0] == "un" and x[1] == "-" and x[2] == ("lit", "1")) or x == ("lit", "-1"))
    zero = lambda x: x == ("lit", "0")
    has_fail = any((op in ("==", "!=") and neg1(o)) or (op in ("<", ">=") and zero(o)) for _, op, o in fail_tests)
    if flow_res is not None and flow_res.get("source"):
        rep.violates("C20.readlink", name, "the result comes from /proc/self/exe", where=d.where(flow_res["source"][0]), detail=flow_res["source"][1])
    elif flow_res is not None:
        rep.holds("C20.readlink", name, "the result comes from /proc/self/exe", where=where, detail="no path returns a string that was given content before the first readlink call")
    if flow_res is not None:
        if flow_res["fail"]:
            rep.violates("C20.readlink", name, "failure test", where=d.where(flow_res["fail"][0]), detail=flow_res["fail"][1])
        else:
            rep.holds("C20.readlink", name, "failure test", where=where, detail="every use of the buffer lies on a path that excluded -1 (%d uses over all paths)" % flow_res["uses"])
    else:
        (rep.holds if has_fail else rep.violates)("C20.readlink", name, "failure test", where=where,
                                                  detail="result compared with -1 / < 0" if has_fail else "the result of readlink is never tested for failure (-1)")
    # (b) how is the path built from the buffer?
    bufname = None
    for s in ir.subterms(buf):
        if s[0] == "ref":
            bufname = s[1]
            break
    counted_use = False
    resized_to_len = False
    cstring_use = None
    for n in ir.walk_expr(fn):
        k = n.get("kind")
        if k in ("CXXMemberCallExpr", "CXXOperatorCallExpr", "CXXConstructExpr", "CXXTemporaryObjectExpr", "CXXFunctionalCastExpr"):
            s = SX(n)
            refs = [x for x in ir.subterms(s) if x == ("ref", bufname)]
            if not refs or n is call or any(c is call for c in ir.walk_expr(n)):
                continue
            uses_len = resvar is not None and any(x == ("ref", resvar) for x in ir.subterms(s))
            if s[0] == "call" and s[1][0] == "mem" and s[1][2] in ("assign", "append") and uses_len:
                counted_use = True
            elif s[0] == "call" and s[1][0] == "mem" and s[1][2] == "resize" and s[1][1] == ("ref", bufname) and uses_len:
                counted_use = True          # the buffer string itself is cut to the returned length before it is used
                resized_to_len = True
            elif s[0] == "construct" and uses_len:
                counted_use = True
            elif resized_to_len and s[0] == "bin" and s[1] == "=":
                pass
            elif (s[0] == "bin" and s[1] == "=" and not uses_len and any(x == ("ref", bufname) for x in ir.subterms(s[3]))) or \
                    (s[0] == "call" and s[1][0] == "mem" and s[1][2] in ("assign", "append") and not uses_len and len(s) == 3):
                cstring_use = n
    if flow_res is not None and flow_res["cstring"] is None:
        if flow_res["count"]:
            rep.violates("C20.readlink", name, "path built from returned length", where=d.where(flow_res["count"][0]), detail=flow_res["count"][1])
        else:
            rep.holds("C20.readlink", name, "path built from returned length", where=where, detail="every string built from the buffer takes exactly the returned length")
    elif counted_use and cstring_use is None:
        rep.holds("C20.readlink", name, "path built from returned length", where=where, detail="buffer `%s` used with the returned length" % bufname)
    elif cstring_use is not None:
        # allowed only if capacity passed < real capacity and buffer zeroed: passed length must be sizeof(buf) - 1
        capshow = ir.show(cap)
        reserve = cap[0] == "bin" and cap[1] == "-" and cap[3] == ("lit", "1")
        zeroed = "memset" in text_fn or "= {0}" in text_fn or "{}" in text_fn
        if reserve and zeroed:
            rep.holds("C20.readlink", name, "path built from returned length", where=d.where(cstring_use),
                      detail="C-string use with a reserved terminator byte (%s)" % capshow)
        else:
            rep.violates("C20.readlink", name, "path built from returned length", where=d.where(cstring_use),
                         detail="the buffer is used as a C string (`%s`) although readlink was given the whole capacity `%s` and does not "
                                "write a terminator: for a path of exactly that length the copy runs off the buffer" % (
                                    d.text(cstring_use)[:50], capshow))
    else:
        rep.inconclusive("C20.readlink", name, "path built from returned length", where=where, detail="no use of the buffer recognised")
    # (c) truncation test: result compared against the capacity expression
    cap_terms = {cap}
    strip = lambda x: strip(x[3]) if x[0] == "cast" else x
    cap_s = strip(cap)
    trunc = any(o is not None and (strip(o) == cap_s or ir.show(strip(o)) == ir.show(cap_s)) for _, op, o in fail_tests)
    if flow_res is not None and flow_res["cstring"] is None:
        if flow_res["trunc"]:
            rep.violates("C20.readlink", name, "truncation test", where=d.where(flow_res["trunc"][0]), detail=flow_res["trunc"][1])
        else:
            rep.holds("C20.readlink", name, "truncation test", where=where, detail="every string built from the buffer lies on a path that established length < capacity")
        return
    if trunc:
        # the branch that builds the path must establish  len < capacity  (len == capacity may already be a truncated result)
        from ..linear import Lin, lin, nnf, dnf, atom_facts, entails
        def symmap(x):
            x = strip(x)
            if resvar is not None and x == ("ref", resvar):
                return "len"
            if x == cap_s or ir.show(x) == ir.show(cap_s):
                return "cap"
            return None
        verdict = None
        for n in ir.walk_expr(fn):
            if n.get("kind") != "IfStmt":
                continue
            ks = ir.ekids(n)
            uses = [c for c in ir.walk_expr(ks[1]) if c.get("kind") in ("CXXMemberCallExpr", "CXXConstructExpr", "CXXTemporaryObjectExpr") and resvar is not None
                    and any(x == ("ref", resvar) for x in ir.subterms(SX(c))) and any(x == ("ref", bufname) for x in ir.subterms(SX(c)))]
            if not uses:
                continue
            cases = dnf(nnf(SX(ks[0])))
            ok_all = True
            for conj in cases:
                facts = []
                for leaf in conj:
                    if leaf[0] == "atom":
                        l, r = lin(leaf[2], symmap), lin(leaf[3], symmap)
                        if l is not None and r is not None:
                            facts += atom_facts(leaf[1], l, r)
                if not entails(facts, Lin({"cap": 1, "len": -1, "": -1}), ()):
                    ok_all = False
            verdict = (ok_all, n)
        if verdict is None:
            rep.inconclusive("C20.readlink", name, "truncation test", where=where, detail="the branch that builds the path was not recognised")
        elif verdict[0]:
            rep.holds("C20.readlink", name, "truncation test", where=d.where(verdict[1]), detail="path built only when returned length < capacity `%s`" % ir.show(cap_s))
        else:
            rep.violates("C20.readlink", name, "truncation test", where=d.where(verdict[1]),
                         detail="the path is built under `%s`, which does not imply length < capacity: a result that fills the whole buffer may "
                                "already be truncated" % d.text(ir.ekids(verdict[1])[0])[:80])
    else:
        # a capacity of at least PATH_MAX + 1 cannot truncate
        big = False
        iv = None
        for n in ir.walk_expr(call):
            pass
        rep.violates("C20.readlink", name, "truncation test", where=where,
                     detail="the returned length is never compared with the capacity `%s`: an install path that does not fit is silently "
                            "truncated to the buffer size" % ir.show(cap_s))


def rule_prefix(rep, d, fn):
    rep.rule("C20.prefix", "prefix_path() = executable_path() cut at the last separator twice (two find_last_of(separator) cuts chained "
                           "on the previous result, each substr starting at 0) with the separator appended exactly once")
    from .. import norm
    name = "prefix_path"
    where = d.where(fn)
    # the separator: a char local / parameter-free constant whose value is '/'
    sep_names = set()
    sep_val = None
    for n in ir.walk_expr(ir.body(fn)):
        if n.get("kind") == "VarDecl" and ir.qtype(n).replace("const ", "").strip() == "char" and ir.ekids(n):
            iv = trange.interval(ir.ekids(n)[-1])
            if iv and iv[0] == iv[1]:
                sep_names.add(n.get("name"))
                sep_val = iv[0]
    # ... or a parameter-free function of the library that returns a character constant (`detail::path_separator()`), called from here or from
    # a helper of this function
    sep_fns = {}
    for f_ in ir.functions(d):
        if "/xtl/" in (d.where(f_) or "") and ir.body(f_) is not None and not ir.params(f_):
            rt_ = (f_.get("type") or {}).get("qualType", "").split("(")[0].strip()
            ks_ = ir.kids(ir.body(f_))
            if rt_.replace("const ", "").replace("constexpr ", "").strip() == "char" and len(ks_) == 1 and ks_[0].get("kind") == "ReturnStmt" and ir.ekids(ks_[0]):
                iv = trange.interval(ir.ekids(ks_[0])[0])
                if iv and iv[0] == iv[1]:
                    sep_fns[f_.get("name")] = iv[0]
    if sep_val is None and sep_fns:
        vals_ = set(sep_fns.values())
        sep_val = vals_.pop() if len(vals_) == 1 else None
    if sep_val is None:
        rep.inconclusive("C20.prefix", name, "separator", where=where, detail="no character constant that could be the separator found")
    elif sep_val != ord("/"):
        rep.violates("C20.prefix", name, "separator", where=where, detail="separator on this platform must be '/', found code %s" % sep_val)
    else:
        rep.holds("C20.prefix", name, "separator", where=where)
    # abstract values: ("EXE",), ("cut", s) = s up to (not including) its last separator, the whole of s when there is none,
    # ("app", s) = s + separator, ("flo", s) = s.find_last_of(separator), ("?", text) = anything else
    env = {}

    def is_sep(t):
        t = norm.uncast(t)
        if t[0] == "val":
            return t[1] == ("SEP",)
        if t[0] == "call" and len([x for x in t[2:] if x != ("defaultarg",)]) == 0:
            nm_ = str(t[1][1] if t[1][0] == "ref" else t[1][2]).split("::")[-1]
            if sep_fns.get(nm_) == ord("/"):
                return True
        return (t[0] == "ref" and t[1] in sep_names) or (t[0] == "lit" and str(t[1]) in ("47", "'/'"))

    def helper_body(nm):
        for f in ir.functions(d, nm):
            if ir.body(f) is not None and "/xtl/" in (d.where(f) or ""):
                ks = ir.kids(ir.body(f))
                if len(ks) == 1 and ks[0].get("kind") == "ReturnStmt" and ir.ekids(ks[0]):
                    return f, ir.sx(ir.ekids(ks[0])[0])
        return None, None

    def subst(x, m):
        if not isinstance(x, tuple):
            return x
        if x[0] == "ref" and x[1] in m:
            return ("val", m[x[1]])
        return tuple(subst(y, m) if isinstance(y, tuple) else y for y in x)

    def ev(t, depth=0):
        t = norm.uncast(t)
        if t[0] == "val":
            return t[1]
        if t[0] == "ref":
            if t[1] in env:
                return env[t[1]]
            if t[1] in sep_names:
                return ("SEP",)
            if str(t[1]).split("::")[-1] == "npos":
                return ("NPOS",)
            return ("?", t[1])
        if t[0] == "lit":
            return ("NPOS",) if str(t[1]) in ("18446744073709551615", "-1") else (("SEP",) if is_sep(t) else ("lit", str(t[1])))
        if t[0] == "mem" and t[2] == "npos":
            return ("NPOS",)
        t2 = tuple(x for x in t if x != ("defaultarg",))
        if t2[0] == "call":
            callee = t2[1]
            args = t2[2:]
            if callee == ("ref", "executable_path") and not args:
                return ("EXE",)
            if not args and is_sep(t2):
                return ("SEP",)
            if callee[0] == "mem" and callee[2] in ("find_last_of", "rfind") and len(args) >= 1 and is_sep(args[0]):
                return ("flo", ev(callee[1], depth))
            if callee[0] == "mem" and callee[2] in ("find_last_of", "rfind", "find", "find_first_of") and len(args) >= 1:
                return ("flox", ev(callee[1], depth), ir.show(t2)[:50])       # a cut position, but not the last separator
            if callee[0] == "mem" and callee[2] in ("rfind",) and len(args) >= 1 and is_sep(args[0]):
                return ("flo", ev(callee[1], depth))
            if callee[0] == "mem" and callee[2] == "substr" and len(args) == 2 and norm.int_of(args[0]) == 0:
                base = ev(callee[1], depth)
                pos_ = ev(args[1], depth)
                if pos_ == ("flo", base):
                    return ("cut", base)
                if pos_[0] == "flox" and pos_[1] == base:
                    return ("cutx", base, pos_[2])
                return ("?", ir.show(t2)[:60])
            nm = str(callee[1]).split("::")[-1] if callee[0] == "ref" else None
            if nm and depth < 4:
                f, body = helper_body(nm)
                if f is not None and len(ir.params(f)) == len(args):
                    m = {p_.get("name"): ev(a_, depth) for p_, a_ in zip(ir.params(f), args)}
                    return ev(subst(body, m), depth + 1)
                # a helper with statements that works on its own copy of the string (`path.erase(pos); return path;`)
                for f2 in ir.functions(d, nm):
                    if ir.body(f2) is None or "/xtl/" not in (d.where(f2) or "") or len(ir.params(f2)) != len(args):
                        continue
                    saved_env, saved_sep = dict(env), set(sep_names)
                    for p_, a_ in zip(ir.params(f2), args):
                        v_ = ev(a_, depth)
                        if v_ == ("SEP",):
                            sep_names.add(p_.get("name"))
                        else:
                            env[p_.get("name")] = v_
                    state["rets"].append(None)
                    ok_before = state["straight"]
                    run_stmts(ir.kids(ir.body(f2)), {}, depth + 1)
                    rv_ = state["rets"].pop()
                    env.clear()
                    env.update(saved_env)
                    sep_names.clear()
                    sep_names.update(saved_sep)
                    if rv_ is not None and state["straight"]:
                        return rv_
                    state["straight"] = ok_before
                    break
            return ("?", ir.show(t2)[:60])
        if t2[0] == "cond":
            # npos == cut ? s : s.substr(0, cut)  ==  s.substr(0, cut)  (substr clamps npos to the end)
            c = norm.norm_cmp(t2[1], lambda x: ev(x, depth)[0] == "flo")
            if c is not None and c[0] in ("==", "!=") and ev(c[2], depth) == ("NPOS",):
                base = ev(c[1], depth)[1]
                whole, cutv = (t2[2], t2[3]) if c[0] == "==" else (t2[3], t2[2])
                if ev(whole, depth) == base and ev(cutv, depth) == ("cut", base):
                    return ("cut", base)
            return ("?", ir.show(t2)[:60])
        if t2[0] == "bin" and t2[1] == "+":
            a_, b_ = ev(t2[2], depth), ev(t2[3], depth)
            if b_ == ("SEP",):
                return ("app", a_)
            return ("?", ir.show(t2)[:60])
        if t2[0] == "construct" and len(t2) == 3:
            return ev(t2[2], depth)
        return ("?", ir.show(t2)[:60])
    state = {"result": None, "straight": True, "rets": []}

    def resolve(nm_, alias):
        return alias.get(nm_, nm_)

    def flo_local(t, alias):
        """value of a position term, through position locals"""
        return ev(t)

    def run_stmts(stmts, alias, depth):
        for s_ in stmts:
            k = s_.get("kind")
            if k == "CompoundStmt":
                run_stmts(ir.kids(s_), alias, depth)
            elif k == "DeclStmt":
                for v in ir.kids(s_):
                    if v.get("kind") == "VarDecl" and ir.ekids(v) and v.get("name") not in sep_names:
                        env[v.get("name")] = ev(sub_alias(ir.sx(ir.ekids(v)[-1]), alias))
                    elif v.get("kind") in ("TypedefDecl", "TypeAliasDecl"):
                        pass
            elif k == "ReturnStmt":
                rv0 = ev(sub_alias(ir.sx(ir.ekids(s_)[0]), alias)) if ir.ekids(s_) else None
                if state["rets"]:
                    state["rets"][-1] = rv0
                elif depth == 0:
                    state["result"] = rv0
            elif k == "IfStmt":
                # `if (pos != npos) s.erase(pos);` with pos = s.rfind/find_last_of(separator): s up to its last separator, whole when there is none
                raw = [c for c in s_.get("inner", []) if isinstance(c, dict) and c.get("kind")]
                c = norm.norm_cmp(sub_alias(ir.sx(raw[0]), alias), lambda x: ev(x)[0] == "flo")
                body_ = ir.kids(raw[1]) if raw[1].get("kind") == "CompoundStmt" else [raw[1]]
                done = False
                if c is not None and c[0] == "!=" and ev(c[2]) == ("NPOS",) and len(raw) == 2 and len(body_) == 1:
                    t = norm.uncast(sub_alias(ir.sx(body_[0]), alias))
                    if t[0] == "call" and t[1][0] == "mem" and t[1][2] in ("erase", "resize") and norm.uncast(t[1][1])[0] == "ref" and len([x for x in t[2:] if x != ("defaultarg",)]) == 1:
                        nm_ = norm.uncast(t[1][1])[1]
                        cur = env.get(nm_, ("?", "uninitialised"))
                        if ev(c[1]) == ("flo", cur) and ev(t[2]) == ("flo", cur):
                            env[nm_] = ("cut", cur)
                            done = True
                if not done:
                    state["straight"] = False
            elif k in ("CompoundAssignOperator", "CXXOperatorCallExpr", "CXXMemberCallExpr", "BinaryOperator", "ExprWithCleanups", "CallExpr"):
                t = norm.uncast(sub_alias(ir.sx(s_), alias))
                t = tuple(x for x in t if x != ("defaultarg",)) if t and t[0] == "call" else t
                if t[0] == "bin" and t[1] == "+=" and norm.uncast(t[2])[0] == "ref" and is_sep(t[3]):
                    env[norm.uncast(t[2])[1]] = ("app", env.get(norm.uncast(t[2])[1], ("?", "uninitialised")))
                elif t[0] == "call" and t[1][0] == "mem" and t[1][2] in ("push_back", "append") and norm.uncast(t[1][1])[0] == "ref" and (len(t) == 3 and is_sep(t[2]) or (len(t) == 4 and norm.int_of(t[2]) == 1 and is_sep(t[3]))):
                    nm_ = norm.uncast(t[1][1])[1]
                    env[nm_] = ("app", env.get(nm_, ("?", "uninitialised")))
                elif t[0] == "bin" and t[1] == "=" and norm.uncast(t[2])[0] == "ref":
                    env[norm.uncast(t[2])[1]] = ev(t[3])
                elif t[0] == "call" and t[1][0] == "mem" and t[1][2] in ("resize", "erase") and norm.uncast(t[1][1])[0] == "ref" and len(t) == 3:
                    # in-place cut: s.resize(p) / s.erase(p) keep s[0..p)
                    nm_ = norm.uncast(t[1][1])[1]
                    cur = env.get(nm_, ("?", "uninitialised"))
                    a_ = tuple(x for x in norm.uncast(t[2]) if x != ("defaultarg",))
                    pos_ = ev(a_)
                    if a_[0] == "call" and str(a_[1][1] if a_[1][0] == "ref" else "").split("::")[-1] == "min" and len(a_) == 4:
                        x_, y_ = ev(a_[2]), ev(a_[3])
                        szt = [q for q in (a_[2], a_[3]) if norm.uncast(q)[0] == "call" and norm.uncast(q)[1][0] == "mem" and norm.uncast(q)[1][2] in ("size", "length")]
                        fl = [q for q in (x_, y_) if q[0] == "flo"]
                        if szt and fl and fl[0] == ("flo", cur):
                            pos_ = fl[0]          # min(find_last_of(sep), size()): npos clamps to the whole string, like substr
                    if pos_ == ("flo", cur):
                        env[nm_] = ("cut", cur) if t[1][2] == "erase" or (a_[0] == "call" and "min" in ir.show(a_[1])) else ("cutx", cur, "resize(find_last_of(sep)) - throws when no separator is left")
                    elif a_[0] == "bin" and a_[1] == "+" and ev(a_[2]) == ("flo", cur) and norm.int_of(a_[3]) == 1:
                        env[nm_] = ("cutx", cur, "keeps s[0..last separator]; empty when no separator is left (npos + 1 wraps to 0)")
                    else:
                        env[nm_] = ("?", ir.show(t)[:60])
                elif t[0] == "call" and depth < 3 and helper_stmts(t) is not None:
                    # a helper of the library that edits a string it receives by reference
                    f_, al2 = helper_stmts(t)
                    run_stmts(ir.kids(ir.body(f_)), al2, depth + 1)
                else:
                    state["straight"] = False
            elif k not in ("NullStmt",):
                state["straight"] = False

    def sub_alias(t, alias):
        if not alias or not isinstance(t, tuple):
            return t
        if t[0] == "ref" and t[1] in alias:
            return ("ref", alias[t[1]])
        return tuple(sub_alias(x, alias) if isinstance(x, tuple) else x for x in t)

    def helper_stmts(t):
        callee = t[1]
        nm_ = str(callee[1] if callee[0] == "ref" else callee[2]).split("::")[-1]
        args = [x for x in t[2:] if x != ("defaultarg",)]
        for f_ in ir.functions(d, nm_):
            if ir.body(f_) is None or "/xtl/" not in (d.where(f_) or "") or len(ir.params(f_)) != len(args):
                continue
            al2 = {}
            ok = True
            for p_, a_ in zip(ir.params(f_), args):
                a0 = norm.uncast(a_)
                if "&" in ir.qtype(p_) and "const" not in ir.qtype(p_) and a0[0] == "ref":
                    al2[p_.get("name")] = a0[1]
                else:
                    ok = False
            if ok and al2:
                return f_, al2
        return None
    run_stmts(ir.kids(ir.body(fn)), {}, 0)
    result = state["result"]
    straight = state["straight"]
    want = ("app", ("cut", ("cut", ("EXE",))))

    def sh(v):
        if v is None:
            return "nothing"
        if v[0] == "EXE":
            return "executable_path()"
        if v[0] == "cut":
            return "cut(%s)" % sh(v[1])
        if v[0] == "app":
            return "%s + separator" % sh(v[1])
        if v[0] == "cutx":
            return "%s cut at `%s`" % (sh(v[1]), v[2])
        return str(v[-1])

    def unknown(v):
        return v is None or v[0] == "?" or (len(v) > 1 and isinstance(v[1], tuple) and unknown(v[1]))
    if result == want and straight:
        rep.holds("C20.prefix", name, "two chained cuts", where=where, detail=sh(result))
    elif not straight or unknown(result):
        rep.inconclusive("C20.prefix", name, "two chained cuts", where=where, detail="the body is not a straight-line composition of cuts that can be evaluated: `%s`" % sh(result))
    else:
        rep.violates("C20.prefix", name, "two chained cuts", where=where, detail="returns `%s`; expected `%s` (cut = everything before the last separator)" % (sh(result), sh(want)))


def rule_endian(rep, d, fn):
    rep.rule("C20.endian", "endianness(): the byte at index 0 of the probe constant decides: equal to the constant's most significant "
                           "byte -> big_endian, least significant byte -> little_endian, anything else -> mixed")
    name = "endianness"
    where = d.where(fn)
    probe = None
    for n in ir.walk_expr(ir.body(fn)):
        if n.get("kind") == "VarDecl" and ir.ekids(n):
            iv = trange.interval(ir.ekids(n)[-1])
            if iv and iv[0] == iv[1] and iv[0] > 255:
                probe = (n.get("name"), iv[0], ir.qtype(n))
    XTL = {"big_endian": 0, "little_endian": 1, "mixed": 2}
    STD = {"little": 1234, "big": 4321, "native": 1234}
    # the enumerator values as declared (an integer converted to xtl::endian means the enumerator with that value)
    enum_decl = [n for n in d.by_id.values() if n.get("kind") == "EnumDecl" and n.get("name") == "endian" and "xplatform" in (d.where(n) or "")]
    if enum_decl:
        nxt, vals = 0, {}
        for ec in ir.kids(enum_decl[0]):
            if ec.get("kind") != "EnumConstantDecl":
                continue
            iv_ = None
            for x in ir.walk_expr(ec):
                if x.get("kind") == "ConstantExpr" and "value" in x:
                    iv_ = int(x["value"])
                    break
                if x.get("kind") == "IntegerLiteral":
                    iv_ = int(x["value"])
            if iv_ is not None:
                nxt = iv_
            vals[ec.get("name")] = nxt
            nxt += 1
        if {"big_endian", "little_endian"} <= set(vals):
            XTL = vals
    local_init = {v.get("id"): ir.ekids(v)[-1] for v in ir.walk_expr(ir.body(fn)) if v.get("kind") == "VarDecl" and ir.ekids(v)
                  and ("const" in ir.qtype(v) or v.get("constexpr"))}

    def fold(n):
        n0 = n
        while n.get("kind") in ir.WRAPPERS or n.get("kind") in ("ImplicitCastExpr", "CXXStaticCastExpr", "CStyleCastExpr", "CXXFunctionalCastExpr"):
            kk = ir.ekids(n)
            if not kk:
                return None
            n = kk[-1]
        k = n.get("kind")
        ks = ir.ekids(n)
        if k == "DeclRefExpr":
            rd = n.get("referencedDecl") or {}
            if rd.get("kind") == "EnumConstantDecl":
                nm = rd.get("name")
                q = ir.qtype(n)
                if "std::endian" in q:
                    return STD.get(nm)
                return XTL.get(nm)
            if rd.get("id") in local_init:
                return fold(local_init[rd.get("id")])
            return None
        if k == "BinaryOperator" and n.get("opcode") in ("||", "&&"):
            a = fold(ks[0])
            if a is None:
                return None
            if n.get("opcode") == "||" and a:
                return 1
            if n.get("opcode") == "&&" and not a:
                return 0
            b = fold(ks[1])
            return None if b is None else int(bool(b))
        if k in ("IntegerLiteral",):
            return int(n.get("value"))
        if k == "CXXBoolLiteralExpr":
            return 1 if n.get("value") else 0
        if k == "BinaryOperator" and n.get("opcode") in ("==", "!="):
            a, b = fold(ks[0]), fold(ks[1])
            if a is None or b is None:
                return None
            return int((a == b) == (n.get("opcode") == "=="))
        if k == "ConditionalOperator":
            c = fold(ks[0])
            return None if c is None else fold(ks[1] if c else ks[2])
        if k == "UnaryOperator" and n.get("opcode") == "!":
            a = fold(ks[0])
            return None if a is None else int(not a)
        return None

    sw = [n for n in ir.walk_expr(ir.body(fn)) if n.get("kind") == "SwitchStmt"]
    has_copy = bool(list(calls_named(fn, "memcpy"))) or any(n.get("kind") == "CallExpr" and len(ir.ekids(n)) == 2 and (trange.interval(ir.ekids(n)[1]) or (0, 0))[0] > 255 for n in ir.walk_expr(ir.body(fn)))
    if len(sw) == 0 and not has_copy:
        # no run-time probe in this configuration: a compile-time answer is acceptable only if it folds to this target's byte order
        # (x86-64: little endian; std::endian::native == std::endian::little)
        rets = [r for r in ir.walk_expr(ir.body(fn)) if r.get("kind") == "ReturnStmt" and ir.ekids(r)]
        if len(rets) == 1:
            v = fold(ir.ekids(rets[0])[0])
            if v == XTL["little_endian"]:
                rep.holds("C20.endian", name, "single decision", where=d.where(rets[0]), detail="compile-time answer `%s` folds to little_endian on this little-endian target" % d.text(rets[0])[:60])
                return
            if v is not None:
                rep.violates("C20.endian", name, "single decision", where=d.where(rets[0]),
                             detail="in this configuration the function is `%s`, which folds to %s on this little-endian target: the reported byte order is not the machine's" % (
                                 d.text(rets[0])[:70], {v_: k_ for k_, v_ in XTL.items()}.get(v, v)))
                return
        consts = [r for r in ir.walk_expr(ir.body(fn)) if r.get("kind") == "ReturnStmt" and ir.ekids(r)
                  and ir.strip(ir.ekids(r)[0]).get("kind") == "DeclRefExpr" and (ir.strip(ir.ekids(r)[0]).get("referencedDecl") or {}).get("kind") == "EnumConstantDecl"]
        if consts:
            rep.violates("C20.endian", name, "single decision", where=d.where(consts[0]),
                         detail="in this configuration (include order / predefined macros) the function is just `%s`: the answer is taken from a preprocessor test, "
                                "not from the byte order of the machine" % d.text(consts[0])[:60])
            return
    # ---- run-time probe: decided by evaluating the function for each value the inspected byte can have
    from .. import flow, norm
    from .. import fstring as fs
    probe_val = probe[1] if probe else None
    # the inspected byte may be produced by a library helper (leading_byte(0x01020304)): the helper is the probe then
    work_fn, subject_is_call = fn, None
    if probe is None:
        for n in ir.walk_expr(ir.body(fn)):
            if n.get("kind") == "CallExpr":
                c_ = ir.strip(ir.ekids(n)[0])
                tgt = d.by_id.get((c_.get("referencedDecl") or {}).get("id"))
                if tgt is not None and ir.body(tgt) is not None and "/xtl/" in (d.where(tgt) or "") and len(ir.ekids(n)) == 2:
                    iv = trange.interval(ir.ekids(n)[1])
                    if iv and iv[0] == iv[1] and iv[0] > 255:
                        probe_val = iv[0]
                        subject_is_call = (n, tgt)
    if probe_val is None:
        rep.inconclusive("C20.endian", name, "shape", where=where, detail="probe constant not found")
        return
    width = 4 if probe_val < 2 ** 32 else 8
    bytes_ = [(probe_val >> (8 * i)) & 0xFF for i in range(width)]
    msb, lsb = bytes_[-1], bytes_[0]
    if len(set(bytes_)) != width:
        rep.violates("C20.endian", name, "probe constant", where=where, detail="bytes of the probe %#x are not pairwise distinct" % probe_val)
    # (1) where the inspected byte comes from: element 0 of an array that received a whole-object copy of the probe
    src_fn = subject_is_call[1] if subject_is_call else fn
    pname = probe[0] if probe else ir.params(src_fn)[0].get("name")
    mc = list(calls_named(src_fn, "memcpy"))
    arr = None
    ok_copy = False
    if len(mc) == 1:
        t = mc[0][1]
        dst, srcp = norm.deep_uncast(t[2]), norm.deep_uncast(t[3])
        if any(x == ("ref", pname) for x in ir.subterms(srcp)):
            for x in ir.subterms(dst):
                if x[0] == "ref":
                    arr = x[1]
            off_ok = dst in (("ref", arr), ("un", "&", ("index", ("ref", arr), ("lit", "0"))))
            ok_copy = arr is not None and off_ok
    if not mc:
        rep.inconclusive("C20.endian", name, "bytes copied from the probe", where=where, detail="no memcpy of the probe found (a hand-written byte copy is not followed)")
        return
    (rep.holds if ok_copy else rep.violates)("C20.endian", name, "bytes copied from the probe", where=where,
                                             detail="memcpy(&%s[0], &%s, sizeof)" % (arr, pname) if ok_copy else "the inspected bytes are not a copy of the probe constant")
    if not ok_copy:
        return
    BYTE0 = ("index", ("ref", arr), ("lit", "0"))
    if subject_is_call:
        ks = ir.kids(ir.body(src_fn))
        rets = [x for x in ir.walk_expr(ir.body(src_fn)) if x.get("kind") == "ReturnStmt" and ir.ekids(x)]
        rv = norm.deep_uncast(fs.subst_locals(ir.sx(ir.ekids(rets[0])[0]), fs.local_sx(src_fn))) if len(rets) == 1 else None
        if rv != BYTE0:
            rep.violates("C20.endian", name, "inspected byte", where=d.where(src_fn), detail="the helper returns `%s`, not byte 0 of the copied constant" % (ir.show(rv) if rv else "?"))
            return
    loc = fs.local_sx(fn)

    def is_subject(t):
        t = norm.deep_uncast(fs.subst_locals(t, loc))
        if subject_is_call:
            return t[0] == "call" and str(t[1][1] if t[1][0] == "ref" else "").split("::")[-1] == subject_is_call[1].get("name")
        return t == BYTE0

    def other_byte(t):
        t = norm.deep_uncast(fs.subst_locals(t, loc))
        return t[0] == "index" and t[1] == ("ref", arr) and t[2] != ("lit", "0")
    # (2) the decision table
    NAMES = {"big_endian", "little_endian", "mixed"}
    table = {}
    problem = None
    inspected_other = False
    for v, label in ((msb, "most significant byte first"), (lsb, "least significant byte first"), (0x7F, "neither")):
        got = set()
        for path in flow.function_paths(fn, with_ctor_inits=False):
            feas = True
            last_assign = {}
            case_labels = None
            for st in path:
                if st[0] == "cond":
                    c = norm.norm_cmp(ir.sx(st[1]), is_subject)
                    if c is None:
                        c2 = norm.norm_cmp(ir.sx(st[1]), other_byte)
                        if c2 is not None:
                            inspected_other = True
                        fv = fold(st[1])          # a compile-time test (std::endian::native == ...): only its actual outcome is feasible
                        if fv is not None and bool(fv) != st[2]:
                            feas = False
                            break
                        continue
                    k_ = norm.int_of(c[2])
                    if k_ is None:
                        iv = None
                        continue
                    truth = {"==": v == k_, "!=": v != k_, "<": v < k_, "<=": v <= k_, ">": v > k_, ">=": v >= k_}[c[0]]
                    if truth != st[2]:
                        feas = False
                        break
                elif st[0] == "case":
                    sw_node = None
                    if st[1] is not None:
                        p_ = d.parent_of(st[1])
                        while p_ is not None and p_.get("kind") != "SwitchStmt":
                            p_ = d.parent_of(p_)
                        sw_node = p_
                    # the switch must inspect the subject
                    labels = set()
                    if sw_node is not None:
                        if not is_subject(ir.sx(ir.ekids(sw_node)[0])):
                            if other_byte(ir.sx(ir.ekids(sw_node)[0])):
                                inspected_other = True
                            continue
                        for x in ir.walk_expr(sw_node):
                            if x.get("kind") == "CaseStmt":
                                iv = trange.interval(ir.ekids(x)[0])
                                if iv and iv[0] == iv[1]:
                                    labels.add(iv[0])
                    if st[1] is None:
                        feas = False if sw_node is None else feas
                    elif st[1].get("kind") == "DefaultStmt":
                        feas = v not in labels
                    else:
                        iv = trange.interval(ir.ekids(st[1])[0])
                        feas = iv is not None and iv[0] == iv[1] == v
                    if not feas:
                        break
                elif st[0] == "ev" and st[1].get("kind") == "BinaryOperator" and st[1].get("opcode") == "=":
                    l_ = ir.strip(ir.ekids(st[1])[0])
                    if l_.get("kind") == "DeclRefExpr":
                        last_assign[(l_.get("referencedDecl") or {}).get("name")] = ir.ekids(st[1])[1]
                elif st[0] == "decl" and ir.ekids(st[1]):
                    last_assign[st[1].get("name")] = ir.ekids(st[1])[-1]
            if not feas:
                continue
            end = path[-1]
            if end[0] != "return" or not ir.ekids(end[1]):
                problem = "a path does not return a value"
                continue

            def enum_of(n_, depth=0):
                n_ = ir.strip(n_)
                while n_.get("kind") in ("ImplicitCastExpr", "ParenExpr") and ir.ekids(n_):
                    n_ = ir.strip(ir.ekids(n_)[0])
                if n_.get("kind") == "DeclRefExpr":
                    rd = n_.get("referencedDecl") or {}
                    if rd.get("kind") == "EnumConstantDecl":
                        return rd.get("name")
                    if rd.get("name") in last_assign and depth < 4:
                        return enum_of(last_assign[rd.get("name")], depth + 1)
                if n_.get("kind") == "ConditionalOperator":
                    kk = ir.ekids(n_)
                    c = norm.norm_cmp(ir.sx(kk[0]), is_subject)
                    k_ = norm.int_of(c[2]) if c is not None else None
                    if k_ is not None:
                        truth = {"==": v == k_, "!=": v != k_, "<": v < k_, "<=": v <= k_, ">": v > k_, ">=": v >= k_}[c[0]]
                        return enum_of(kk[1] if truth else kk[2], depth + 1)
                fv = fold(n_)
                if fv is not None:
                    return {0: "big_endian", 1: "little_endian", 2: "mixed"}.get(fv, "value %s" % fv)
                return None
            got.add(enum_of(ir.ekids(end[1])[0]))
        table[label] = got
    want = {"most significant byte first": {"big_endian"}, "least significant byte first": {"little_endian"}, "neither": {"mixed"}}
    if inspected_other:
        rep.violates("C20.endian", name, "inspected byte", where=where, detail="the decision inspects a byte other than element 0 of the copied constant")
    else:
        rep.holds("C20.endian", name, "inspected byte", where=where, detail="%s[0]" % arr)
    if any(None in g or not g for g in table.values()):
        rep.inconclusive("C20.endian", name, "case table", where=where, detail="the result is not decidable for every value of the inspected byte: %s" % {k: sorted(map(str, g)) for k, g in table.items()})
    elif table == want:
        rep.holds("C20.endian", name, "case table", where=where, detail="probe %#x: byte %#x -> big, %#x -> little, other -> mixed" % (probe_val, msb, lsb))
        rep.holds("C20.endian", name, "single decision", where=where, detail="every result depends on the probe byte")
    else:
        bad_lab = [k for k in want if table[k] != want[k]][0]
        rep.violates("C20.endian", name, "case table", where=where,
                     detail="probe %#x: when the first byte in memory is the %s the function yields %s, expected %s" % (probe_val, bad_lab.replace(" first", ""), sorted(table[bad_lab]), sorted(want[bad_lab])))


def run(tier):
    rep = Report("C20", tier, "other",
                 "API-misuse rule for readlink (failure test, counted use of the unterminated buffer, truncation test), the chained "
                 "separator-cut shape of prefix_path, and the endianness probe table, on the resolved AST of the Linux configuration. "
                 "What the OS returns for a given install path is not decided.",
                 trusted_base=["clang 14 resolved AST", "POSIX readlink contract: no terminator, silent truncation, -1 on failure"],
                 assumptions=["Linux configuration only (the other platform branches are preprocessed away in this sandbox)"])
    d = cj.dump(DRIVER, "xtl::")
    rep.cmd(d.cmd)
    fns = {f.get("name"): f for f in ir.functions(d) if f.get("name") in ("executable_path", "prefix_path", "endianness")}
    missing = [n for n in ("executable_path", "prefix_path", "endianness") if n not in fns]
    if missing:
        raise cj.AnalysisBroken("anchor functions not found: %s" % missing)
    rule_readlink(rep, d, fns["executable_path"])
    rule_prefix(rep, d, fns["prefix_path"])
    rule_endian(rep, d, fns["endianness"])
    # the same function when standard headers were included first (feature macros such as glibc's __BIG_ENDIAN are then visible)
    d2 = cj.dump('#include <string>\n#include <cstdlib>\n#include <vector>\n#include "xtl/xplatform.hpp"\n', "xtl::")
    f2 = [f for f in ir.functions(d2) if f.get("name") == "endianness"]
    if not f2:
        raise cj.AnalysisBroken("endianness() not found when standard headers are included first")
    rule_endian(rep, d2, f2[0])
    # and under the other language standards (feature-test macros such as __cpp_lib_endian select other code)
    for std in ("gnu++14", "gnu++20"):
        d3 = cj.dump('#include <version>\n#include "xtl/xplatform.hpp"\n' if std == "gnu++20" else '#include "xtl/xplatform.hpp"\n', "xtl::", std=std)
        f3 = [f for f in ir.functions(d3) if f.get("name") == "endianness"]
        if not f3:
            raise cj.AnalysisBroken("endianness() not found under -std=%s" % std)
        rule_endian(rep, d3, f3[0])
    rep.unit("3 functions: executable_path, prefix_path, endianness")
    return rep
