"""C20 — executable_path / prefix_path / endianness: API-misuse rule for readlink, separator-cut shape, endian table.
The actual path on any install location needs the OS and is not decided."""
from .. import clangjson as cj
from .. import ir
from .. import trange
from ..report import Report

DRIVER = '#include "xtl/xsystem.hpp"\n#include "xtl/xplatform.hpp"\n'


def calls_named(root, name):
    for n in ir.walk_expr(root):
        if n.get("kind") in ("CallExpr", "CXXMemberCallExpr"):
            t = ir.sx(n)
            c = t[1]
            cn = c[1] if c[0] == "ref" else (c[2] if c[0] == "mem" else None)
            if cn == name:
                yield n, t


def rule_readlink(rep, d, fn):
    rep.rule("C20.readlink", "readlink() does not NUL-terminate and truncates silently: its result must be tested for failure, the "
                             "path must be built from the returned length (or the buffer be zeroed and one byte larger than the length "
                             "passed), and the returned length must be compared with the capacity so that a longer path is retried or "
                             "rejected rather than cut")
    sites = list(calls_named(fn, "readlink"))
    if not sites:
        rep.inconclusive("C20.readlink", "executable_path", "readlink call", where=d.where(fn), detail="no readlink call found on this platform")
        return
    for i, (call, t) in enumerate(sites):
        _readlink_site(rep, d, fn, call, t, "executable_path" if len(sites) == 1 else "executable_path [readlink call %d of %d]" % (i + 1, len(sites)))


def _readlink_site(rep, d, fn, call, t, name):
    where = d.where(call)
    buf, cap = t[3], t[4]
    # the result variable (or direct comparison)
    par = d.parent_of(call)
    while par is not None and par.get("kind") in ("ImplicitCastExpr", "ParenExpr", "CXXStaticCastExpr"):
        par = d.parent_of(par)
    resvar = None
    if par is not None and par.get("kind") == "VarDecl":
        resvar = par.get("name")
    text_fn = d.text(fn)
    # (a) failure test
    fail_tests = []
    for n in ir.walk_expr(fn):
        if n.get("kind") == "BinaryOperator" and n.get("opcode") in ("==", "!=", "<", ">=", "<=", ">"):
            s = ir.sx(n)
            sides = [s[2], s[3]]
            is_res = lambda x: (resvar is not None and x == ("ref", resvar)) or (x[0] == "call" and x[1] == ("ref", "readlink"))
            strip = lambda x: strip(x[3]) if x[0] == "cast" else x
            sides = [strip(x) for x in sides]
            if any(is_res(x) for x in sides):
                other = [x for x in sides if not is_res(x)]
                fail_tests.append((n, s[1], other[0] if other else None))
    neg1 = lambda x: x is not None and ((x[0] == "un" and x[1] == "-" and x[2] == ("lit", "1")) or x == ("lit", "-1"))
    zero = lambda x: x == ("lit", "0")
    has_fail = any((op in ("==", "!=") and neg1(o)) or (op in ("<", ">=") and zero(o)) for _, op, o in fail_tests)
    (rep.holds if has_fail else rep.violates)("C20.readlink", name, "failure test", where=where,
                                              detail="result compared with -1 / < 0" if has_fail else "the result of readlink is never tested for failure (-1)")
    # (b) how is the path built from the buffer?
    bufname = None
    for s in ir.subterms(buf):
        if s[0] == "ref":
            bufname = s[1]
            break
    counted_use = False
    cstring_use = None
    for n in ir.walk_expr(fn):
        k = n.get("kind")
        if k in ("CXXMemberCallExpr", "CXXOperatorCallExpr", "CXXConstructExpr"):
            s = ir.sx(n)
            refs = [x for x in ir.subterms(s) if x == ("ref", bufname)]
            if not refs or n is call or any(c is call for c in ir.walk_expr(n)):
                continue
            uses_len = resvar is not None and any(x == ("ref", resvar) for x in ir.subterms(s))
            if s[0] == "call" and s[1][0] == "mem" and s[1][2] in ("assign", "append") and uses_len:
                counted_use = True
            elif s[0] == "construct" and uses_len:
                counted_use = True
            elif (s[0] == "bin" and s[1] == "=" and not uses_len and any(x == ("ref", bufname) for x in ir.subterms(s[3]))) or \
                    (s[0] == "call" and s[1][0] == "mem" and s[1][2] in ("assign", "append") and not uses_len and len(s) == 3):
                cstring_use = n
    if counted_use and cstring_use is None:
        rep.holds("C20.readlink", name, "path built from returned length", where=where, detail="buffer `%s` used with the returned length" % bufname)
    elif cstring_use is not None:
        # allowed only if capacity passed < real capacity and buffer zeroed: passed length must be sizeof(buf) - 1
        capshow = ir.show(cap)
        reserve = cap[0] == "bin" and cap[1] == "-" and cap[3] == ("lit", "1")
        zeroed = "memset" in text_fn or "= {0}" in text_fn or "{}" in text_fn
        if reserve and zeroed:
            rep.holds("C20.readlink", name, "path built from returned length", where=d.where(cstring_use),
                      detail="C-string use with a reserved terminator byte (%s)" % capshow)
        else:
            rep.violates("C20.readlink", name, "path built from returned length", where=d.where(cstring_use),
                         detail="the buffer is used as a C string (`%s`) although readlink was given the whole capacity `%s` and does not "
                                "write a terminator: for a path of exactly that length the copy runs off the buffer" % (
                                    d.text(cstring_use)[:50], capshow))
    else:
        rep.inconclusive("C20.readlink", name, "path built from returned length", where=where, detail="no use of the buffer recognised")
    # (c) truncation test: result compared against the capacity expression
    cap_terms = {cap}
    strip = lambda x: strip(x[3]) if x[0] == "cast" else x
    cap_s = strip(cap)
    trunc = any(o is not None and (strip(o) == cap_s or ir.show(strip(o)) == ir.show(cap_s)) for _, op, o in fail_tests)
    if trunc:
        # the branch that builds the path must establish  len < capacity  (len == capacity may already be a truncated result)
        from ..linear import Lin, lin, nnf, dnf, atom_facts, entails
        def symmap(x):
            x = strip(x)
            if resvar is not None and x == ("ref", resvar):
                return "len"
            if x == cap_s or ir.show(x) == ir.show(cap_s):
                return "cap"
            return None
        verdict = None
        for n in ir.walk_expr(fn):
            if n.get("kind") != "IfStmt":
                continue
            ks = ir.ekids(n)
            uses = [c for c in ir.walk_expr(ks[1]) if c.get("kind") in ("CXXMemberCallExpr", "CXXConstructExpr") and resvar is not None
                    and any(x == ("ref", resvar) for x in ir.subterms(ir.sx(c))) and any(x == ("ref", bufname) for x in ir.subterms(ir.sx(c)))]
            if not uses:
                continue
            cases = dnf(nnf(ir.sx(ks[0])))
            ok_all = True
            for conj in cases:
                facts = []
                for leaf in conj:
                    if leaf[0] == "atom":
                        l, r = lin(leaf[2], symmap), lin(leaf[3], symmap)
                        if l is not None and r is not None:
                            facts += atom_facts(leaf[1], l, r)
                if not entails(facts, Lin({"cap": 1, "len": -1, "": -1}), ()):
                    ok_all = False
            verdict = (ok_all, n)
        if verdict is None:
            rep.inconclusive("C20.readlink", name, "truncation test", where=where, detail="the branch that builds the path was not recognised")
        elif verdict[0]:
            rep.holds("C20.readlink", name, "truncation test", where=d.where(verdict[1]), detail="path built only when returned length < capacity `%s`" % ir.show(cap_s))
        else:
            rep.violates("C20.readlink", name, "truncation test", where=d.where(verdict[1]),
                         detail="the path is built under `%s`, which does not imply length < capacity: a result that fills the whole buffer may "
                                "already be truncated" % d.text(ir.ekids(verdict[1])[0])[:80])
    else:
        # a capacity of at least PATH_MAX + 1 cannot truncate
        big = False
        iv = None
        for n in ir.walk_expr(call):
            pass
        rep.violates("C20.readlink", name, "truncation test", where=where,
                     detail="the returned length is never compared with the capacity `%s`: an install path that does not fit is silently "
                            "truncated to the buffer size" % ir.show(cap_s))


def rule_prefix(rep, d, fn):
    rep.rule("C20.prefix", "prefix_path() = executable_path() cut at the last separator twice (two find_last_of(separator) cuts chained "
                           "on the previous result, each substr starting at 0) with the separator appended exactly once")
    name = "prefix_path"
    where = d.where(fn)
    decls = {}
    order = []
    for n in ir.walk_expr(ir.body(fn)):
        if n.get("kind") == "VarDecl" and ir.ekids(n):
            decls[n.get("name")] = ir.sx(ir.ekids(n)[-1])
            order.append(n.get("name"))
    rets = [s for s in ir.walk_expr(ir.body(fn)) if s.get("kind") == "ReturnStmt"]
    if len(rets) != 1:
        rep.inconclusive("C20.prefix", name, "shape", where=where, detail="expected one return")
        return
    rt = ir.sx(ir.ekids(rets[0])[0])

    def resolve(t, depth=0):
        if depth > 40:
            return t
        if t[0] == "ref" and t[1] in decls:
            return resolve(decls[t[1]], depth + 1)
        if t[0] == "cast":
            return resolve(t[3], depth)
        return (t[0],) + tuple(resolve(x, depth + 1) if isinstance(x, tuple) else x for x in t[1:])
    full = resolve(rt)
    sep = decls.get("separator")
    sep_val = None
    for n in ir.walk_expr(ir.body(fn)):
        if n.get("kind") == "VarDecl" and n.get("name") == "separator":
            iv = trange.interval(ir.ekids(n)[-1])
            sep_val = iv[0] if iv and iv[0] == iv[1] else None
    if sep_val != ord("/"):
        rep.violates("C20.prefix", name, "separator", where=where, detail="separator on this platform must be '/', found code %s" % sep_val)
    else:
        rep.holds("C20.prefix", name, "separator", where=where)
    sepT = resolve(("ref", "separator"))

    def cut(inner):
        return ("call", ("mem", inner, "substr"), ("lit", "0"), ("call", ("mem", inner, "find_last_of"), sepT))
    exe = ("call", ("ref", "executable_path"))
    want = ("bin", "+", cut(cut(exe)), sepT)
    # strip default-argument markers
    def clean(t):
        if not isinstance(t, tuple):
            return t
        return tuple(clean(x) for x in t if x != ("defaultarg",))
    got = clean(full)
    if got == want:
        rep.holds("C20.prefix", name, "two chained cuts", where=where, detail=ir.show(got)[:160])
    else:
        rep.violates("C20.prefix", name, "two chained cuts", where=where,
                     detail="returns `%s`; expected `%s`" % (ir.show(got)[:220], ir.show(want)[:220]))


def rule_endian(rep, d, fn):
    rep.rule("C20.endian", "endianness(): the byte at index 0 of the probe constant decides: equal to the constant's most significant "
                           "byte -> big_endian, least significant byte -> little_endian, anything else -> mixed")
    name = "endianness"
    where = d.where(fn)
    probe = None
    for n in ir.walk_expr(ir.body(fn)):
        if n.get("kind") == "VarDecl" and ir.ekids(n):
            iv = trange.interval(ir.ekids(n)[-1])
            if iv and iv[0] == iv[1] and iv[0] > 255:
                probe = (n.get("name"), iv[0], ir.qtype(n))
    sw = [n for n in ir.walk_expr(ir.body(fn)) if n.get("kind") == "SwitchStmt"]
    if len(sw) == 1:
        inside = set(id(x) for x in ir.walk_expr(sw[0]))
        outside = [r for r in ir.walk_expr(ir.body(fn)) if r.get("kind") == "ReturnStmt" and id(r) not in inside]
        if outside:
            rep.violates("C20.endian", name, "single decision", where=d.where(outside[0]),
                         detail="`%s` returns without inspecting the probe byte (in this configuration the answer does not come from the platform's byte order)"
                                % d.text(outside[0])[:60])
        else:
            rep.holds("C20.endian", name, "single decision", where=where, detail="every return is a case of the probe switch")
    if len(sw) == 0:
        # no run-time probe in this configuration: a compile-time answer is acceptable only if it folds to this target's byte order
        # (x86-64: little endian; std::endian::native == std::endian::little)
        rets = [r for r in ir.walk_expr(ir.body(fn)) if r.get("kind") == "ReturnStmt" and ir.ekids(r)]
        XTL = {"big_endian": 0, "little_endian": 1, "mixed": 2}
        STD = {"little": 1234, "big": 4321, "native": 1234}

        def fold(n):
            n0 = n
            while n.get("kind") in ir.WRAPPERS or n.get("kind") in ("ImplicitCastExpr", "CXXStaticCastExpr", "CStyleCastExpr", "CXXFunctionalCastExpr"):
                kk = ir.ekids(n)
                if not kk:
                    return None
                n = kk[-1]
            k = n.get("kind")
            ks = ir.ekids(n)
            if k == "DeclRefExpr":
                rd = n.get("referencedDecl") or {}
                if rd.get("kind") == "EnumConstantDecl":
                    nm = rd.get("name")
                    q = ir.qtype(n)
                    if "std::endian" in q:
                        return STD.get(nm)
                    return XTL.get(nm)
                return None
            if k in ("IntegerLiteral",):
                return int(n.get("value"))
            if k == "CXXBoolLiteralExpr":
                return 1 if n.get("value") else 0
            if k == "BinaryOperator" and n.get("opcode") in ("==", "!="):
                a, b = fold(ks[0]), fold(ks[1])
                if a is None or b is None:
                    return None
                return int((a == b) == (n.get("opcode") == "=="))
            if k == "ConditionalOperator":
                c = fold(ks[0])
                return None if c is None else fold(ks[1] if c else ks[2])
            if k == "UnaryOperator" and n.get("opcode") == "!":
                a = fold(ks[0])
                return None if a is None else int(not a)
            return None
        if len(rets) == 1:
            v = fold(ir.ekids(rets[0])[0])
            if v == XTL["little_endian"]:
                rep.holds("C20.endian", name, "single decision", where=d.where(rets[0]), detail="compile-time answer `%s` folds to little_endian on this little-endian target" % d.text(rets[0])[:60])
                return
            if v is not None:
                rep.violates("C20.endian", name, "single decision", where=d.where(rets[0]),
                             detail="in this configuration the function is `%s`, which folds to %s on this little-endian target: the reported byte order is not the machine's" % (
                                 d.text(rets[0])[:70], {0: "big_endian", 1: "little_endian", 2: "mixed"}.get(v, v)))
                return
        consts = [r for r in ir.walk_expr(ir.body(fn)) if r.get("kind") == "ReturnStmt" and ir.ekids(r)
                  and ir.strip(ir.ekids(r)[0]).get("kind") == "DeclRefExpr" and (ir.strip(ir.ekids(r)[0]).get("referencedDecl") or {}).get("kind") == "EnumConstantDecl"]
        if consts:
            rep.violates("C20.endian", name, "single decision", where=d.where(consts[0]),
                         detail="in this configuration (include order / predefined macros) the function is just `%s`: the answer is taken from a preprocessor test, "
                                "not from the byte order of the machine" % d.text(consts[0])[:60])
            return
    if probe is None or len(sw) != 1:
        rep.inconclusive("C20.endian", name, "shape", where=where, detail="probe constant / single switch not found")
        return
    width = 4 if "int" in probe[2] and "64" not in probe[2] else 8
    msb = (probe[1] >> (8 * (width - 1))) & 0xFF
    lsb = probe[1] & 0xFF
    bytes_ = [(probe[1] >> (8 * i)) & 0xFF for i in range(width)]
    if len(set(bytes_)) != width:
        rep.violates("C20.endian", name, "probe constant", where=where, detail="bytes of the probe %#x are not pairwise distinct" % probe[1])
    cond = ir.sx(ir.ekids(sw[0])[0])
    c = cond
    while c[0] == "cast":
        c = c[3]
    idx0 = c[0] == "index" and c[2] == ("lit", "0")
    (rep.holds if idx0 else rep.violates)("C20.endian", name, "inspected byte", where=d.where(sw[0]),
                                          detail=ir.show(c) if idx0 else "the switch inspects `%s`, not byte 0 of the copied constant" % ir.show(c))
    # memcpy of the whole constant into the inspected array
    mc = list(calls_named(fn, "memcpy"))
    ok_copy = len(mc) == 1 and any(x == ("ref", probe[0]) for x in ir.subterms(mc[0][1][3]))
    (rep.holds if ok_copy else rep.violates)("C20.endian", name, "bytes copied from the probe", where=where,
                                             detail="memcpy(&btmp[0], &%s, sizeof)" % probe[0] if ok_copy else "the inspected bytes are not a copy of the probe constant")
    # case table
    table = {}
    cur = None
    def scan(n, label):
        k = n.get("kind")
        if k == "CaseStmt":
            ks = ir.ekids(n)
            iv = trange.interval(ks[0])
            label = iv[0] if iv and iv[0] == iv[1] else "?"
            for c_ in ks[1:]:
                scan(c_, label)
            return
        if k == "DefaultStmt":
            for c_ in ir.ekids(n):
                scan(c_, "default")
            return
        if k == "ReturnStmt" and label is not None:
            t = ir.sx(ir.ekids(n)[0])
            table.setdefault(label, ir.show(t).split("::")[-1])
            return
        for c_ in ir.kids(n):
            scan(c_, label)
    scan(ir.ekids(sw[0])[-1], None)
    want = {msb: "big_endian", lsb: "little_endian", "default": "mixed"}
    if table == want:
        rep.holds("C20.endian", name, "case table", where=d.where(sw[0]), detail=str(table))
    else:
        rep.violates("C20.endian", name, "case table", where=d.where(sw[0]),
                     detail="probe %#x: expected %s, found %s" % (probe[1], want, table))


def run(tier):
    rep = Report("C20", tier, "other",
                 "API-misuse rule for readlink (failure test, counted use of the unterminated buffer, truncation test), the chained "
                 "separator-cut shape of prefix_path, and the endianness probe table, on the resolved AST of the Linux configuration. "
                 "What the OS returns for a given install path is not decided.",
                 trusted_base=["clang 14 resolved AST", "POSIX readlink contract: no terminator, silent truncation, -1 on failure"],
                 assumptions=["Linux configuration only (the other platform branches are preprocessed away in this sandbox)"])
    d = cj.dump(DRIVER, "xtl::")
    rep.cmd(d.cmd)
    fns = {f.get("name"): f for f in ir.functions(d) if f.get("name") in ("executable_path", "prefix_path", "endianness")}
    missing = [n for n in ("executable_path", "prefix_path", "endianness") if n not in fns]
    if missing:
        raise cj.AnalysisBroken("anchor functions not found: %s" % missing)
    rule_readlink(rep, d, fns["executable_path"])
    rule_prefix(rep, d, fns["prefix_path"])
    rule_endian(rep, d, fns["endianness"])
    # the same function when standard headers were included first (feature macros such as glibc's __BIG_ENDIAN are then visible)
    d2 = cj.dump('#include <string>\n#include <cstdlib>\n#include <vector>\n#include "xtl/xplatform.hpp"\n', "xtl::")
    f2 = [f for f in ir.functions(d2) if f.get("name") == "endianness"]
    if not f2:
        raise cj.AnalysisBroken("endianness() not found when standard headers are included first")
    rule_endian(rep, d2, f2[0])
    # and under the other language standards (feature-test macros such as __cpp_lib_endian select other code)
    for std in ("gnu++14", "gnu++20"):
        d3 = cj.dump('#include <version>\n#include "xtl/xplatform.hpp"\n' if std == "gnu++20" else '#include "xtl/xplatform.hpp"\n', "xtl::", std=std)
        f3 = [f for f in ir.functions(d3) if f.get("name") == "endianness"]
        if not f3:
            raise cj.AnalysisBroken("endianness() not found under -std=%s" % std)
        rule_endian(rep, d3, f3[0])
    rep.unit("3 functions: executable_path, prefix_path, endianness")
    return rep
