"""C18 — type-list algorithms and promotion traits, decided by generated static_assert witnesses against
independent oracles computed here on Python lists / the compiler's own decltype.

C18.list     mpl:: list algorithms vs the sequence operation on Python tuples, all lists up to a bound
C18.promote  promote_type_t vs decltype(a + b [+ c]) / std::complex<...> of the component promotion
C18.logic    conjunction / disjunction / negation vs the std:: definitions incl. the deciding argument
C18.cv       apply_cv / constify / common_optional vs hand-derived tables
"""
import itertools
from ..report import Report
from ..witness import WitnessTU

PRELUDE = r'''
#include <complex>
#include <type_traits>
#include <cstdint>
#include <cstddef>
#include "xtl/xmeta_utils.hpp"
#include "xtl/xtype_traits.hpp"
#include "xtl/xoptional.hpp"
#include "xtl/xoptional_meta.hpp"
namespace w {
struct A {}; struct B {}; struct C {}; struct D {}; struct X {}; struct Y {};
template <class... T> struct other_list {};
template <class T> struct wrap {};
template <class T> struct is_A : std::is_same<T, A> {};
template <class T> struct is_B : std::is_same<T, B> {};
template <class T> struct is_D : std::is_same<T, D> {};
template <class T> struct ident { using type = T; };
struct no_type_member {};
struct plain_true { static constexpr bool value = true; };      // conditions that are not std::integral_constant<bool, ...>
struct plain_false { static constexpr bool value = false; };
template <class T> struct is_cplx : std::false_type {}; template <class T> struct is_cplx<std::complex<T>> : std::true_type {};
template <bool V, int I> struct bt : std::integral_constant<bool, V> {};
template <int I> struct boom { static_assert(I < 0, "boom<I> must never be instantiated"); static constexpr bool value = true; };
struct TF { template <class I> int operator()(I) const { return 1; } };
struct FF { template <class I> double operator()(I) const { return 2.; } };
using namespace xtl;
using namespace xtl::mpl;
}
namespace w {
'''


def tl(l):
    return "vector<%s>" % ", ".join(l)


def lists_upto(n, alphabet=("A", "B", "C")):
    for k in range(n + 1):
        for t in itertools.product(alphabet, repeat=k):
            yield t


def gen_lists(w, tier):
    R = "C18.list"
    maxlen = 4 if tier == "quick" else 5
    ls = list(lists_upto(maxlen))
    # a few longer ones (back_impl has hand-unrolled cases up to 4 and a recursive one beyond)
    ls += [("A", "B", "C", "A", "B", "C"), ("C", "C", "B", "A", "A", "B", "C"), ("B",) * 6 + ("A",)]
    if tier == "quick":
        ls = [l for l in ls if len(l) <= 3] + [l for l in ls if len(l) > 3][::3]
    for l in ls:
        L = tl(l)
        sc = "list (%s)" % ",".join(l)
        w.must_hold("size<%s>::value == %d" % (L, len(l)), R, "size", "size", sc)
        w.must_hold("empty<%s>::value == %s" % (L, "true" if not l else "false"), R, "empty", "empty", sc)
        if l:
            w.same("front_t<%s>" % L, l[0], R, "front", "front", sc)
            w.same("back_t<%s>" % L, l[-1], R, "back", "back", sc)
            w.same("pop_front_t<%s>" % L, tl(l[1:]), R, "pop_front", "pop_front", sc)
        w.same("push_front_t<%s, X>" % L, tl(("X",) + l), R, "push_front", "push_front one", sc)
        w.same("push_front_t<%s, X, Y>" % L, tl(("X", "Y") + l), R, "push_front", "push_front two", sc)
        w.same("push_back_t<%s, X>" % L, tl(l + ("X",)), R, "push_back", "push_back one", sc)
        w.same("push_back_t<%s, X, Y>" % L, tl(l + ("X", "Y")), R, "push_back", "push_back two", sc)
        for v in ("A", "B", "C", "D"):
            w.must_hold("count<%s, %s>::value == %d" % (L, v, l.count(v)), R, "count", "count " + v, sc)
            w.must_hold("contains<%s, %s>::value == %s" % (L, v, "true" if v in l else "false"), R, "contains", "contains " + v, sc)
            idx = "%du" % l.index(v) if v in l else "SIZE_MAX"
            w.must_hold("index_of<%s, %s>::value == %s" % (L, v, idx), R, "index_of", "index_of " + v, sc)
        for p, v in (("is_A", "A"), ("is_B", "B"), ("is_D", "D")):
            w.must_hold("count_if<%s, %s>::value == %d" % (L, p, l.count(v)), R, "count_if", "count_if " + p, sc)
            fi = l.index(v) if v in l else len(l)
            w.must_hold("find_if<%s, %s>::value == %d" % (p, L, fi), R, "find_if", "find_if " + p, sc)
        w.same("transform_t<wrap, %s>" % L, tl(tuple("wrap<%s>" % x for x in l)), R, "transform", "transform", sc)
        w.same("cast_t<%s, other_list>" % L, "other_list<%s>" % ", ".join(l), R, "cast", "cast", sc)
        for n in range(len(l) + 1):
            w.same("typename split<%d, %s>::first_type" % (n, L), tl(l[:n]), R, "split", "split first N=%d" % n, sc)
            w.same("typename split<%d, %s>::second_type" % (n, L), tl(l[n:]), R, "split", "split second N=%d" % n, sc)
        u = []
        for x in l:
            if x not in u:
                u.append(x)
        w.same("unique_t<%s>" % L, tl(tuple(u)), R, "unique", "unique", sc)
    # merge_set over pairs
    ml = 3 if tier == "thorough" else 2
    small = list(lists_upto(ml)) + [("A", "B", "A", "C"), ("C", "B", "B", "A")]
    for l1 in small:
        for l2 in small:
            acc = list(l1)
            for x in l2:
                if x not in acc:
                    acc.append(x)
            w.same("merge_set_t<%s, %s>" % (tl(l1), tl(l2)), tl(tuple(acc)), R, "merge_set", "merge_set",
                   "(%s) with (%s)" % (",".join(l1), ",".join(l2)))
    # if_ / eval_if / switch_ / static_if
    for c in (True, False):
        cs = "true" if c else "false"
        w.same("if_t<bool_<%s>, X, Y>" % cs, "X" if c else "Y", R, "if_", "if_t", "cond=" + cs)
        w.same("if_c_t<%s, X, Y>" % cs, "X" if c else "Y", R, "if_", "if_c_t", "cond=" + cs)
        w.same("eval_if_t<bool_<%s>, ident<X>, ident<Y>>" % cs, "X" if c else "Y", R, "eval_if", "eval_if_t", "cond=" + cs)
        lazy = "eval_if_t<bool_<true>, ident<X>, no_type_member>" if c else "eval_if_t<bool_<false>, no_type_member, ident<Y>>"
        w.same(lazy, "X" if c else "Y", R, "eval_if", "eval_if_t does not evaluate the other branch", "cond=" + cs)
        w.same("decltype(static_if<%s>(TF{}, FF{}))" % cs, "int" if c else "double", R, "static_if", "static_if<cond>", "cond=" + cs)
        w.same("decltype(static_if(std::integral_constant<bool, %s>{}, TF{}, FF{}))" % cs, "int" if c else "double", R,
               "static_if", "static_if(tag)", "cond=" + cs)
    # the condition of if_ / eval_if is whatever has a ::value convertible to bool, not only the std bool constants
    for cnd, c in (("plain_true", True), ("plain_false", False), ("std::integral_constant<int, 1>", True), ("std::integral_constant<int, 0>", False),
                   ("std::is_same<A, A>", True), ("std::is_same<A, B>", False)):
        w.same("if_t<%s, X, Y>" % cnd, "X" if c else "Y", R, "if_", "if_t reads the condition's ::value", cnd)
        w.same("eval_if_t<%s, ident<X>, ident<Y>>" % cnd, "X" if c else "Y", R, "eval_if", "eval_if_t reads the condition's ::value", cnd)
    # count / contains / index_of compare element types exactly: cv-qualified elements are different types
    CV = "vector<int, const int, volatile int, const int, A, const A>"
    for v, nv in (("int", 1), ("const int", 2), ("volatile int", 1), ("const volatile int", 0), ("A", 1), ("const A", 1)):
        w.must_hold("count<%s, %s>::value == %d" % (CV, v, nv), R, "count", "cv-qualified elements are distinct types", v)
        w.must_hold("contains<%s, %s>::value == %s" % (CV, v, "true" if nv else "false"), R, "contains", "cv-qualified elements are distinct types", v)
    w.must_hold("index_of<%s, const int>::value == 1 && index_of<%s, const A>::value == 5" % (CV, CV), R, "index_of", "cv-qualified elements are distinct types", "const int, const A")
    # the `self` a static_if branch receives is the identity: what the branch passes through it comes back as the same object, in the same value category
    for arg, want in (("std::declval<int>()", "int&&"), ("std::declval<int&>()", "int&"), ("std::declval<const int&>()", "const int&"), ("std::declval<const X>()", "const X&&"),
                      ("std::declval<X&>()", "X&")):
        w.same("decltype(xtl::identity{}(%s))" % arg, want, R, "static_if", "identity (the branch's `self`) returns its argument itself", arg)
    tys = ["A", "B", "C", "D"]
    for n in (1, 2, 3) if tier == "quick" else (1, 2, 3, 4):
        for conds in itertools.product((True, False), repeat=n):
            args = []
            exp = "X"
            found = False
            for i, c in enumerate(conds):
                args += ["bool_<%s>" % ("true" if c else "false"), tys[i]]
                if c and not found:
                    exp = tys[i]
                    found = True
            args += ["default_t", "X"]
            w.same("switch_t<%s>" % ", ".join(args), exp, R, "switch_", "switch_t",
                   "conditions " + "".join("T" if c else "F" for c in conds))


ARITH = ["bool", "char", "signed char", "unsigned char", "wchar_t", "char16_t", "char32_t", "short", "unsigned short", "int", "unsigned int", "long",
         "unsigned long", "long long", "unsigned long long", "float", "double", "long double"]
FLOATS = ["float", "double", "long double"]


def dv(t):
    return "std::declval<%s>()" % t


def oracle_arith(pack):
    """C++ expression for the oracle type of an arithmetic pack (leading bool neutral)."""
    p = list(pack)
    while len(p) > 1 and p[0] == "bool":
        p = p[1:]
        if len(p) == 1:
            return p[0]            # promote_type<bool, T> is T itself (statement: a leading bool is neutral)
    if len(p) == 1:
        if p[0] == "bool":
            return "bool"
        return "decltype(%s + %s)" % (dv(p[0]), dv(p[0]))
    return "decltype(%s)" % " + ".join(dv(t) for t in p)


def comp(t):
    return t[len("std::complex<"):-1] if t.startswith("std::complex<") else t


def gen_promote(w, tier):
    R = "C18.promote"
    cplx = ["std::complex<%s>" % f for f in FLOATS]
    maxn = 2 if tier == "quick" else 3
    universe = ARITH + cplx
    # quick: all packs of 1..2, plus a thinned set of triples; thorough: all triples
    packs = []
    for n in range(1, maxn + 1):
        packs += list(itertools.product(universe, repeat=n))
    if tier == "quick":
        thin = ["bool", "char", "unsigned short", "int", "unsigned int", "long", "unsigned long long", "float", "double"] + cplx
        packs += list(itertools.product(thin, repeat=3))
    for pack in packs:
        sc = "<%s>" % ", ".join(pack)
        expr = "promote_type_t<%s>" % ", ".join(pack)
        if any(t.startswith("std::complex") for t in pack):
            comps = [comp(t) for t in pack]
            # component promotion: arithmetic oracle on the component types
            if len(comps) == 1:
                exp = "std::complex<%s>" % comps[0]
            else:
                exp = "std::complex<%s>" % oracle_arith(comps)
            w.same(expr, exp, R, "promote_type", "complex pack", sc)
            w.must_hold("!is_cplx<typename %s::value_type>::value" % expr, R, "promote_type", "never a nested complex", sc)
        else:
            w.same(expr, oracle_arith(pack), R, "promote_type", "arithmetic pack", sc)


def gen_logic(w, tier):
    R = "C18.logic"
    for n in range(0, 4 if tier == "quick" else 5):
        for vals in itertools.product((True, False), repeat=n):
            args = ", ".join("bt<%s, %d>" % ("true" if v else "false", i) for i, v in enumerate(vals))
            sc = "(" + "".join("T" if v else "F" for v in vals) + ")"
            for name, neutral in (("conjunction", True), ("disjunction", False)):
                val = all(vals) if name == "conjunction" else any(vals)
                w.must_hold("xtl::%s<%s>::value == %s" % (name, args, "true" if val else "false"), R, name, "value", sc)
                w.must_hold("xtl::%s<%s>::value == std::%s<%s>::value" % (name, args, name, args), R, name, "value equals std::" + name, sc)
                if n:
                    # the deciding argument: first argument whose value differs from the neutral one, else the last
                    dec = n - 1
                    for i, v in enumerate(vals):
                        if v != neutral:
                            dec = i
                            break
                    w.must_hold("std::is_base_of<bt<%s, %d>, xtl::%s<%s>>::value" % ("true" if vals[dec] else "false", dec, name, args),
                                R, name, "type is the deciding argument", sc)
                    w.must_hold("std::is_base_of<bt<%s, %d>, std::%s<%s>>::value" % ("true" if vals[dec] else "false", dec, name, args),
                                R, name, "oracle self-check (std::%s has the same deciding argument)" % name, sc)
    # short circuit: the arguments behind the deciding one are never instantiated ([meta.logical]: "does not require the instantiation of
    # Bj::value for j > i") - boom<I>::value cannot be instantiated at all
    for n in range(2, 5 if tier == "quick" else 6):
        for k in range(0, n - 1):
            for name, neutral in (("conjunction", True), ("disjunction", False)):
                args = ["bt<%s, %d>" % ("true" if neutral else "false", i) for i in range(k)] + ["bt<%s, %d>" % ("false" if neutral else "true", k)] + \
                       ["boom<%d>" % i for i in range(k + 1, n)]
                w.must_hold("xtl::%s<%s>::value == %s" % (name, ", ".join(args), "false" if neutral else "true"), R, name,
                            "arguments behind the deciding one are not instantiated", "%d arguments, decided by #%d" % (n, k))
    for v in (True, False):
        w.must_hold("xtl::negation<bt<%s, 0>>::value == %s" % ("true" if v else "false", "false" if v else "true"), R, "negation", "value", str(v))
        w.must_hold("xtl::negation<bt<%s, 0>>::value == std::negation<bt<%s, 0>>::value" % (("true" if v else "false",) * 2), R, "negation", "value equals std::negation", str(v))


def gen_cv(w, tier):
    R = "C18.cv"
    cvs = ["", "const", "volatile", "const volatile"]
    for U in ("double", "X", "int*"):
        for cv in cvs:
            for ref in ("", "&", "&&"):
                T = ("%s int%s" % (cv, ref)).strip()
                # only lvalue references are re-applied: for an rvalue-reference source the cv-qualifiers of the referred type are applied and
                # the result is a value type (primary template over remove_reference_t<T>) - confirmed on the pinned tree and frozen here
                oref = ref if ref == "&" else ""
                if U.endswith("*"):
                    exp = ("%s %s%s" % (U, cv, oref)).strip()
                else:
                    exp = ("%s %s%s" % (cv, U, oref)).strip()
                w.same("xtl::apply_cv_t<%s, %s>" % (T, U), exp, R, "apply_cv", "apply_cv_t", "T=%s U=%s" % (T, U))
    table = [("int", "const int"), ("const int", "const int"), ("int*", "const int*"), ("const int*", "const int*"),
             ("int&", "const int&"), ("const int&", "const int&"), ("X", "const X"), ("X&", "const X&"), ("X*", "const X*"),
             ("volatile int&", "const volatile int&"), ("int**", "int* const*")]
    for t, e in table:
        w.same("xtl::constify_t<%s>" % t, e, R, "constify", "constify_t", "T=" + t)
    co = [("int", "xoptional<int>"), ("xoptional<int>", "xoptional<int>"), ("xoptional<double, bool>", "xoptional<double, bool>"),
          ("int, double", "xoptional<double>"), ("double, int", "xoptional<double>"),
          ("xoptional<int>, double", "xoptional<double>"), ("int, xoptional<double>", "xoptional<double>"),
          ("xoptional<int>, xoptional<double>", "xoptional<double>"), ("xoptional<int, bool>, xoptional<int, bool>", "xoptional<int>"),
          ("xoptional<int&, bool&>, int", "xoptional<int>"), ("const xoptional<int>&, double", "xoptional<double>"),
          ("int, float, double", "xoptional<double>"), ("xoptional<int>, float, xoptional<double>", "xoptional<double>"),
          ("float, xoptional<int>, short", "xoptional<float>"), ("short, short", "xoptional<short>")]
    for a, e in co:
        w.same("xtl::common_optional_t<%s>" % a, "xtl::" + e, R, "common_optional", "common_optional_t", "<%s>" % a)


def run(tier):
    rep = Report("C18", tier, "proof",
                 "Every obligation is a static_assert (one per generated case) discharged by the C++ front end on the current "
                 "headers; right-hand sides come from independent oracles: Python list operations for the mpl algorithms, the "
                 "compiler's own decltype(a+b[+c]) / std::complex of the component promotion for promote_type, the std:: traits "
                 "for the logical traits, hand-derived tables for apply_cv/constify/common_optional. Exhaustive within the "
                 "stated bounds (list length, pack size, truth-vector length).",
                 trusted_base=["clang++ 14 (and g++ 12 in the thorough tier) template instantiation and static_assert evaluation",
                               "the oracle generators in sa/rules/c18.py"],
                 assumptions=["std::complex forms are taken over float/double/long double only (the only ones the standard defines)",
                              "apply_cv is tabulated for value, lvalue-reference and rvalue-reference sources (rvalue references yield a cv-qualified value type)"])
    rep.rule("C18.list", "each mpl list algorithm computes what the corresponding operation on the list of types computes")
    rep.rule("C18.promote", "promote_type_t of an arithmetic pack is the type of adding values of those types (leading bool neutral); "
                            "of a pack containing std::complex it is std::complex of the promotion of all component types, never nested")
    rep.rule("C18.logic", "conjunction/disjunction/negation equal the std:: traits in value and in the deciding base class")
    rep.rule("C18.cv", "apply_cv, constify and common_optional equal their hand-derived tables")
    compilers = ["clang++"] if tier == "quick" else ["clang++", "g++"]
    stds = ["gnu++17"]
    for gen, name in ((gen_lists, "lists"), (gen_promote, "promote"), (gen_logic, "logic"), (gen_cv, "cv")):
        for comp_ in compilers:
            for std in stds:
                if (comp_, std) != (compilers[0], stds[0]) and name in ("lists",) and tier == "quick":
                    continue
                w = WitnessTU(PRELUDE)
                gen(w, tier)
                w.raw("}")
                ok, bad = w.run(rep, std=std, compiler=comp_)
                rep.unit("%s witnesses with %s -std=%s: %d asserts, %d failing" % (name, comp_, std, ok + bad, bad))
    return rep
