"""C07 — closures alias lvalues and own rvalues for every value category.

C07.type    generated static_assert witnesses: trait mappings and the types returned by every user of the traits
C07.pin     must-compile witnesses: lvalue wrappers from a type that can be neither copied nor moved (no copy on that path),
            rvalue wrappers from a move-only temporary
C07.neg     must-not-compile witnesses (writing through a const closure, as_const on an rvalue, ...)
C07.defuse  def-use rules on the six tiny functions that decide aliasing inside xclosure_wrapper / xclosure_pointer
"""
from .. import clangjson as cj
from .. import ir
from ..report import Report
from ..witness import WitnessTU

PRELUDE = r'''
#include <type_traits>
#include <utility>
#include <vector>
#include <array>
#include <cstdint>
#include "xtl/xclosure.hpp"
#include "xtl/xoptional.hpp"
#include "xtl/xmasked_value.hpp"
#include "xtl/xcomplex.hpp"
#include "xtl/xproxy_wrapper.hpp"
#include "xtl/xsequence.hpp"
#include "xtl/xdynamic_bitset.hpp"
#include "xtl/xtype_traits.hpp"
namespace w {
struct Counting { int v; Counting(int x = 0) : v(x) {} Counting(const Counting& o) : v(o.v) {} Counting(Counting&& o) noexcept : v(o.v) {}
                  Counting& operator=(const Counting&) = default; Counting& operator=(Counting&&) = default;
                  bool operator==(const Counting& o) const { return v == o.v; } };
struct MoveOnly { int v = 0; MoveOnly() = default; MoveOnly(MoveOnly&&) = default; MoveOnly& operator=(MoveOnly&&) = default;
                  MoveOnly(const MoveOnly&) = delete; MoveOnly& operator=(const MoveOnly&) = delete; };
struct Pinned { int v = 0; Pinned() = default; Pinned(const Pinned&) = delete; Pinned(Pinned&&) = delete;
                Pinned& operator=(const Pinned&) = default; };
struct Proxy { int* p; Proxy& operator=(int x) { *p = x; return *this; } operator int() const { return *p; } };
template <class T> T& lv();            // an lvalue of type T
template <class T> const T& clv();     // a const lvalue
template <class T> T rv();             // a prvalue
template <class T> const T crv();      // a const prvalue
template <class R, class S> struct aliases_lvalue : std::integral_constant<bool,
    std::is_lvalue_reference<R>::value && std::is_same<std::decay_t<R>, std::decay_t<S>>::value &&
    (std::is_const<std::remove_reference_t<R>>::value == std::is_const<std::remove_reference_t<S>>::value)> {};
template <class R, class S> struct const_aliases_lvalue : std::integral_constant<bool,
    std::is_lvalue_reference<R>::value && std::is_same<std::decay_t<R>, std::decay_t<S>>::value && std::is_const<std::remove_reference_t<R>>::value> {};
template <class R, class S> struct owns_value : std::integral_constant<bool,
    !std::is_reference<R>::value && !std::is_pointer<R>::value && std::is_same<std::decay_t<R>, std::decay_t<S>>::value> {};
template <class R, class S> struct points_to_lvalue : std::is_same<R, std::add_pointer_t<std::remove_reference_t<S>>> {};
template <class R, class S> struct const_points_to_lvalue : std::is_same<R, const std::decay_t<S>*> {};
using namespace xtl;
'''

PAYLOADS = ["int", "Counting", "std::vector<int>"]


def gen_types(w):
    R = "C07.type"
    for T in PAYLOADS:
        lvalues = [T + "&", "const " + T + "&"]
        rvalues = [T, T + "&&", "const " + T + "&&", "const " + T]
        for S in lvalues:
            sc = "S = " + S
            w.must_hold("aliases_lvalue<closure_type_t<%s>, %s>::value" % (S, S), R, "closure_type_t", "lvalue -> (const) reference", sc)
            w.must_hold("const_aliases_lvalue<const_closure_type_t<%s>, %s>::value" % (S, S), R, "const_closure_type_t", "lvalue -> const reference", sc)
            w.must_hold("points_to_lvalue<ptr_closure_type_t<%s>, %s>::value" % (S, S), R, "ptr_closure_type_t", "lvalue -> pointer", sc)
            w.must_hold("const_points_to_lvalue<const_ptr_closure_type_t<%s>, %s>::value" % (S, S), R, "const_ptr_closure_type_t", "lvalue -> const pointer", sc)
        for S in rvalues:
            sc = "S = " + S
            for tr in ("closure_type_t", "const_closure_type_t", "ptr_closure_type_t", "const_ptr_closure_type_t"):
                w.must_hold("owns_value<%s<%s>, %s>::value" % (tr, S, S), R, tr, "rvalue -> decayed value", sc)
        # factories
        w.same("decltype(closure(lv<%s>()))" % T, "xclosure_wrapper<%s&>" % T, R, "closure", "return type", "lvalue " + T)
        w.same("decltype(closure(clv<%s>()))" % T, "xclosure_wrapper<const %s&>" % T, R, "closure", "return type", "const lvalue " + T)
        w.same("decltype(closure(rv<%s>()))" % T, "xclosure_wrapper<%s>" % T, R, "closure", "return type", "rvalue " + T)
        w.same("decltype(const_closure(lv<%s>()))" % T, "xclosure_wrapper<const %s&>" % T, R, "const_closure", "return type", "lvalue " + T)
        w.same("decltype(const_closure(rv<%s>()))" % T, "xclosure_wrapper<%s>" % T, R, "const_closure", "return type", "rvalue " + T)
        w.same("decltype(closure_pointer(lv<%s>()))" % T, "xclosure_pointer<%s&>" % T, R, "closure_pointer", "return type", "lvalue " + T)
        w.same("decltype(closure_pointer(clv<%s>()))" % T, "xclosure_pointer<const %s&>" % T, R, "closure_pointer", "return type", "const lvalue " + T)
        w.same("decltype(closure_pointer(rv<%s>()))" % T, "xclosure_pointer<%s>" % T, R, "closure_pointer", "return type", "rvalue " + T)
        w.same("decltype(const_closure_pointer(lv<%s>()))" % T, "xclosure_pointer<const %s&>" % T, R, "const_closure_pointer", "return type", "lvalue " + T)
        # wrapper accessors
        w.same("decltype(lv<xclosure_wrapper<%s&>>().get())" % T, T + "&", R, "xclosure_wrapper::get", "lvalue closure, & ", T)
        w.same("decltype(rv<xclosure_wrapper<%s&>>().get())" % T, T + "&", R, "xclosure_wrapper::get", "lvalue closure, &&", T)
        w.same("decltype(lv<xclosure_wrapper<const %s&>>().get())" % T, "const " + T + "&", R, "xclosure_wrapper::get", "const lvalue closure, &", T)
        w.same("decltype(lv<xclosure_wrapper<%s>>().get())" % T, T + "&", R, "xclosure_wrapper::get", "value closure, &", T)
        w.same("decltype(clv<xclosure_wrapper<%s>>().get())" % T, "const " + T + "&", R, "xclosure_wrapper::get", "value closure, const &", T)
        w.same("decltype(rv<xclosure_wrapper<%s>>().get())" % T, T, R, "xclosure_wrapper::get", "value closure, && (by value)", T)
        w.same("decltype(&lv<xclosure_wrapper<%s&>>())" % T, T + "*", R, "xclosure_wrapper::operator&", "lvalue closure", T)
        w.same("decltype(&lv<xclosure_wrapper<const %s&>>())" % T, "const " + T + "*", R, "xclosure_wrapper::operator&", "const lvalue closure", T)
        w.same("decltype(&lv<xclosure_wrapper<%s>>())" % T, T + "*", R, "xclosure_wrapper::operator&", "value closure", T)
        w.same("decltype(*lv<xclosure_pointer<%s&>>())" % T, T + "&", R, "xclosure_pointer::operator*", "lvalue closure", T)
        w.same("decltype(*lv<xclosure_pointer<const %s&>>())" % T, "const " + T + "&", R, "xclosure_pointer::operator*", "const lvalue closure", T)
        w.same("decltype(lv<xclosure_pointer<%s&>>().operator->())" % T, T + "*", R, "xclosure_pointer::operator->", "lvalue closure", T)
    # optional(t, b)
    for T in ("int", "Counting"):
        w.same("decltype(optional(lv<%s>(), lv<bool>()))" % T, "xoptional<%s&, bool&>" % T, R, "optional", "return type", "lvalue value, lvalue flag")
        w.same("decltype(optional(rv<%s>(), rv<bool>()))" % T, "xoptional<%s, bool>" % T, R, "optional", "return type", "rvalue value, rvalue flag")
        w.same("decltype(optional(lv<%s>(), rv<bool>()))" % T, "xoptional<%s&, bool>" % T, R, "optional", "return type", "lvalue value, rvalue flag")
        w.same("decltype(optional(clv<%s>(), lv<bool>()))" % T, "xoptional<const %s&, bool&>" % T, R, "optional", "return type", "const lvalue value")
    # ref-qualified accessors of xoptional / xmasked_value / xcomplex
    for cls, vacc, facc, two in (("xoptional", "value", "has_value", True), ("xmasked_value", "value", "visible", True)):
        for CT, CB, tag in (("int&", "bool&", "reference closures"), ("int", "bool", "value closures"), ("int&", "bool", "mixed ref/value"), ("int", "bool&", "mixed value/ref")):
            O = "%s<%s, %s>" % (cls, CT, CB)
            vref = CT.endswith("&")
            fref = CB.endswith("&")
            w.same("decltype(lv<%s>().%s())" % (O, vacc), "int&", R, cls + "::" + vacc, "& -> reference", tag)
            w.same("decltype(clv<%s>().%s())" % (O, vacc), "int&" if vref else "const int&", R, cls + "::" + vacc, "const & ", tag)
            w.same("decltype(rv<%s>().%s())" % (O, vacc), "int&" if vref else "int", R, cls + "::" + vacc, "&& -> reference for reference closures, value otherwise", tag)
            w.same("decltype(crv<%s>().%s())" % (O, vacc), "const int&" if vref else "int", R, cls + "::" + vacc, "const &&", tag)
            w.same("decltype(lv<%s>().%s())" % (O, facc), "bool&", R, cls + "::" + facc, "& -> reference", tag)
            w.same("decltype(rv<%s>().%s())" % (O, facc), "bool&" if fref else "bool", R, cls + "::" + facc, "&& -> reference for reference closures, value otherwise", tag)
            w.same("decltype(crv<%s>().%s())" % (O, facc), "const bool&" if fref else "bool", R, cls + "::" + facc, "const &&", tag)
    for CTR, CTI, tag in (("double&", "double&", "reference closures"), ("double", "double", "value closures"),
                          ("double&", "double", "mixed ref/value"), ("double", "double&", "mixed value/ref")):
        O = "xcomplex<%s, %s>" % (CTR, CTI)
        rref = CTR.endswith("&")
        iref = CTI.endswith("&")
        w.same("decltype(lv<%s>().real())" % O, "double&", R, "xcomplex::real", "&", tag)
        w.same("decltype(lv<%s>().imag())" % O, "double&", R, "xcomplex::imag", "&", tag)
        w.same("decltype(rv<%s>().real())" % O, "double&" if rref else "double", R, "xcomplex::real", "&&", tag)
        w.same("decltype(rv<%s>().imag())" % O, "double&" if iref else "double", R, "xcomplex::imag", "&&", tag)
        w.same("decltype(crv<%s>().real())" % O, "const double&" if rref else "double", R, "xcomplex::real", "const &&", tag)
        w.same("decltype(crv<%s>().imag())" % O, "const double&" if iref else "double", R, "xcomplex::imag", "const &&", tag)
        w.same("decltype(real(rv<%s>()))" % O, "double&" if rref else "double", R, "real(xcomplex&&)", "free function", tag)
        w.same("decltype(imag(rv<%s>()))" % O, "double&" if iref else "double", R, "imag(xcomplex&&)", "free function", tag)
    # operator& on value-like wrappers
    for O in ("xoptional<int, bool>", "xoptional<int&, bool&>", "xcomplex<double, double>", "xcomplex<double&, double&>"):
        w.same("decltype(&lv<%s>())" % O, "xclosure_pointer<%s&>" % O, R, "operator&", "lvalue -> pointer to the same object", O)
        w.same("decltype(&clv<%s>())" % O, "xclosure_pointer<const %s&>" % O, R, "operator&", "const lvalue", O)
        w.same("decltype(&rv<%s>())" % O, "xclosure_pointer<%s>" % O, R, "operator&", "rvalue -> owning pointer", O)
    w.same("decltype(&lv<xproxy_wrapper<Proxy>>())", "xclosure_pointer<Proxy&>", R, "xproxy_wrapper::operator&", "lvalue class proxy", "Proxy")
    w.same("decltype(&rv<xproxy_wrapper<Proxy>>())", "xclosure_pointer<Proxy>", R, "xproxy_wrapper::operator&", "rvalue class proxy", "Proxy")
    w.same("xproxy_wrapper<int>", "xclosure_wrapper<int>", R, "xproxy_wrapper", "scalar -> closure wrapper", "int")
    w.same("decltype(proxy_wrapper(rv<Proxy>()))", "xproxy_wrapper_impl<Proxy>", R, "proxy_wrapper", "return type", "Proxy")
    w.must_hold("std::is_base_of<Proxy, xproxy_wrapper<Proxy>>::value", R, "xproxy_wrapper", "derives from the proxy", "Proxy")
    # an lvalue proxy is wrapped by reference (writes through the wrapper reach the original), only an rvalue is taken over
    w.same("decltype(proxy_wrapper(lv<Proxy>()))", "xclosure_wrapper<Proxy&>", R, "proxy_wrapper", "lvalue class proxy -> aliasing wrapper", "Proxy&")
    w.same("decltype(proxy_wrapper(clv<Proxy>()))", "xclosure_wrapper<const Proxy&>", R, "proxy_wrapper", "const lvalue class proxy -> aliasing wrapper", "const Proxy&")
    w.same("decltype(proxy_wrapper(lv<int>()))", "xclosure_wrapper<int&>", R, "proxy_wrapper", "lvalue scalar -> aliasing wrapper", "int&")
    # real()/imag() of a plain real number: an lvalue is handed back itself, an rvalue by value (a reference to it would dangle)
    for fn_ in ("forward_real", "real"):
        w.same("decltype(%s(rv<double>()))" % fn_, "double", R, fn_, "real rvalue -> owned value", "double&&")
        w.same("decltype(%s(lv<double>()))" % fn_, "double&", R, fn_, "real lvalue -> the argument itself", "double&")
        w.same("decltype(%s(clv<double>()))" % fn_, "const double&", R, fn_, "const real lvalue -> the argument itself", "const double&")
    for fn_ in ("forward_imag", "imag"):
        w.same("decltype(%s(rv<double>()))" % fn_, "double", R, fn_, "imaginary part of a real number is a value", "double&&")
        w.same("decltype(%s(lv<double>()))" % fn_, "double", R, fn_, "imaginary part of a real number is a value", "double&")
    w.same("decltype(&lv<xbitset_reference<xdynamic_bitset<std::uint64_t>, false>>())", "xclosure_pointer<xbitset_reference<xdynamic_bitset<std::uint64_t>, false>>",
           R, "xbitset_reference::operator&", "pointer-like object holding the same bit reference", "uint64 blocks")
    # forward_sequence
    V = "std::vector<int>"
    w.same("decltype(forward_sequence<%s, %s&>(lv<%s>()))" % (V, V, V), V + "&", R, "forward_sequence", "same type, lvalue -> the argument itself", V)
    w.same("decltype(forward_sequence<%s, const %s&>(clv<%s>()))" % (V, V, V), "const " + V + "&", R, "forward_sequence", "same type, const lvalue -> the argument itself", V)
    w.same("decltype(forward_sequence<%s, %s>(rv<%s>()))" % (V, V, V), V + "&&", R, "forward_sequence", "same type, rvalue -> the argument itself", V)
    w.same("decltype(forward_sequence<%s, const %s>(crv<%s>()))" % (V, V, V), "const " + V + "&&", R, "forward_sequence", "same type, const rvalue -> the argument itself", V)
    w.same("decltype(forward_sequence<std::array<int, 3>, %s&>(lv<%s>()))" % (V, V), "std::array<int, 3>", R, "forward_sequence", "different type -> converted copy", V)
    w.same("decltype(forward_sequence<%s, std::array<int, 3>&>(lv<std::array<int, 3>>()))" % V, V, R, "forward_sequence", "different type -> converted copy", "array")
    # apply_cv (shared with C18's table, here for the closure users)
    w.same("apply_cv_t<const int&, double>", "const double&", R, "apply_cv_t", "const lvalue reference source", "")
    w.same("apply_cv_t<int&, double>", "double&", R, "apply_cv_t", "lvalue reference source", "")


def gen_pin(w):
    R = "C07.pin"
    # a copy or move anywhere on the lvalue path would not compile with Pinned
    w.must_compile("inline void pin1(Pinned& p) { auto c = xtl::closure(p); c.get().v = 1; Pinned* q = &c; (void)q; }", R, "closure", "lvalue of a non-copyable, non-movable type", "Pinned&")
    w.must_compile("inline void pin2(const Pinned& p) { auto c = xtl::closure(p); int x = c.get().v; auto d = xtl::const_closure(p); x += d.get().v; (void)x; }", R, "closure/const_closure", "const lvalue of a non-copyable type", "const Pinned&")
    w.must_compile("inline void pin3(Pinned& p) { auto c = xtl::closure_pointer(p); c->v = 2; (*c).v = 3; }", R, "closure_pointer", "lvalue of a non-copyable type", "Pinned&")
    w.must_compile("inline void pin4(Pinned& p, bool& b) { auto o = xtl::optional(p, b); o.value().v = 1; o.has_value() = false; }", R, "optional", "lvalue value and flag of non-copyable type", "Pinned&, bool&")
    w.must_compile("inline void pin5(Pinned& p) { xtl::xclosure_wrapper<Pinned&> a(p); xtl::xclosure_wrapper<Pinned&> b(a); b.get().v = a.get().v; }", R, "xclosure_wrapper copy", "copying the wrapper does not copy the referent", "Pinned&")
    w.must_compile("inline void pin6(std::vector<int>& v) { std::vector<int>& r = xtl::forward_sequence<std::vector<int>, std::vector<int>&>(v); (void)r; }", R, "forward_sequence", "binds to the original", "vector&")
    w.must_compile("inline void pin7(const std::vector<int>& v) { const std::vector<int>& r = xtl::forward_sequence<std::vector<int>, const std::vector<int>&>(v); static_assert(std::is_lvalue_reference<decltype(xtl::forward_sequence<std::vector<int>, const std::vector<int>&>(v))>::value, \"\"); (void)r; }", R, "forward_sequence", "const lvalue is forwarded, not copied", "const vector&")
    # rvalue wrappers own: buildable from a move-only temporary
    w.must_compile("inline void own1() { auto c = xtl::closure(MoveOnly()); c.get().v = 1; }", R, "closure", "rvalue of a move-only type is moved into the wrapper", "MoveOnly&&")
    w.must_compile("inline void own2() { auto c = xtl::closure_pointer(MoveOnly()); c->v = 1; }", R, "closure_pointer", "rvalue of a move-only type", "MoveOnly&&")
    w.must_compile("inline void own3() { auto o = xtl::optional(MoveOnly(), true); o.value().v = 1; }", R, "optional", "rvalue of a move-only type", "MoveOnly&&")
    w.must_compile("inline void asg1(int& x, int& y) { auto a = xtl::closure(x); auto b = xtl::closure(y); a = b; a = 5; a = std::move(b); using std::swap; swap(a, b); }", R, "xclosure_wrapper assignment", "assign/move-assign/swap through lvalue closures", "int&")


def gen_neg(w):
    R = "C07.neg"
    w.must_not_compile("inline void neg1(int& x) { auto c = xtl::const_closure(x); c.get() = 3; }", R, "const_closure", "no write through a const closure", "int&")
    w.must_not_compile("inline void neg2(const int& x) { auto c = xtl::closure(x); int& r = c.get(); (void)r; }", R, "closure", "closure of a const lvalue does not yield a mutable reference", "const int&")
    w.must_not_compile("inline void neg3() { auto& r = xtl::as_const(5); (void)r; }", R, "as_const", "as_const on an rvalue is deleted", "int&&")
    w.must_not_compile("inline void neg4(const int& x) { auto c = xtl::closure_pointer(x); *c = 3; }", R, "closure_pointer", "no write through a pointer to a const lvalue", "const int&")
    w.must_not_compile("inline void neg5(int& x) { auto c = xtl::const_closure_pointer(x); *c = 3; }", R, "const_closure_pointer", "no write through a const closure pointer", "int&")
    w.must_not_compile("inline void neg7(std::vector<int>& v) { auto&& r = xtl::forward_sequence<std::vector<int>, std::vector<int>&>(std::move(v)); (void)r; }", R, "forward_sequence", "an rvalue is not forwarded as an lvalue", "vector&&")


def ret_sx(fn):
    rets = [s for s in ir.walk_expr(ir.body(fn)) if s.get("kind") == "ReturnStmt"]
    return ir.sx(ir.ekids(rets[0])[0]) if len(rets) == 1 and ir.ekids(rets[0]) else None


INST_DRIVER = ('#include "xtl/xclosure.hpp"\n'
               'namespace wxtl { struct Obj { int v; bool operator==(const Obj& o) const { return v == o.v; } };\n'
               'void use(Obj& o, Obj v) { xtl::xclosure_wrapper<Obj&> r(o); xtl::xclosure_wrapper<Obj> w(static_cast<Obj&&>(v));\n'
               '  (void)r.get(); (void)w.get(); (void)&r; (void)&w; const auto& cr = r; const auto& cw = w; (void)cr.get(); (void)cw.get(); (void)&cr; (void)&cw;\n'
               '  xtl::xclosure_pointer<Obj&> pr(o); xtl::xclosure_pointer<Obj> pv(static_cast<Obj&&>(v)); (void)*pr; (void)*pv; (void)pr.operator->(); (void)pv.operator->();\n'
               '  const auto& cpr = pr; const auto& cpv = pv; (void)*cpr; (void)*cpv; } }\n')


def place_of(d, n, env, depth=0):
    """what an expression of an INSTANTIATED wrapper member designates, with calls followed through their resolved callee:
    ("stored",) the member m_wrappee; ("deref", x) / ("addr", x); ("var", name) a parameter"""
    n = ir.strip(n)
    while n.get("kind") in ("ImplicitCastExpr", "CXXStaticCastExpr", "CXXConstCastExpr", "CStyleCastExpr", "CXXFunctionalCastExpr", "ParenExpr", "MaterializeTemporaryExpr",
                            "ExprWithCleanups", "CXXBindTemporaryExpr") and ir.ekids(n):
        n = ir.strip(ir.ekids(n)[-1])
    k = n.get("kind")
    ks = ir.ekids(n)

    def addr(x):
        return x[1] if x[0] == "deref" else ("addr", x)

    def deref(x):
        return x[1] if x[0] == "addr" else ("deref", x)
    if k == "MemberExpr" and n.get("name") == "m_wrappee":
        return ("stored",)
    if k == "DeclRefExpr":
        nm = (n.get("referencedDecl") or {}).get("name")
        if nm in env:
            return env[nm]
        dec = d.by_id.get((n.get("referencedDecl") or {}).get("id"))
        if dec is not None and dec.get("kind") == "VarDecl" and ir.ekids(dec) and depth < 6:
            return place_of(d, ir.ekids(dec)[-1], env, depth + 1)       # a local bound to a place
        return ("var", nm)
    if k == "CXXThisExpr":
        return ("this",)
    if k == "UnaryOperator" and n.get("opcode") == "*":
        return deref(place_of(d, ks[0], env, depth))
    if k == "UnaryOperator" and n.get("opcode") == "&":
        return addr(place_of(d, ks[0], env, depth))
    if k == "CXXOperatorCallExpr" and depth < 6 and len(ks) == 2:
        # unary operator on an object of the class (`*operator->()` is written as a call; `**this` as an operator call)
        c = ir.strip(ks[0])
        tgt = d.by_id.get((c.get("referencedDecl") or {}).get("id"))
        if tgt is not None and ir.body(tgt) is not None:
            rets = [x for x in ir.walk_expr(ir.body(tgt)) if x.get("kind") == "ReturnStmt" and ir.ekids(x)]
            if len(rets) == 1:
                return place_of(d, ir.ekids(rets[0])[0], {}, depth + 1)
    if k in ("CallExpr", "CXXMemberCallExpr") and depth < 6:
        c = ir.strip(ks[0])
        rid = c.get("referencedMemberDecl") if c.get("kind") == "MemberExpr" else (c.get("referencedDecl") or {}).get("id")
        tgt = d.by_id.get(rid)
        nm = (tgt or {}).get("name") or c.get("name") or (c.get("referencedDecl") or {}).get("name")
        args = ks[1:]
        if nm in ("move", "forward") and len(args) == 1:
            return place_of(d, args[0], env, depth)
        if nm in ("addressof", "__addressof") and len(args) == 1:
            return addr(place_of(d, args[0], env, depth))
        if tgt is not None and ir.body(tgt) is not None:
            rets = [x for x in ir.walk_expr(ir.body(tgt)) if x.get("kind") == "ReturnStmt" and ir.ekids(x)]
            if len(rets) == 1:
                env2 = {p.get("name"): place_of(d, a, env, depth + 1) for p, a in zip(ir.params(tgt), args)}
                return place_of(d, ir.ekids(rets[0])[0], env2, depth + 1)
        return ("call", nm) + tuple(place_of(d, a, env, depth + 1) for a in args)
    if k in ("CXXConstructExpr", "CXXTemporaryObjectExpr") and len(ks) == 1:
        return place_of(d, ks[0], env, depth)
    return ("expr", k)


def pshow(x):
    if x[0] == "stored":
        return "m_wrappee"
    if x[0] in ("deref", "addr"):
        return ("*" if x[0] == "deref" else "&") + pshow(x[1])
    if x[0] == "var":
        return str(x[1])
    return str(x)


REFERENT_ACCESSORS = set()


def rule_defuse(rep):
    REFERENT_ACCESSORS.clear()
    rep.rule("C07.defuse", "inside xclosure_wrapper / xclosure_pointer: an lvalue closure stores the address of its reference parameter and "
                           "dereferences it, a value closure stores and returns the value; nothing but a constructor assigns the stored "
                           "pointer (no rebinding); assignment, swap and equality go through deref(); copy/move construction is defaulted")
    from .. import fstring as fs
    R = "C07.defuse"
    # ---- (a) instantiated wrappers: what get(), operator&() and the constructors designate, with every helper followed through its resolved callee
    di = cj.dump(INST_DRIVER, "xtl::")
    rep.cmd(di.cmd)
    found = {}
    for cls in di.walk():
        if cls.get("kind") != "ClassTemplateSpecializationDecl" or cls.get("name") != "xclosure_wrapper":
            continue
        targ = " ".join(ir.template_args(cls))
        if "Obj" not in targ:
            continue
        is_ref = "&" in targ
        kind = "lvalue-closure variant" if is_ref else "value-closure variant"
        for fn in ir.kids(cls):
            if fn.get("kind") not in ("CXXMethodDecl", "CXXConstructorDecl", "CXXConversionDecl") or not ir.has_body(fn):
                continue
            name = fn.get("name")
            label = "xclosure_wrapper<%s>::%s" % (targ.replace("wxtl::", ""), name)
            where = di.where(fn)
            if fn.get("kind") == "CXXConstructorDecl":
                if fn.get("explicitlyDefaulted") or fn.get("isImplicit") or not ir.params(fn):
                    continue
                inits = [k_ for k_ in ir.kids(fn) if k_.get("kind") == "CXXCtorInitializer" and (k_.get("anyInit") or {}).get("name") == "m_wrappee"]
                if not inits or not ir.ekids(inits[0]):
                    continue
                got = place_of(di, ir.ekids(inits[0])[0], {})
                pn = ir.params(fn)[0].get("name")
                want = ("addr", ("var", pn)) if is_ref else ("var", pn)
                found[("ctor", is_ref)] = True
                (rep.holds if got == want else rep.violates)(R, label + "(%s)" % ir.wtype(ir.params(fn)[0]).replace("wxtl::", ""), "stores " + ("the address of its parameter" if is_ref else "its parameter"), where=where,
                                                             detail="m_wrappee <- %s" % pshow(got) if got == want else "m_wrappee is initialised with `%s`, expected `%s`" % (pshow(got), pshow(want)))
                continue
            rets = [x for x in ir.walk_expr(ir.body(fn)) if x.get("kind") == "ReturnStmt" and ir.ekids(x)]
            if name == "get" or fn.get("kind") == "CXXConversionDecl":
                if len(rets) != 1:
                    continue
                got = place_of(di, ir.ekids(rets[0])[0], {})
                want = ("deref", ("stored",)) if is_ref else ("stored",)
                found[("get", is_ref)] = True
                (rep.holds if got == want else rep.violates)(R, label, kind + ": designates the stored referent", where=where,
                                                             detail="returns %s" % pshow(got) if got == want else "returns `%s`, expected `%s`" % (pshow(got), pshow(want)))
            elif name == "operator&":
                if len(rets) != 1:
                    continue
                got = place_of(di, ir.ekids(rets[0])[0], {})
                want = ("stored",) if is_ref else ("addr", ("stored",))
                found[("addr", is_ref)] = True
                (rep.holds if got == want else rep.violates)(R, label, kind + ": address of the referent", where=where,
                                                             detail="returns %s" % pshow(got) if got == want else "returns `%s`, expected `%s`" % (pshow(got), pshow(want)))
    # further nullary members of the wrapper that designate the referent (a private ref() accessor): accepted wherever deref(m_wrappee) is
    for cls in di.walk():
        if cls.get("kind") != "ClassTemplateSpecializationDecl" or cls.get("name") != "xclosure_wrapper" or "Obj" not in " ".join(ir.template_args(cls)):
            continue
        is_ref = "&" in " ".join(ir.template_args(cls))
        for fn in ir.kids(cls):
            if fn.get("kind") == "CXXMethodDecl" and ir.has_body(fn) and not ir.params(fn) and fn.get("name") not in ("get", "operator&"):
                rets = [x for x in ir.walk_expr(ir.body(fn)) if x.get("kind") == "ReturnStmt" and ir.ekids(x)]
                if len(rets) == 1 and place_of(di, ir.ekids(rets[0])[0], {}) == (("deref", ("stored",)) if is_ref else ("stored",)):
                    REFERENT_ACCESSORS.add(fn.get("name"))
    # xclosure_pointer: operator* designates the stored object, operator-> its address, the constructors store their parameter
    for cls in di.walk():
        if cls.get("kind") != "ClassTemplateSpecializationDecl" or cls.get("name") != "xclosure_pointer" or "Obj" not in " ".join(ir.template_args(cls)):
            continue
        targ = " ".join(ir.template_args(cls)).replace("wxtl::", "")
        for fn in ir.kids(cls):
            if fn.get("kind") not in ("CXXMethodDecl", "CXXConstructorDecl") or not ir.has_body(fn):
                continue
            label = "xclosure_pointer<%s>::%s" % (targ, fn.get("name"))
            if fn.get("kind") == "CXXConstructorDecl":
                if fn.get("explicitlyDefaulted") or fn.get("isImplicit") or not ir.params(fn):
                    continue
                inits = [k_ for k_ in ir.kids(fn) if k_.get("kind") == "CXXCtorInitializer" and (k_.get("anyInit") or {}).get("name") == "m_wrappee"]
                if not inits or not ir.ekids(inits[0]):
                    continue
                got = place_of(di, ir.ekids(inits[0])[0], {})
                want = ("var", ir.params(fn)[0].get("name"))
                found[("pctor", "&" in targ)] = True
                (rep.holds if got == want else rep.violates)(R, label + "(%s)" % ir.wtype(ir.params(fn)[0]).replace("wxtl::", ""), "binds/stores its parameter", where=di.where(fn),
                                                             detail="m_wrappee <- %s" % pshow(got) if got == want else "m_wrappee is initialised with `%s`, expected `%s`" % (pshow(got), pshow(want)))
                continue
            rets = [x for x in ir.walk_expr(ir.body(fn)) if x.get("kind") == "ReturnStmt" and ir.ekids(x)]
            if fn.get("name") in ("operator*", "operator->") and len(rets) == 1:
                got = place_of(di, ir.ekids(rets[0])[0], {})
                want = ("stored",) if fn.get("name") == "operator*" else ("addr", ("stored",))
                found[("p" + fn.get("name"), "&" in targ)] = True
                (rep.holds if got == want else rep.violates)(R, label, "designates the stored referent", where=di.where(fn),
                                                             detail=pshow(got) if got == want else "returns `%s`, expected `%s`" % (pshow(got), pshow(want)))
    need = [(w_, r_) for w_ in ("ctor", "get", "addr", "pctor", "poperator*", "poperator->") for r_ in (True, False)]
    missing = [k_ for k_ in need if k_ not in found]
    if missing:
        rep.broke("instantiated xclosure_wrapper members not found: %s" % missing)
    # ---- (b) the class-template patterns: assignment, swap, equality and no rebinding
    d = cj.dump('#include "xtl/xclosure.hpp"\n', "xtl::")
    rep.cmd(d.cmd)
    found = {}

    def referent(t, ps):
        """the object a wrapper designates, in any spelling: deref(X.m_wrappee), X.deref(X.m_wrappee), X.get(), get() -> X ('this' or a parameter name)"""
        while t[0] == "cast":
            t = t[3]
        if t[0] == "call" and ir.show(t[1]).endswith("deref") and len(t) == 3:
            a = t[2]
            if a in (("mem", ("this",), "m_wrappee"), ("ref", "m_wrappee")):
                return "this"
            if a[0] == "mem" and a[2] == "m_wrappee" and a[1][0] == "ref" and a[1][1] in ps:
                return a[1][1]
        names_ = {"get"} | REFERENT_ACCESSORS
        if t[0] == "call" and len(t) == 2 and ((t[1][0] == "ref" and t[1][1] in names_) or (t[1][0] == "mem" and t[1][1] == ("this",) and t[1][2] in names_)):
            return "this"
        if t[0] == "call" and len(t) == 2 and t[1][0] == "mem" and t[1][2] in names_ and t[1][1][0] == "ref" and t[1][1][1] in ps:
            return t[1][1][1]
        return None
    for fn in ir.functions(d):
        cls = ir.enclosing_class(d, fn)
        if cls is None or cls.get("name") not in ("xclosure_wrapper", "xclosure_pointer") or not ir.is_template_pattern(d, fn):
            continue
        cname = cls["name"]
        name = fn.get("name")
        where = d.where(fn)
        ps = [p.get("name") for p in ir.params(fn)]
        label = "%s::%s" % (cname, name)
        loc = fs.local_sx(fn)
        for v_ in ir.walk_expr(fn):
            # a reference local is an alias of what it was bound to, also when it is assigned through
            if v_.get("kind") == "VarDecl" and "&" in ir.qtype(v_) and ir.ekids(v_):
                loc[v_.get("name")] = ir.sx(ir.ekids(v_)[-1])
        # no rebinding: assignments whose left side is the stored member itself
        if fn.get("kind") != "CXXConstructorDecl":
            for n in ir.walk_expr(ir.body(fn)):
                if n.get("kind") in ("BinaryOperator", "CompoundAssignOperator", "CXXOperatorCallExpr"):
                    t = ir.sx(n)
                    if t[0] == "bin" and t[1].endswith("=") and t[1] not in ("==", "!=", "<=", ">=") and t[2] in (("mem", ("this",), "m_wrappee"), ("ref", "m_wrappee")):
                        if cname == "xclosure_wrapper":
                            rep.violates(R, label, "stored pointer reassigned", where=d.where(n),
                                         detail="`%s` assigns the stored pointer/value itself: a reference closure would be rebound instead of written through" % d.text(n)[:60])
        effects = [fs.subst_locals(ir.sx(s_), loc) for s_ in ir.kids(ir.body(fn)) if s_.get("kind") not in ("DeclStmt", "ReturnStmt", "NullStmt")] if ir.body(fn) else []
        rt = ret_sx(fn) if fn.get("kind") != "CXXConstructorDecl" else None
        rt = fs.subst_locals(rt, loc) if rt is not None else None
        if cname == "xclosure_wrapper" and name == "operator=":
            ptype = ir.wtype(ir.params(fn)[0]) if ir.params(fn) else ""
            found[("operator=", ptype)] = True
            if "&&" in ptype and "self_type" in ptype:
                ok = False
                for e in effects:
                    if e[0] == "call" and ir.show(e[1]).endswith("swap"):
                        args = e[2:]
                        if len(args) == 1 and args[0] == ("ref", ps[0]) and e[1] in (("ref", "swap"), ("mem", ("this",), "swap")):
                            ok = True
                        if len(args) == 2 and {referent(args[0], ps), referent(args[1], ps)} == {"this", ps[0]}:
                            ok = True
                (rep.holds if ok else rep.violates)(R, label, "move assignment swaps referents", where=where,
                                                    detail="exchanges the two referents" if ok else "expected swap(rhs) or a swap of the two referents, found `%s`" % "; ".join(ir.show(e)[:60] for e in effects))
            else:
                ok = False
                for e in effects:
                    if e[0] == "bin" and e[1] == "=" and referent(e[2], ps) == "this":
                        src = e[3]
                        while src[0] == "cast":
                            src = src[3]
                        if "self_type" in ptype or "xclosure_wrapper" in ptype:
                            ok = referent(src, ps) == ps[0]
                        else:
                            ok = src in (("ref", ps[0]), ("call", ("ref", "forward"), ("ref", ps[0])), ("call", ("ref", "move"), ("ref", ps[0])))
                (rep.holds if ok else rep.violates)(R, label, "assignment writes through deref()", where=where,
                                                    detail="referent of *this <- %s" % ps[0] if ok else "no assignment whose target is the referent of *this and whose source is the operand; found `%s`" % "; ".join(ir.show(e)[:60] for e in effects))
        elif cname == "xclosure_wrapper" and name == "swap":
            ok = any(e[0] == "call" and ir.show(e[1]).endswith("swap") and len(e) == 4 and {referent(e[2], ps), referent(e[3], ps)} == {"this", ps[0]} for e in effects)
            found[("swap",)] = True
            (rep.holds if ok else rep.violates)(R, label, "swap exchanges referent values", where=where,
                                                detail="swap of the two referents" if ok else "expected swap(deref(m_wrappee), deref(rhs.m_wrappee)); found `%s`" % "; ".join(ir.show(e)[:70] for e in effects))
        elif cname == "xclosure_wrapper" and name == "equal":
            ok = rt is not None and rt[0] == "bin" and rt[1] == "==" and {referent(rt[2], ps), referent(rt[3], ps)} == {"this", ps[0]}
            (rep.holds if ok else rep.violates)(R, label, "equality compares the referents", where=where,
                                                detail="referents compared" if ok else "expected deref(m_wrappee) == rhs.deref(rhs.m_wrappee); found `%s`" % (ir.show(rt) if rt else "?"))
    # defaulted copy/move construction (same referent)
    for n in d.walk():
        if n.get("kind") == "CXXConstructorDecl" and n.get("explicitlyDefaulted") and ir.in_repo(n):
            cls = ir.enclosing_class(d, n)
            if cls is not None and cls.get("name") == "xclosure_wrapper" and ir.is_template_pattern(d, n):
                rep.holds(R, "xclosure_wrapper::xclosure_wrapper(%s)" % ir.wtype(ir.params(n)[0]), "defaulted: the copy designates the same referent", where=d.where(n))
                found[("defaulted", ir.wtype(ir.params(n)[0]))] = True
    if ("swap",) not in found:
        rep.broke("xclosure_wrapper::swap not found")
    if len([k for k in found if k[0] == "defaulted"]) < 2:
        rep.violates(R, "xclosure_wrapper", "copy/move constructors defaulted", detail="the copy and move constructors are no longer both defaulted: copying a wrapper may no longer designate the same referent")


MOVE_DRIVER = ('#include "xtl/xoptional.hpp"\n#include <utility>\n'
               'namespace wxtl { struct Pay { Pay(); Pay(const Pay&); Pay(Pay&&) noexcept; Pay& operator=(const Pay&); Pay& operator=(Pay&&) noexcept; };\n'
               'void use(Pay& x, bool& f) { xtl::xoptional<Pay&, bool&> proxy(x, f); xtl::xoptional<Pay, bool> a(std::move(proxy));\n'
               '  xtl::xoptional<Pay, bool> b; b = std::move(proxy); xtl::xoptional<Pay, bool> own; xtl::xoptional<Pay, bool> c(std::move(own)); b = std::move(own);\n'
               '  xtl::xoptional<const Pay&, const bool&> cproxy(x, f); xtl::xoptional<Pay, bool> e(std::move(cproxy)); } }\n')


def rule_owned_moves(rep):
    """an rvalue PROXY (reference closure) does not own what it designates: converting construction / assignment from it must copy the referent, never
    move from it; decided on instantiations by the constructor / assignment operator of the payload that clang resolved"""
    rep.rule("C07.moves", "xoptional<T, bool> built or assigned from an rvalue xoptional<T&, bool&> / <const T&, const bool&> copies the referent (the payload's copy "
                          "constructor / copy assignment is the resolved callee); only an rvalue that owns its value is moved from")
    R = "C07.moves"
    d = cj.dump(MOVE_DRIVER, "xtl::")
    rep.cmd(d.cmd)
    n = 0
    for cls in d.walk():
        if cls.get("kind") != "ClassTemplateSpecializationDecl" or cls.get("name") != "xoptional":
            continue
        targs = " ".join(ir.template_args(cls)).replace("wxtl::", "")
        if not targs.startswith("Pay") or "&" in targs:
            continue
        for t in ir.kids(cls):
            fl = [t] if t.get("kind") in ("CXXConstructorDecl", "CXXMethodDecl") else [f for f in ir.kids(t) if f.get("kind") in ("CXXConstructorDecl", "CXXMethodDecl")] if t.get("kind") == "FunctionTemplateDecl" else []
            for f in fl:
                if not ir.has_body(f) or ir.is_template_pattern(d, f) or not ir.params(f):
                    continue
                pq = ir.qtype(ir.params(f)[0]).replace("wxtl::", "")
                if "xoptional<" not in pq or "&&" not in pq:
                    continue
                src_is_proxy = "Pay &" in pq.split("xoptional<", 1)[1].split(",")[0] or "Pay&" in pq.split("xoptional<", 1)[1].split(",")[0]
                is_ctor = f.get("kind") == "CXXConstructorDecl"
                if not is_ctor and f.get("name") != "operator=":
                    continue
                used = []
                if is_ctor:
                    for ini in [c for c in ir.kids(f) if c.get("kind") == "CXXCtorInitializer" and (c.get("anyInit") or {}).get("name") == "m_value"]:
                        for x in [ir.strip(ir.ekids(ini)[0])] + list(ir.walk_expr(ir.ekids(ini)[0])) if ir.ekids(ini) else []:
                            if x.get("kind") == "CXXConstructExpr" and "Pay" in ir.qtype(x):
                                used.append(((x.get("ctorType") or {}).get("qualType") or "", x))
                else:
                    for x in ir.walk_expr(ir.body(f)):
                        if x.get("kind") == "CXXOperatorCallExpr":
                            c_ = ir.strip(ir.ekids(x)[0])
                            tgt = d.by_id.get((c_.get("referencedDecl") or {}).get("id"))
                            owner = ir.enclosing_class(d, tgt) if tgt is not None else None
                            if (c_.get("referencedDecl") or {}).get("name") == "operator=" and owner is not None and owner.get("name") == "Pay":
                                used.append((ir.qtype(tgt), x))
                if not used:
                    continue
                n += 1
                label = "xoptional<Pay, bool>::%s(%s)" % ("xoptional" if is_ctor else "operator=", pq)
                moved = [u for u in used if "&&" in u[0]]
                if src_is_proxy and moved:
                    rep.violates(R, label, "the referent of an rvalue proxy is copied, not moved from", where=d.where(moved[0][1]),
                                 detail="the payload is taken with `%s`: the object the reference closure designates (which the proxy does not own) is moved from" % moved[0][0])
                elif src_is_proxy:
                    rep.holds(R, label, "the referent of an rvalue proxy is copied, not moved from", where=d.where(f), detail=used[0][0])
                elif not moved:
                    rep.violates(R, label, "an owned value is moved", where=d.where(used[0][1]), detail="the payload of an owning rvalue is taken with `%s`" % used[0][0])
                else:
                    rep.holds(R, label, "an owned value is moved", where=d.where(f), detail=moved[0][0])
    if n < 3:
        rep.broke("C07.moves: only %d converting constructors / assignments from an rvalue xoptional were found" % n)


def rule_bitref(rep):
    """bitset element references are C07's proxies as well: writing through one must take the SOURCE's bit (decided by C03's exact folding)"""
    from . import c03
    from ..report import Report as _R
    rep.rule("C07.bitref", "xbitset_reference (block type std::size_t): its mask designates exactly bit pos, conversion to bool reads that bit, assignment from bool / from "
                           "another reference / the compound forms write exactly that bit from the source's truth value (folded for every bit position)")
    d2 = cj.dump(c03.driver(["std::uint64_t"]), "xtl::")
    rep.cmd(d2.cmd)
    inst = c03.gather(d2).get("unsigned long")
    if inst is None:
        rep.broke("C07.bitref: xdynamic_bitset<std::size_t> not instantiated")
        return
    tmp = _R("C07", rep.tier, rep.level, "")
    c03.rule_helpers(tmp, inst, "C07.bitref")
    for i in tmp.instances:
        if i["function"].startswith("xbitset_reference"):
            rep.instances.append(i)
    # both the mutable and the const bit reference designate the block inside the container: the member that holds it is a reference (a const reference that
    # stores the word by value is a snapshot - it, its copies and &ref go stale at the next write)
    seen_kinds = set()
    d2 = cj.dump('#include "xtl/xdynamic_bitset.hpp"\n#include <cstdint>\nnamespace xtl { namespace wx_br {\n'
                 'inline bool use(xdynamic_bitset<std::uint64_t>& b, const xdynamic_bitset<std::uint64_t>& cb) { auto r = b[0]; auto cr = *cb.cbegin(); auto cr2 = *cb.begin(); return bool(r) && bool(cr) && bool(cr2); }\n} }\n', "xtl::")
    rep.cmd(d2.cmd)
    for c in d2.walk():
        if c.get("kind") != "ClassTemplateSpecializationDecl" or c.get("name") != "xbitset_reference":
            continue
        ta = ir.template_args(c)
        konst = ta[-1] in ("true", "1", "-1") if ta else None
        fields = [f for f in ir.kids(c) if f.get("kind") == "FieldDecl"]
        if not fields or konst in seen_kinds:
            continue
        seen_kinds.add(konst)
        refs = [f for f in fields if ((f.get("type") or {}).get("desugaredQualType") or (f.get("type") or {}).get("qualType", "")).rstrip().endswith("&")]
        lab = "xbitset_reference<..., %s>" % ("true" if konst else "false")
        if refs:
            rep.holds("C07.bitref", lab, "designates the block inside the container", where=d2.where(refs[0]), detail="member `%s` of type %s" % (
                refs[0].get("name"), (refs[0].get("type") or {}).get("desugaredQualType") or (refs[0].get("type") or {}).get("qualType")))
        else:
            rep.violates("C07.bitref", lab, "designates the block inside the container", where=d2.where(fields[0]),
                         detail="no member of reference type (%s): the reference holds a copy of the block, later writes to the bitset are not seen through it" % ", ".join(
                             "%s: %s" % (f.get("name"), (f.get("type") or {}).get("desugaredQualType") or (f.get("type") or {}).get("qualType")) for f in fields))
    if len(seen_kinds) < 2:
        rep.inconclusive("C07.bitref", "xbitset_reference", "designates the block inside the container", detail="const and mutable instantiations found: %s" % sorted(map(str, seen_kinds)))


def run(tier):
    rep = Report("C07", tier, "proof",
                 "Type- and def-use-level: every obligation is a static_assert / must-compile / must-not-compile witness discharged by "
                 "the compiler on the current headers, or a def-use rule on one of the tiny functions that implement aliasing.  Covers "
                 "every value category x three payload kinds x all wrapper kinds named in the property.",
                 trusted_base=["clang++ 14 (and g++ 12, C++14/17/20 in the thorough tier) as the checker of the witnesses", "oracle predicates in sa/rules/c07.py"],
                 assumptions=["a const rvalue source may map to a const value (still an independent copy): accepted, as in DESIGN.md section 3",
                              "use-after-scope in user code that keeps a reference wrapper is out of scope"])
    rep.rule("C07.type", "trait mappings and the types returned by closure/optional/xcomplex/xmasked_value/proxy/forward_sequence users: "
                         "lvalue -> (const) reference or pointer to the same object, rvalue -> owned decayed value")
    rep.rule("C07.pin", "lvalue wrappers can be built from an object that can be neither copied nor moved (so no copy is made); rvalue "
                        "wrappers can be built from a move-only temporary (so the value is owned)")
    rep.rule("C07.neg", "ill-formed uses are rejected: write through const closures, mutable access to const lvalues, as_const(rvalue), "
                        "rvalue closure of an immovable object")
    configs = [("clang++", "gnu++17"), ("g++", "gnu++14")] if tier == "quick" else [("clang++", "gnu++14"), ("clang++", "gnu++17"), ("clang++", "gnu++20"), ("g++", "gnu++17")]
    for comp, std in configs:
        w = WitnessTU(PRELUDE)
        gen_types(w)
        gen_pin(w)
        w.raw("}")
        ok, bad = w.run(rep, std=std, compiler=comp)
        rep.unit("type/pin witnesses with %s -std=%s: %d, failing %d" % (comp, std, ok + bad, bad))
        w2 = WitnessTU(PRELUDE)
        gen_neg(w2)
        w2.raw("}")
        ok, bad = w2.run(rep, std=std, compiler=comp)
        rep.unit("negative witnesses with %s -std=%s: %d, failing %d" % (comp, std, ok + bad, bad))
    rule_defuse(rep)
    rule_owned_moves(rep)
    rule_bitref(rep)
    return rep
