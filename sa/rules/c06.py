"""C06 - xtl::any: lifetime typestate of every member under all presence/type/alias scenarios (with the vtable slots
summarised from the functions stored in them), agreement of the in-place/heap decision between writer, vtable and
reader for a table of payload types, cast guards, strong guarantee of the assignments.  Stored *values* are not decided."""
import re

from .. import clangjson as cj
from .. import ir
from .. import flow
from ..report import Report

# payload table: (C++ type, definition or None, expected requires_allocation, why)
PAYLOADS = [
    ("int", None, False, "4 bytes, trivially movable"),
    ("double", None, False, "8 bytes"),
    ("wxtl::SmallTrivial", "struct SmallTrivial { int x; };", False, "4 bytes, trivial"),
    ("wxtl::TwoWords", "struct TwoWords { void* a; void* b; };", False, "exactly the size of the in-place buffer"),
    ("std::shared_ptr<int>", None, False, "two words, nothrow move"),
    ("wxtl::NoexMoveThrowCopy", "struct NoexMoveThrowCopy { NoexMoveThrowCopy(); NoexMoveThrowCopy(const NoexMoveThrowCopy&); NoexMoveThrowCopy(NoexMoveThrowCopy&&) noexcept; int x; };",
     False, "small, move is noexcept (copy is not): in place; `const T` is not nothrow-move-constructible"),
    ("wxtl::ThreeWords", "struct ThreeWords { void* a; void* b; void* c; };", True, "24 bytes > 2 words"),
    ("wxtl::Big", "struct Big { char b[64]; };", True, "64 bytes"),
    ("std::string", None, True, "32 bytes"),
    ("wxtl::SmallThrowMove", "struct SmallThrowMove { SmallThrowMove(); SmallThrowMove(const SmallThrowMove&); SmallThrowMove(SmallThrowMove&&); int x; };", True,
     "small but its move constructor may throw"),
    ("wxtl::Align16", "struct alignas(16) Align16 { char c[16]; };", True, "fits in size but is over-aligned for the buffer"),
]


def driver():
    out = ['#include "xtl/xany.hpp"', "#include <string>", "#include <memory>", "#include <type_traits>", "namespace wxtl {"]
    for t, dfn, exp, why in PAYLOADS:
        if dfn:
            out.append(dfn)
    out.append("constexpr bool k_true = std::integral_constant<bool, true>::value;")
    out.append("constexpr bool k_false = std::integral_constant<bool, false>::value;")
    out.append("template <class P> void use(P& p) {")
    out.append("  xtl::any a(p); xtl::any b(a), c(std::move(b)), e; e = a; e = std::move(c); e = p; e = std::move(p);")
    out.append("  a.swap(e); std::swap(a, e); a.reset(); a.clear(); (void)a.empty(); (void)a.has_value(); (void)a.type();")
    out.append("  const xtl::any& ca = a;")
    out.append("  (void)xtl::any_cast<P>(&a); (void)xtl::any_cast<const P>(&a); (void)xtl::any_cast<P>(&ca); (void)xtl::any_cast<const P>(&ca);")
    out.append("  (void)xtl::any_cast<P>(a); (void)xtl::any_cast<P&>(a); (void)xtl::any_cast<const P&>(a); (void)xtl::any_cast<P>(ca); (void)xtl::any_cast<const P&>(ca); (void)xtl::any_cast<P>(std::move(a));")
    out.append("}")
    for t, dfn, exp, why in PAYLOADS:
        out.append("template void use<%s>(%s&);" % (t, t))
    out.append("}")
    return "\n".join(out) + "\n"


def norm_type(q):
    q = q.replace("class ", "").replace("struct ", "")
    q = q.replace("std::basic_string<char>", "std::string").replace("std::__cxx11::basic_string<char>", "std::string")
    return q.strip()


# ---------------------------------------------------------------------------------------------------------------------
def any_class(d):
    for n in d.walk():
        if n.get("kind") == "CXXRecordDecl" and n.get("name") == "any" and any(c.get("kind") == "FieldDecl" for c in ir.kids(n)):
            return n
    raise cj.AnalysisBroken("class xtl::any not found")


def members(d, cls):
    out = []
    for c in ir.kids(cls):
        if c.get("kind") in ir.FUNC_KINDS and ir.has_body(c):
            out.append(c)
        if c.get("kind") == "FunctionTemplateDecl":
            for f in ir.kids(c):
                if f.get("kind") in ir.FUNC_KINDS and ir.has_body(f):
                    out.append(f)
    return out


# ---------------------------------------------------------------------------------------------------------------------
# C06.rw
def rule_rw(rep, d, cls):
    R = "C06.rw"
    # ids of integral_constant<bool,true/false>::value
    ids = {}
    for n in d.walk():
        if n.get("kind") == "VarDecl" and n.get("name") in ("k_true", "k_false"):
            for x in ir.walk_expr(n):
                if x.get("kind") == "DeclRefExpr" and (x.get("referencedDecl") or {}).get("name") == "value":
                    ids[(x.get("referencedDecl") or {}).get("id")] = n.get("name") == "k_true"
    if len(ids) != 2:
        raise cj.AnalysisBroken("cannot identify integral_constant<bool,B>::value declarations")
    expect = {norm_type(t): (exp, why) for t, dfn, exp, why in PAYLOADS}
    # 1. the trait itself
    seen = set()
    for n in d.walk():
        if n.get("kind") == "ClassTemplateSpecializationDecl" and n.get("name") == "requires_allocation":
            ta = [norm_type(x) for x in ir.template_args(n)]
            bases = n.get("bases") or []
            if not ta or not bases:
                continue
            m = re.search(r"integral_constant<bool, (true|false)>", bases[0].get("type", {}).get("desugaredQualType", ""))
            if not m:
                continue
            val = m.group(1) == "true"
            t = ta[0]
            key = t[len("const "):] if t.startswith("const ") else t
            if key not in expect:
                continue
            if t.startswith("const "):
                # a const-qualified query can only come from a reader that forgot to decay
                rep.violates(R, "requires_allocation<%s>" % t, "queried for a cv-qualified type", where=d.where(n),
                             detail="some reader asks requires_allocation<%s> (= %s) while the writer decided on the decayed type %s" % (t, val, key))
                continue
            seen.add(t)
            if val == expect[t][0]:
                rep.holds(R, "requires_allocation<%s>" % t, "in-place/heap decision", where=d.where(n), detail="%s: %s" % ("heap" if val else "in place", expect[t][1]))
            else:
                rep.violates(R, "requires_allocation<%s>" % t, "in-place/heap decision", where=d.where(n),
                             detail="is %s, expected %s (%s): only nothrow-movable types that fit the two-word buffer in size and alignment may live in place" % (
                                 val, expect[t][0], expect[t][1]))
    for t in expect:
        if t not in seen:
            rep.inconclusive(R, "requires_allocation<%s>" % t, "in-place/heap decision", detail="specialisation not found in the dump")
    # 2. construct<T>: branch taken and what it does
    for f in members(d, cls):
        if f.get("name") != "construct" or ir.is_template_pattern(d, f):
            continue
        T = None
        for n in ir.walk_expr(f):
            if n.get("kind") == "TypeAliasDecl" and n.get("name") == "T":
                T = norm_type(ir.qtype(n))
        if T not in expect:
            continue
        lab = "any::construct<%s>" % ir.template_args(f)[0]
        taken = []
        # the instantiated static_if branch (a generic lambda's call operator) or a member helper construct() hands over to (tag dispatch)
        bodies = [n for n in ir.walk_expr(f) if n.get("kind") == "CXXMethodDecl" and n.get("name") == "operator()" and ir.template_args(n) and ir.body(n) is not None]
        seen_c = {f.get("id")}
        work = [f]
        while work:
            cur = work.pop()
            for x in ir.walk_expr(ir.body(cur)) if ir.body(cur) is not None else []:
                if x.get("kind") == "CXXMemberCallExpr":
                    c_ = ir.strip(ir.ekids(x)[0])
                    tg = d.by_id.get(c_.get("referencedMemberDecl"))
                    if tg is not None and tg.get("id") not in seen_c and ir.has_body(tg) and ir.enclosing_class(d, tg) is cls:
                        seen_c.add(tg.get("id"))
                        bodies.append(tg)
                        work.append(tg)
        if not bodies and any(x.get("kind") == "CXXNewExpr" for x in ir.walk_expr(f)):
            bodies = [f]
        for n in bodies:
            if True:
                news = [x for x in ir.walk_expr(n) if x.get("kind") == "CXXNewExpr"]
                for nw in news:
                    par = d.parent_of(nw)
                    while par is not None and par.get("kind") in ("ImplicitCastExpr", "ParenExpr", "ExprWithCleanups"):
                        par = d.parent_of(par)
                    placement = [a for a in ir.ekids(nw) if any(s[0] == "mem" and s[2] in ("stack", "dynamic") for s in ir.subterms(ir.sx(a)))
                                 and a.get("kind") != "CXXConstructExpr"]
                    built = [a for a in ir.ekids(nw) if a not in placement]
                    how = None
                    pt = ir.sx(placement[0]) if placement else None
                    if placement and any(s[0] == "mem" and s[2] == "stack" for s in ir.subterms(pt)):
                        how = "stack"
                    elif not placement and par is not None and par.get("kind") == "BinaryOperator" and par.get("opcode") == "=" and \
                            any(s[0] == "mem" and s[2] == "dynamic" for s in ir.subterms(ir.sx(ir.ekids(par)[0]))):
                        how = "heap"
                    bt = ir.qtype(built[0]) if built else ir.qtype(nw).rstrip(" *")
                    taken.append((nw, how, norm_type(bt.replace("const ", ""))))
        if len(taken) != 1:
            rep.inconclusive(R, lab, "construction branch", where=d.where(f), detail="expected one instantiated static_if branch with one new-expression, found %d" % len(taken))
            continue
        nw, how, nt = taken[0]
        want = "heap" if expect[T][0] else "stack"
        if how != want:
            rep.violates(R, lab, "construction branch", where=d.where(nw), detail="the value is constructed %s, expected %s for %s" % (how, want, T))
        elif norm_type(nt) != T:
            rep.violates(R, lab, "construction branch", where=d.where(nw), detail="constructs a `%s`, expected the decayed type %s" % (nt, T))
        else:
            rep.holds(R, lab, "construction branch", where=d.where(nw), detail="%s for %s" % (how, T))
    # 3. vtable_for_type<T>: family and slot order
    for f in members(d, cls):
        if f.get("name") != "vtable_for_type" or ir.is_template_pattern(d, f):
            continue
        T = norm_type(ir.template_args(f)[0])
        if T not in expect:
            continue
        lab = "any::vtable_for_type<%s>" % T
        slots = []
        for n in ir.walk_expr(f):
            if n.get("kind") == "InitListExpr":
                for e in ir.ekids(n):
                    r = ir.strip(e)
                    if r.get("kind") == "DeclRefExpr":
                        rd = r.get("referencedDecl") or {}
                        fn = d.by_id.get(rd.get("id"))
                        owner = ir.enclosing_class(d, fn) if fn is not None else None
                        slots.append((rd.get("name"), (owner or {}).get("name"), " ".join(ir.template_args(owner)) if owner else ""))
                break
        fam = "vtable_dynamic" if expect[T][0] else "vtable_stack"
        names = [s[0] for s in slots]
        if names != ["type", "destroy", "copy", "move", "swap"]:
            rep.violates(R, lab, "slot order", where=d.where(f), detail="table is initialised with %s; the slots are declared type, destroy, copy, move, swap" % names)
        elif any(s[1] != fam for s in slots):
            rep.violates(R, lab, "vtable family", where=d.where(f), detail="uses %s, expected %s for %s" % (sorted({s[1] for s in slots}), fam, T))
        elif any(norm_type(s[2]) != T for s in slots):
            rep.violates(R, lab, "vtable family", where=d.where(f), detail="vtable instantiated for %s, expected %s" % (sorted({s[2] for s in slots}), T))
        else:
            rep.holds(R, lab, "family and slot order", where=d.where(f), detail="%s<%s>::{type,destroy,copy,move,swap}" % (fam, T))
    # 4. cast<T>
    for f in members(d, cls):
        if f.get("name") != "cast" or ir.is_template_pattern(d, f):
            continue
        ta = norm_type(ir.template_args(f)[0])
        key = ta[len("const "):] if ta.startswith("const ") else ta
        if key not in expect:
            continue
        lab = "any::cast<%s>()%s" % (ta, " const" if ir.qtype(f).rstrip().endswith("const noexcept") or ") const" in ir.qtype(f) else "")
        # the storage member read in the arm / branch that the (constant) condition selects for this T, however the selection is written
        class Undecided(Exception):
            pass

        def cval(n_):
            n_ = ir.strip(n_)
            kk = ir.ekids(n_)
            if n_.get("kind") == "DeclRefExpr":
                rid = (n_.get("referencedDecl") or {}).get("id")
                if rid in ids:
                    return ids[rid]
                dec = d.by_id.get(rid)
                if dec is not None and dec.get("kind") == "VarDecl" and ir.ekids(dec):
                    return cval(ir.ekids(dec)[-1])
                raise Undecided()
            if n_.get("kind") == "UnaryOperator" and n_.get("opcode") == "!":
                return not cval(kk[0])
            if n_.get("kind") == "CXXBoolLiteralExpr":
                return bool(n_.get("value"))
            if n_.get("kind") in ("ImplicitCastExpr", "ConstantExpr", "ParenExpr") and kk:
                return cval(kk[-1])
            raise Undecided()

        def reads(n_, out):
            if not isinstance(n_, dict):
                return
            k_ = n_.get("kind")
            if k_ == "ConditionalOperator":
                c_, a_, b_ = ir.ekids(n_)
                reads(a_ if cval(c_) else b_, out)
                return
            if k_ == "IfStmt":
                raw = [c for c in n_.get("inner", []) if isinstance(c, dict)]
                if len(raw) >= 2:
                    v_ = cval(raw[0])
                    branch = raw[1] if v_ else (raw[2] if len(raw) > 2 else None)
                    reads(branch, out)
                    return
            if k_ == "MemberExpr" and n_.get("name") in ("dynamic", "stack"):
                out.append((n_.get("name"), n_))
            if k_ == "CXXMemberCallExpr":
                # a member helper selected by overload resolution (tag dispatch on requires_allocation): the callee clang resolved is followed
                c__ = ir.strip(ir.ekids(n_)[0])
                tg_ = d.by_id.get(c__.get("referencedMemberDecl"))
                if tg_ is not None and ir.has_body(tg_) and ir.enclosing_class(d, tg_) is cls and id(tg_) not in seen_decl:
                    seen_decl.add(id(tg_))
                    for r_ in [x_ for x_ in ir.walk_expr(ir.body(tg_)) if x_.get("kind") == "ReturnStmt"]:
                        reads(r_, out)
            if k_ == "DeclRefExpr":
                dec = d.by_id.get((n_.get("referencedDecl") or {}).get("id"))
                if dec is not None and dec.get("kind") == "VarDecl" and "*" in ir.qtype(dec) and ir.ekids(dec) and id(dec) not in seen_decl:
                    seen_decl.add(id(dec))
                    reads(ir.ekids(dec)[-1], out)
            for c in n_.get("inner", []) or []:
                if isinstance(c, dict) and c.get("kind") != "VarDecl":
                    reads(c, out)
        rets = [n for n in ir.walk_expr(f) if n.get("kind") == "ReturnStmt"]
        got = []
        seen_decl = set()
        try:
            # walk the body, but only what is returned matters: locals are followed from their uses
            def walk_stmt(n_):
                if n_.get("kind") == "ReturnStmt":
                    reads(n_, got)
                    return
                if n_.get("kind") == "IfStmt":
                    raw = [c for c in n_.get("inner", []) if isinstance(c, dict)]
                    v_ = cval(raw[0])
                    br = raw[1] if v_ else (raw[2] if len(raw) > 2 else None)
                    if br is not None:
                        walk_stmt(br)
                    return
                for c in ir.kids(n_):
                    if c.get("kind") in ("CompoundStmt", "IfStmt", "ReturnStmt"):
                        walk_stmt(c)
            walk_stmt(ir.body(f))
        except Undecided:
            rep.inconclusive(R, lab, "storage selection", where=d.where(f), detail="condition is not an integral_constant<bool,B>::value")
            continue
        kinds = {g[0] for g in got}
        want = "dynamic" if expect[key][0] else "stack"
        if len(kinds) != 1:
            rep.inconclusive(R, lab, "storage selection", where=d.where(f), detail="expected exactly one storage member to be read for this T, found %s" % sorted(kinds))
        elif kinds != {want}:
            rep.violates(R, lab, "storage selection", where=d.where(got[0][1]),
                         detail="reads the %s although a %s is stored %s (the decision must be taken on the decayed type)" % (
                             "heap pointer" if "dynamic" in kinds else "in-place buffer", key, "on the heap" if expect[key][0] else "in place"))
        else:
            rep.holds(R, lab, "storage selection", where=d.where(got[0][1]), detail="%s" % ("heap pointer" if want == "dynamic" else "in-place buffer"))


# ---------------------------------------------------------------------------------------------------------------------
# C06.slot - storage-level typestate of the functions stored in the vtable slots
class SlotViolation(Exception):
    pass


class SlotSim:
    """storages hold an object id or None; objects carry a lineage root and a destroyed flag"""

    def __init__(self, d, family_fns):
        self.d = d
        self.fns = family_fns        # name -> decl (same family, same T)

    SLOTS = ("destroy", "copy", "move", "swap", "type")

    def sx(self, n):
        return self.expand(ir.sx(n))

    def expand(self, t, depth=0):
        """accessor helpers of the family (single `return <expr>;`, e.g. an extracted object(storage)) are replaced by what they return"""
        if not isinstance(t, tuple):
            return t
        t = tuple(self.expand(x, depth) if isinstance(x, tuple) else x for x in t)
        if len(t) >= 2 and t[0] == "call" and isinstance(t[1], tuple) and t[1][0] == "ref" and t[1][1] in self.fns and t[1][1] not in self.SLOTS and depth < 3:
            fn = self.fns[t[1][1]]
            ks = ir.kids(ir.body(fn)) if ir.body(fn) else []
            if len(ks) == 1 and ks[0].get("kind") == "ReturnStmt" and ir.ekids(ks[0]):
                ps = [p.get("name") for p in ir.params(fn)]
                m = dict(zip(ps, t[2:]))

                def subst(x):
                    if not isinstance(x, tuple):
                        return x
                    if x[0] == "ref" and x[1] in m:
                        return m[x[1]]
                    return tuple(subst(y) if isinstance(y, tuple) else y for y in x)
                return self.expand(subst(ir.sx(ir.ekids(ks[0])[0])), depth + 1)
        return t

    def run(self, fn, init, alias=False):
        """init: param name -> 'L'|'D'; returns list of (outcome, storages, objects)"""
        ps = [p.get("name") for p in ir.params(fn)]
        objs = {}
        st = {}
        for i, p in enumerate(ps):
            key = "P0" if alias else "P%d" % i
            if key not in st:
                if init[p] == "L":
                    oid = "o_" + key
                    objs[oid] = {"root": key, "destroyed": 0}
                    st[key] = oid
                else:
                    st[key] = None
        bind = {p: ("P0" if alias else "P%d" % i) for i, p in enumerate(ps)}
        return self._frame(fn, bind, st, objs)

    def _frame(self, fn, bind, st, objs, depth=0):
        if depth > 4:
            raise SlotViolation("recursion")
        paths = flow.function_paths(fn, with_ctor_inits=False, events=lambda n: n.get("kind") in ("CXXPseudoDestructorExpr",))
        results = []
        for path in paths:
            for res in self._path(path, 0, dict(bind), dict(st), {k: dict(v) for k, v in objs.items()}, depth):
                results.append(res)
        return results

    def storage_of(self, t, bind):
        """sx term mentioning X.dynamic / X.stack -> storage key"""
        for s in ir.subterms(t):
            if s[0] == "mem" and s[2] in ("dynamic", "stack") and s[1][0] == "ref" and s[1][1] in bind:
                return bind[s[1][1]], s[2]
        return None, None

    def _path(self, path, i, bind, st, objs, depth):
        d = self.d
        counter = [len(objs)]

        def new_obj(root):
            counter[0] += 1
            oid = "o%d_%d" % (depth, counter[0])
            objs[oid] = {"root": root, "destroyed": 0}
            return oid

        NOPTR = "no pointer local"

        def ptr_obj(t):
            for s_ in ir.subterms(t):
                if s_[0] == "ref" and isinstance(bind.get(s_[1]), tuple) and bind[s_[1]][0] == "ptr":
                    return bind[s_[1]][1]
            return NOPTR

        def kill(oid, what):
            if oid is None:
                raise SlotViolation("%s through a null pointer local" % what)
            if objs[oid]["destroyed"]:
                raise SlotViolation("%s: the object was already destroyed" % what)
            objs[oid]["destroyed"] += 1
            for k_ in list(st):
                if st[k_] == oid:
                    st[k_] = None

        def need_live(key, what):
            if st.get(key) is None:
                raise SlotViolation("%s: storage `%s` holds no live object here" % (what, key))
            if objs[st[key]]["destroyed"]:
                raise SlotViolation("%s: the object in `%s` was already destroyed" % (what, key))

        while i < len(path):
            step = path[i]
            i += 1
            if step[0] == "decl":
                v = step[1]
                if "storage_union" in ir.qtype(v) and "*" not in ir.qtype(v) and "&" not in ir.qtype(v):
                    key = "L_%s_%d" % (v.get("name"), depth)
                    bind[v.get("name")] = key
                    st[key] = None
                elif ("*" in ir.qtype(v) or ("&" in ir.qtype(v) and "storage_union" not in ir.qtype(v))) and ir.ekids(v):
                    # a pointer (or reference) local: it names the object the storage held when it was initialised (or the one just allocated)
                    init = ir.ekids(v)[-1]
                    if any(x.get("kind") == "CXXNewExpr" for x in [ir.strip(init)] + list(ir.walk_expr(init))):
                        bind[v.get("name")] = ("ptr", self._pending_new)
                    else:
                        ti = self.sx(init)
                        key, fld = self.storage_of(ti, bind)
                        if key is not None:
                            bind[v.get("name")] = ("ptr", st.get(key))
                        else:
                            o_ = ptr_obj(ti)
                            if o_ is not NOPTR:
                                bind[v.get("name")] = ("ptr", o_)
                elif "&" in ir.qtype(v) and "storage_union" in ir.qtype(v) and ir.ekids(v):
                    ti = self.sx(ir.ekids(v)[-1])
                    if ti[0] == "ref" and ti[1] in bind:
                        bind[v.get("name")] = bind[ti[1]]
                continue
            if step[0] != "ev":
                continue
            n = step[1]
            k = n.get("kind")
            t = self.sx(n)
            if k == "CXXDeleteExpr":
                key, fld = self.storage_of(t, bind)
                if key is None:
                    o_ = ptr_obj(t)
                    if o_ is NOPTR:
                        raise SlotViolation("delete of something that is not a storage pointer")
                    kill(o_, "delete")
                    continue
                need_live(key, "delete")
                objs[st[key]]["destroyed"] += 1
                st[key] = None
                continue
            if k == "CXXNewExpr":
                # reads
                args = [a for a in ir.ekids(n)]
                placement = [a for a in args if a.get("kind") not in ("CXXConstructExpr", "InitListExpr", "CXXFunctionalCastExpr", "ImplicitCastExpr") or
                             any(s[0] == "mem" and s[2] == "stack" and s[1][0] == "ref" for s in ir.subterms(self.sx(a))) and a.get("kind") == "ImplicitCastExpr" and a.get("castKind") == "BitCast"]
                ctor = [a for a in args if a not in placement]
                src_key = None
                src_oid = NOPTR
                is_move = False
                for a in ctor:
                    ta = self.sx(a)
                    sk, _ = self.storage_of(ta, bind)
                    if sk is not None:
                        src_key = sk
                        is_move = any(s[0] == "call" and s[1] == ("ref", "move") for s in ir.subterms(ta))
                    elif ptr_obj(ta) is not NOPTR:
                        src_oid = ptr_obj(ta)
                        is_move = any(s[0] == "call" and s[1] == ("ref", "move") for s in ir.subterms(ta))
                if src_key is not None:
                    need_live(src_key, "construction from")
                    src_oid = st[src_key]
                elif src_oid is not NOPTR:
                    if src_oid is None or objs[src_oid]["destroyed"]:
                        raise SlotViolation("construction from an object that is not alive")
                has_src = src_oid is not NOPTR
                root = ("copy", objs[src_oid]["root"]) if (has_src and not is_move) else (objs[src_oid]["root"] if has_src else "new")
                dest_key = None
                if placement:
                    dest_key, _ = self.storage_of(self.sx(placement[0]), bind)
                    if dest_key is None:
                        raise SlotViolation("placement new into something that is not a storage")
                    if st.get(dest_key) is not None and not objs[st[dest_key]]["destroyed"]:
                        raise SlotViolation("placement new over the live object in `%s`" % dest_key)
                    st[dest_key] = new_obj(root)
                else:
                    self._pending_new = new_obj(root)
                continue
            if k == "BinaryOperator" and n.get("opcode") == "=":
                lhs, rhs = ir.ekids(n)
                lk, lf = self.storage_of(self.sx(lhs), bind)
                if lk is None or lf != "dynamic":
                    continue
                rs = ir.strip(rhs)
                rt = self.sx(rhs)
                while rt[0] == "cast":
                    rt = rt[3]
                # an overwritten owner is not judged here: an object that ends up owned by no storage is reported at exit (leak)
                if rs.get("kind") == "CXXNewExpr":
                    st[lk] = self._pending_new
                    continue
                if rt == ("lit", "nullptr"):
                    st[lk] = None      # ownership must have been transferred; checked at exit (unowned object = leak)
                    continue
                if rt[0] == "call" and rt[1][0] == "ref" and str(rt[1][1]).split("::")[-1] == "exchange" and len(rt) == 4:
                    # std::exchange(src.dynamic, nullptr): the old pointer is handed over and the source is reset in one step
                    xk, xf = self.storage_of(rt[2], bind)
                    if xk is not None and xf == "dynamic":
                        need_live(xk, "pointer taken from")
                        st[lk] = st[xk]
                        st[xk] = None if rt[3] == ("lit", "nullptr") else st[xk]
                        continue
                rk, rf = self.storage_of(rt, bind)
                if rk is not None and rf == "dynamic":
                    need_live(rk, "pointer copy from")
                    st[lk] = st[rk]
                    continue
                if ptr_obj(rt) is not NOPTR:
                    st[lk] = ptr_obj(rt)
                    continue

                raise SlotViolation("storage pointer assigned from `%s`" % ir.show(rt))
            if k in ("CXXPseudoDestructorExpr",) or (k == "CXXMemberCallExpr" and t[0] == "call" and t[1][0] == "mem" and str(t[1][2]).startswith("~")):
                key, fld = self.storage_of(t, bind)
                par = d.parent_of(n)
                if k == "CXXPseudoDestructorExpr" and (par is None or par.get("kind") != "CallExpr"):
                    continue
                if key is None:
                    if ptr_obj(t) is not NOPTR:
                        kill(ptr_obj(t), "destructor call")
                    continue
                need_live(key, "destructor call")
                objs[st[key]]["destroyed"] += 1
                st[key] = None
                continue
            if k == "CallExpr" and t[0] == "call":
                callee = t[1]
                nm = callee[1] if callee[0] == "ref" else None
                if nm == "swap" and len(t) == 4 and nm not in ("",):
                    ak, af = self.storage_of(t[2], bind)
                    bk, bf = self.storage_of(t[3], bind)
                    if ak is not None and bk is not None and "stack" in (af, bf):
                        raise SlotViolation("the in-place buffers of `%s` and `%s` are exchanged as raw bytes: the stored objects are relocated without their move "
                                            "constructor/destructor (self-referential or registered objects break)" % (ak, bk))
                    if ak is not None and bk is not None and self.fns.get("swap") is not None and \
                            (ir.strip(ir.ekids(n)[0]).get("referencedDecl") or {}).get("id") != self.fns["swap"].get("id"):
                        st[ak], st[bk] = st[bk], st[ak]
                        continue
                if nm in self.fns and (ir.strip(ir.ekids(n)[0]).get("referencedDecl") or {}).get("id") == self.fns[nm].get("id"):
                    callee_fn = self.fns[nm]
                    cps = [p.get("name") for p in ir.params(callee_fn)]
                    cb = {}
                    for p, a in zip(cps, t[2:]):
                        if a[0] == "ref" and a[1] in bind:
                            cb[p] = bind[a[1]]
                        else:
                            raise SlotViolation("sibling call with a non-storage argument")
                    outs = self._frame(callee_fn, cb, st, objs, depth + 1)
                    # continue the path for every outcome of the callee
                    res = []
                    for out, st2, objs2 in outs:
                        if out != "normal":
                            res.append((out, st2, objs2))
                            continue
                        res += list(self._path(path, i, dict(bind), dict(st2), {k2: dict(v) for k2, v in objs2.items()}, depth))
                    for r in res:
                        yield r
                    return
                continue
        end = path[-1][0] if path else "end"
        yield ("throw" if end == "escape" else "normal", st, objs)


def rule_slot(rep, d, cls):
    R = "C06.slot"
    fams = {}
    for n in d.walk():
        if n.get("kind") == "ClassTemplateSpecializationDecl" and n.get("name") in ("vtable_stack", "vtable_dynamic"):
            fns = {f.get("name"): f for f in ir.kids(n) if f.get("kind") == "CXXMethodDecl" and ir.has_body(f)}
            if {"destroy", "copy", "move", "swap"} <= set(fns):
                fams.setdefault(n.get("name"), []).append((norm_type(" ".join(ir.template_args(n))), fns, n))
    for fam in ("vtable_stack", "vtable_dynamic"):
        if fam not in fams:
            raise cj.AnalysisBroken("no fully instantiated %s<T> found" % fam)
    for fam, lst in sorted(fams.items()):
        for T, fns, node in lst:
            sim = SlotSim(d, fns)
            lab = "%s<%s>" % (fam, T)
            # (slot, initial states, alias?, expectation checker)
            def held(st, objs, key):
                o = st.get(key)
                return None if o is None or objs[o]["destroyed"] else objs[o]["root"]

            def balance(st, objs):
                owners = {}
                for k2, o in st.items():
                    if o is not None:
                        owners.setdefault(o, []).append(k2)
                for o, info in objs.items():
                    if info["destroyed"] > 1:
                        return "object %s destroyed %d times" % (info["root"], info["destroyed"])
                    if info["destroyed"] == 0 and o not in owners:
                        return "live object (%s) is owned by no storage at exit (leak)" % (info["root"],)
                    if info["destroyed"] == 1 and o in owners:
                        return "storage `%s` still refers to a destroyed object" % owners[o][0]
                    if len(owners.get(o, [])) > 1:
                        return "two storages (%s) own the same object at exit (double destruction later)" % ", ".join(owners[o])
                for k2, o in st.items():
                    if k2.startswith("L_") and o is not None and not objs[o]["destroyed"]:
                        return "local temporary storage `%s` still holds a live object at exit" % k2
                return None

            cases = [
                ("destroy", {0: "L"}, False, lambda st, o: None if held(st, o, "P0") is None else "storage still holds its object"),
                ("copy", {0: "L", 1: "D"}, False, lambda st, o: None if (held(st, o, "P0") == "P0" and held(st, o, "P1") == ("copy", "P0")) else
                    "after copy the source must keep its object and the destination hold a copy (source: %s, destination: %s)" % (held(st, o, "P0"), held(st, o, "P1"))),
                ("move", {0: "L", 1: "D"}, False, lambda st, o: None if (held(st, o, "P0") is None and held(st, o, "P1") == "P0") else
                    "after move the source must be dead and the destination hold the source's value (source: %s, destination: %s)" % (held(st, o, "P0"), held(st, o, "P1"))),
                ("swap", {0: "L", 1: "L"}, False, lambda st, o: None if (held(st, o, "P0") == "P1" and held(st, o, "P1") == "P0") else
                    "after swap each side must hold the other's value (lhs: %s, rhs: %s)" % (held(st, o, "P0"), held(st, o, "P1"))),
            ]
            for slot, init, alias, post in cases:
                fn = fns[slot]
                ps = [p.get("name") for p in ir.params(fn)]
                try:
                    outs = sim.run(fn, {p: init[i] for i, p in enumerate(ps)}, alias)
                    msg = None
                    for out, st, objs in outs:
                        if out != "normal":
                            continue
                        msg = balance(st, objs) or post(st, objs)
                        if msg:
                            break
                    if not outs:
                        rep.inconclusive(R, lab + "::" + slot, "effect summary", where=d.where(fn), detail="no path")
                    elif msg:
                        rep.violates(R, lab + "::" + slot, "effect summary", where=d.where(fn), detail=msg)
                    else:
                        rep.holds(R, lab + "::" + slot, "effect summary", where=d.where(fn), detail="%d path(s); objects balanced" % len(outs))
                except SlotViolation as e:
                    rep.violates(R, lab + "::" + slot, "effect summary", where=d.where(fn), detail=str(e))
            # self-swap safety of the slot (needed to know whether any::swap must guard identity)
            fn = fns["swap"]
            ps = [p.get("name") for p in ir.params(fn)]
            try:
                outs = sim.run(fn, {p: "L" for p in ps}, True)
                ok = all(balance(st, objs) is None and held(st, objs, "P0") == "P0" for out, st, objs in outs)
                fams.setdefault("_selfswap", {})[lab] = ok
            except SlotViolation:
                fams.setdefault("_selfswap", {})[lab] = False
    return fams.get("_selfswap", {})


# ---------------------------------------------------------------------------------------------------------------------
# C06.life - any-level typestate
class LifeViolation(Exception):
    def __init__(self, msg, node=None):
        Exception.__init__(self, msg)
        self.node = node


class Unknown(Exception):
    pass


class AnySim:
    SLOTS = ("type", "destroy", "copy", "move", "swap")

    def __init__(self, d, cls, selfswap_safe):
        self.d = d
        self.cls = cls
        self.mem = members(d, cls)
        self.selfswap_safe = selfswap_safe
        self.nobj = 0

    def ctor_for(self, ce):
        want = (ce.get("ctorType") or {}).get("qualType") or ""
        cands = [f for f in self.mem if f.get("kind") == "CXXConstructorDecl" and not ir.is_template_pattern(self.d, f)]
        for f in cands:
            if ir.wtype(f) == want or ir.qtype(f) == want:
                return f
        # constructors taking a payload: any instantiation of the value constructor is equivalent for the typestate
        for f in cands:
            if ir.template_args(f) and "any" not in (ir.qtype(ir.params(f)[0]) if ir.params(f) else "any"):
                return f
        return None

    def new_obj(self, st, v="uninit"):
        self.nobj += 1
        oid = "obj%d" % self.nobj
        st["objs"][oid] = {"v": v, "s": None, "mod": False}
        return oid

    # -- expression values --------------------------------------------------------------------------------------------
    def val(self, n, fr, st):
        n = ir.strip(n)
        k = n.get("kind")
        ks = ir.ekids(n)
        if k == "CXXThisExpr":
            return ("ptr", fr["this"])
        if k == "UnaryOperator" and n.get("opcode") == "*":
            v = self.val(ks[0], fr, st)
            return ("obj", v[1]) if v and v[0] == "ptr" else None
        if k == "UnaryOperator" and n.get("opcode") == "&":
            v = self.val(ks[0], fr, st)
            return ("ptr", v[1]) if v and v[0] == "obj" else None
        if k == "UnaryOperator" and n.get("opcode") == "!":
            v = self.val(ks[0], fr, st)
            return ("bool", not v[1]) if v and v[0] == "bool" else None
        if k == "DeclRefExpr":
            nm = (n.get("referencedDecl") or {}).get("name")
            if nm in fr["bind"]:
                b = fr["bind"][nm]
                return b if isinstance(b, tuple) else ("obj", b)
            return None
        if k == "CXXNullPtrLiteralExpr":
            return ("null",)
        if k == "CXXFunctionalCastExpr" and ks:
            return self.val(ks[-1], fr, st)
        if k in ("CXXConstructExpr", "CXXTemporaryObjectExpr"):
            oid = (fr.get("made") or {}).get(n.get("id"))
            return ("obj", oid) if oid else None
        if k == "CallExpr":
            c = ir.strip(ks[0])
            nm = (c.get("referencedDecl") or {}).get("name")
            if nm in ("move", "forward") and len(ks) == 2:
                return self.val(ks[1], fr, st)
            if nm == "addressof" and len(ks) == 2:
                v = self.val(ks[1], fr, st)
                return ("ptr", v[1]) if v and v[0] == "obj" else None
            return None
        if k == "CXXOperatorCallExpr":
            # self(*this) inside the static_if lambdas
            if len(ks) == 3:
                return self.val(ks[2], fr, st)
            return None
        if k == "MemberExpr":
            base = self.val(ks[0], fr, st) if ks else ("ptr", fr["this"])
            if base is None:
                return None
            oid = base[1] if base[0] in ("obj", "ptr") else None
            if oid is None:
                return None
            if n.get("name") == "vtable":
                return ("vt", st["objs"][oid]["v"], oid)
            if n.get("name") == "storage":
                return ("st", oid)
            return None
        if k == "BinaryOperator" and n.get("opcode") in ("==", "!="):
            a, b = self.val(ks[0], fr, st), self.val(ks[1], fr, st)
            if a is None or b is None:
                return None
            eq = None
            if a[0] == "vt" and b[0] == "null":
                eq = a[1] is None
            elif a[0] == "null" and b[0] == "vt":
                eq = b[1] is None
            elif a[0] == "vt" and b[0] == "vt":
                if "uninit" in (a[1], b[1]):
                    raise LifeViolation("compares an uninitialised vtable pointer", n)
                eq = a[1] == b[1]
            elif a[0] == "ptr" and b[0] == "ptr":
                eq = a[1] == b[1]
            elif a[0] == "ptr" and b[0] == "null" or a[0] == "null" and b[0] == "ptr":
                eq = False
            if eq is None:
                return None
            return ("bool", eq if n.get("opcode") == "==" else not eq)
        if k == "CXXMemberCallExpr":
            c = ir.strip(ks[0])
            fn = self.d.by_id.get(c.get("referencedMemberDecl"))
            if fn is None or not ir.has_body(fn) or fn.get("name") not in ("empty", "has_value"):
                return None
            base = self.val(ir.ekids(c)[0], fr, st) if ir.ekids(c) else ("ptr", fr["this"])
            if base is None:
                return None
            b = ir.body(fn)
            rets = [x for x in ir.kids(b) if x.get("kind") == "ReturnStmt"]
            if len(rets) != 1 or len(ir.kids(b)) != 1:
                return None
            return self.val(ir.ekids(rets[0])[0], {"this": base[1], "bind": {}, "locals": []}, st)
        return None

    # -- simulation -----------------------------------------------------------------------------------------------------
    def run(self, fn, fr, st, depth=0):
        """-> list of (outcome 'normal'|'throw', state)"""
        if depth > 6:
            raise Unknown("call depth")
        if any(n.get("kind") == "CXXTryStmt" for n in ir.walk_expr(fn)):
            raise Unknown("try block in %s" % fn.get("name"))
        paths = flow.function_paths(fn, with_ctor_inits=True)
        out = []
        for path in paths:
            out += self.path(fn, path, 0, self.copy_fr(fr), self.copy_st(st), depth)
        if not out:
            raise Unknown("no feasible path through %s" % fn.get("name"))
        return out

    @staticmethod
    def copy_st(st):
        return {"objs": {k: dict(v) for k, v in st["objs"].items()}}

    @staticmethod
    def copy_fr(fr):
        return {"this": fr["this"], "bind": dict(fr["bind"]), "locals": list(fr["locals"]), "last": fr.get("last"), "made": dict(fr.get("made") or {})}

    def finish(self, fr, st, outcome, depth):
        """destroy the frame's fully constructed locals / temporaries (reverse order)"""
        dtor = [f for f in self.mem if f.get("kind") == "CXXDestructorDecl"]
        if not dtor:
            raise Unknown("~any not found")
        states = [st]
        for oid in reversed(fr["locals"]):
            nxt = []
            for s in states:
                for o2, s2 in self.run(dtor[0], {"this": oid, "bind": {}, "locals": []}, s, depth + 1):
                    if o2 != "normal":
                        raise LifeViolation("destructor throws")
                    nxt.append(s2)
            states = nxt
            for s in states:
                o = s["objs"][oid]
                if o["s"] is not None:
                    raise LifeViolation("a temporary/local any is destroyed but its content stays alive (leak)")
        return [(outcome, s) for s in states]

    def path(self, fn, path, i, fr, st, depth):
        d = self.d
        while i < len(path):
            step = path[i]
            i += 1
            if step[0] == "cond":
                v = self.val(step[1], fr, st)
                if v is not None and v[0] == "bool" and v[1] != step[2]:
                    return []          # infeasible under this scenario
                continue
            if step[0] == "init":
                ini = step[1]
                if (ini.get("anyInit") or {}).get("name") == "vtable":
                    v = self.val(ir.ekids(ini)[0], fr, st)
                    o = st["objs"][fr["this"]]
                    if v is None:
                        raise Unknown("vtable initialiser")
                    o["v"] = None if v[0] == "null" else v[1]
                continue
            if step[0] == "decl":
                v = step[1]
                if ir.qtype(v).replace("const ", "").strip() in ("xtl::any", "any") and fr.get("last"):
                    fr["bind"][v.get("name")] = fr["last"]
                elif ir.ekids(v):
                    val = self.val(ir.ekids(v)[-1], fr, st)
                    if val is not None:
                        fr["bind"][v.get("name")] = val if val[0] != "obj" or "&" not in ir.qtype(v) else val[1]
                continue
            if step[0] != "ev":
                continue
            n = step[1]
            k = n.get("kind")
            ks = ir.ekids(n)
            # vtable stores
            if k == "BinaryOperator" and n.get("opcode") == "=":
                lhs = ir.strip(ks[0])
                if lhs.get("kind") == "MemberExpr" and lhs.get("name") == "vtable":
                    base = self.val(ir.ekids(lhs)[0], fr, st) if ir.ekids(lhs) else ("ptr", fr["this"])
                    if base is None:
                        raise Unknown("vtable store on an unknown object")
                    rv = ir.strip(ks[1])
                    if rv.get("kind") == "CallExpr" and (ir.strip(ir.ekids(rv)[0]).get("referencedDecl") or {}).get("name") == "vtable_for_type":
                        newv = "T_new"
                    else:
                        v = self.val(ks[1], fr, st)
                        if v is None:
                            raise Unknown("vtable assigned from `%s`" % d.text(ks[1])[:40])
                        newv = None if v[0] == "null" else v[1]
                    o = st["objs"][base[1]]
                    o["v"] = newv
                    o["mod"] = True
                continue
            if k == "CallExpr":
                c = ir.strip(ks[0])
                # call through a vtable slot
                if c.get("kind") == "MemberExpr" and c.get("name") in self.SLOTS:
                    vt = self.val(ir.ekids(c)[0], fr, st)
                    if vt is None or vt[0] != "vt":
                        raise Unknown("slot call through an unknown vtable")
                    tag = vt[1]
                    slot = c.get("name")
                    if tag is None or tag == "uninit":
                        raise LifeViolation("calls vtable->%s through a %s vtable pointer" % (slot, "null" if tag is None else "uninitialised"), n)
                    args = [self.val(a, fr, st) for a in ks[1:]]
                    if any(a is None or a[0] != "st" for a in args):
                        if slot == "type":
                            continue
                        raise Unknown("slot argument is not a storage")
                    O = st["objs"]

                    def live(a, what):
                        if O[a[1]]["s"] is None:
                            raise LifeViolation("vtable->%s: %s storage holds no live object" % (slot, what), n)
                        if O[a[1]]["s"] != tag:
                            raise LifeViolation("vtable->%s is called through the vtable of another type than the one stored in the %s storage" % (slot, what), n)

                    def dead(a, what):
                        if O[a[1]]["s"] is not None:
                            raise LifeViolation("vtable->%s constructs into the %s storage, which still holds a live object (never destroyed)" % (slot, what), n)
                    if slot == "destroy":
                        live(args[0], "argument")
                        O[args[0][1]]["s"] = None
                        O[args[0][1]]["mod"] = True
                    elif slot == "copy":
                        live(args[0], "source")
                        dead(args[1], "destination")
                        # may throw before the destination is alive
                        res = self.finish(fr, self.copy_st(st), "throw", depth)
                        O[args[1][1]]["s"] = tag
                        O[args[1][1]]["mod"] = True
                        return res + self.path(fn, path, i, fr, st, depth)
                    elif slot == "move":
                        if args[0][1] == args[1][1]:
                            raise LifeViolation("vtable->move with the same storage as source and destination", n)
                        live(args[0], "source")
                        dead(args[1], "destination")
                        O[args[0][1]]["s"] = None
                        O[args[1][1]]["s"] = tag
                        O[args[0][1]]["mod"] = True
                        O[args[1][1]]["mod"] = True
                    elif slot == "swap":
                        live(args[0], "first")
                        live(args[1], "second")
                        if args[0][1] == args[1][1] and not self.selfswap_safe:
                            raise LifeViolation("vtable->swap(s, s) on one and the same storage: the in-place swap moves from an object it has already destroyed", n)
                        O[args[0][1]]["mod"] = True
                        O[args[1][1]]["mod"] = True
                    continue
                nm = (c.get("referencedDecl") or {}).get("name")
                if nm == "static_if" and fn.get("name") == "construct":
                    o = st["objs"][fr["this"]]
                    if o["s"] is not None:
                        raise LifeViolation("construct() builds the new value over a live object", n)
                    if o["v"] in (None, "uninit"):
                        raise LifeViolation("construct() builds the value before the vtable is set", n)
                    res = self.finish(fr, self.copy_st(st), "throw", depth)     # the payload constructor may throw
                    o["s"] = o["v"]
                    o["mod"] = True
                    return res + self.path(fn, path, i, fr, st, depth)
                continue
            if k == "CXXNewExpr" and ir.enclosing_class(d, fn) is self.cls and fn.get("name") not in ("vtable_for_type",):
                # the payload is built (in place or on the heap) by a member of any: construct() or a helper it was split into
                o = st["objs"][fr["this"]]
                if o["s"] is not None:
                    raise LifeViolation("the new value is built over a live object", n)
                if o["v"] in (None, "uninit"):
                    raise LifeViolation("the value is built before the vtable is set", n)
                res = self.finish(self.copy_fr(fr), self.copy_st(st), "throw", depth)     # the payload constructor may throw
                o["s"] = o["v"]
                o["mod"] = True
                return res + self.path(fn, path, i, fr, st, depth)
            if k == "CXXMemberCallExpr":
                c = ir.strip(ks[0])
                callee = d.by_id.get(c.get("referencedMemberDecl"))
                if callee is None or ir.enclosing_class(d, callee) is not self.cls or not ir.has_body(callee):
                    continue
                if callee.get("name") in ("empty", "has_value", "type", "is_typed", "is_same", "cast"):
                    continue
                base = self.val(ir.ekids(c)[0], fr, st) if ir.ekids(c) else ("ptr", fr["this"])
                if base is None:
                    raise Unknown("member call on an unknown object")
                cb = {}
                for p, a in zip(ir.params(callee), ks[1:]):
                    v = self.val(a, fr, st)
                    if v is not None and v[0] == "obj":
                        cb[p.get("name")] = v[1]
                outs = self.run(callee, {"this": base[1], "bind": cb, "locals": []}, st, depth + 1)
                res = []
                for out, st2 in outs:
                    if out == "throw":
                        res += self.finish(self.copy_fr(fr), st2, "throw", depth)
                    else:
                        res += self.path(fn, path, i, self.copy_fr(fr), st2, depth)
                return res
            if k in ("CXXConstructExpr", "CXXTemporaryObjectExpr") and ir.qtype(n).replace("const ", "").strip() in ("xtl::any", "any"):
                ctor = self.ctor_for(n)
                if ctor is None:
                    raise Unknown("constructor %s not found" % (n.get("ctorType") or {}).get("qualType"))
                oid = self.new_obj(st)
                cb = {}
                for p, a in zip(ir.params(ctor), ks):
                    v = self.val(a, fr, st)
                    if v is not None and v[0] == "obj":
                        cb[p.get("name")] = v[1]
                outs = self.run(ctor, {"this": oid, "bind": cb, "locals": []}, st, depth + 1)
                res = []
                for out, st2 in outs:
                    fr2 = self.copy_fr(fr)
                    if out == "throw":
                        if st2["objs"][oid]["s"] is not None:
                            raise LifeViolation("a constructor of any exits by exception while its storage holds a live object (leak)", n)
                        res += self.finish(fr2, st2, "throw", depth)
                    else:
                        o = st2["objs"][oid]
                        if o["v"] == "uninit":
                            raise LifeViolation("a constructor of any leaves the vtable pointer uninitialised", n)
                        fr2["locals"].append(oid)
                        fr2["last"] = oid
                        fr2["made"][n.get("id")] = oid
                        res += self.path(fn, path, i, fr2, st2, depth)
                return res
        end = path[-1][0] if path else "end"
        if end == "escape":
            return self.finish(fr, st, "throw", depth)
        return self.finish(fr, st, "normal", depth)


def consistent(o):
    if o["v"] == "uninit":
        return "vtable pointer uninitialised"
    if o["v"] is None and o["s"] is not None:
        return "vtable is null but the storage still holds a live object (leak; has_value() is false)"
    if o["v"] is not None and o["s"] is None:
        return "vtable is set but the storage holds no live object (has_value() is true; the destructor will destroy a dead object)"
    if o["v"] != o["s"]:
        return "vtable describes another type than the stored object"
    return None


def rule_life(rep, d, cls, selfswap):
    R = "C06.life"
    sim = AnySim(d, cls, all(selfswap.values()) if selfswap else False)
    fns = [f for f in members(d, cls) if not ir.is_template_pattern(d, f)]
    done = set()
    from .. import fstring as _fs
    access = _fs.member_access(cls)
    called = {}
    for f in fns:
        for n in ir.walk_expr(f):
            if n.get("kind") == "CXXMemberCallExpr":
                c = ir.strip(ir.ekids(n)[0])
                if c.get("kind") == "MemberExpr" and c.get("referencedMemberDecl"):
                    called[c.get("referencedMemberDecl")] = called.get(c.get("referencedMemberDecl"), 0) + 1
    for fn in fns:
        nm = fn.get("name")
        if nm in ("empty", "has_value", "type", "is_typed", "is_same", "cast", "vtable_for_type"):
            continue
        if access.get(fn.get("id"), "public") != "public" and nm != "construct" and fn.get("kind") == "CXXMethodDecl" and called.get(fn.get("id")):
            # a non-public helper may rely on a precondition its callers establish: it is analysed inlined into every caller, not on its own
            rep.note("any::%s is non-public: analysed through its %d call site(s)" % (nm, called[fn.get("id")]))
            continue
        ps = ir.params(fn)
        sig = (nm, fn.get("kind"), tuple(ir.qtype(p) if "any" in ir.qtype(p) else "value" for p in ps))
        if sig in done:
            continue            # the value constructor / assignment / construct are analysed once (the typestate is type-agnostic)
        done.add(sig)
        is_ctor = fn.get("kind") == "CXXConstructorDecl"
        is_dtor = fn.get("kind") == "CXXDestructorDecl"
        any_param = [p for p in ps if "any" in ir.qtype(p)]
        lab = "any::%s(%s)" % (nm, ", ".join(ir.qtype(p).replace("xtl::", "") if "any" in ir.qtype(p) else "ValueType&&" for p in ps))
        scen = []
        this_opts = [("uninit", None)] if is_ctor else [(None, None), ("Ta", "Ta")]
        if nm == "construct":
            this_opts = [("uninit", None), (None, None)]
        rhs_opts = [(None, None), ("Ta", "Ta"), ("Tb", "Tb")] if any_param else [None]
        for to in this_opts:
            for ro in rhs_opts:
                scen.append((to, ro, False))
            if any_param and not is_ctor:
                scen.append((to, None, True))
        for to, ro, alias in scen:
            st = {"objs": {}}
            st["objs"]["this"] = {"v": to[0], "s": to[1], "mod": False}
            bind = {}
            if any_param:
                if alias:
                    bind[any_param[0].get("name")] = "this"
                else:
                    st["objs"]["rhs"] = {"v": ro[0], "s": ro[1], "mod": False}
                    bind[any_param[0].get("name")] = "rhs"
            sname = "this=%s%s" % ("uninit" if to[0] == "uninit" else ("empty" if to[0] is None else "holds A"),
                                    "" if not any_param else (", rhs is *this" if alias else ", rhs=%s" % ("empty" if ro[0] is None else "holds " + ro[0][1:].upper())))
            init = {k: dict(v) for k, v in st["objs"].items()}
            try:
                outs = sim.run(fn, {"this": "this", "bind": bind, "locals": []}, st)
            except LifeViolation as e:
                rep.violates(R, lab, "lifetime typestate", where=d.where(e.node) if e.node is not None else d.where(fn), scenario=sname, detail=str(e))
                continue
            except (Unknown, cj.AnalysisBroken) as e:
                rep.inconclusive(R, lab, "lifetime typestate", where=d.where(fn), scenario=sname, detail=str(e))
                continue
            bad = None
            for out, s2 in outs:
                T, Rr = s2["objs"]["this"], s2["objs"].get("rhs")
                if out == "throw":
                    if is_ctor or nm == "construct":     # construct() is reached from constructors only; any other caller is analysed through that caller
                        if T["s"] is not None:
                            bad = "constructor exits by exception with a live object in its storage (leak)"
                    else:
                        bad = consistent(T)
                        if not bad and nm == "operator=" and T["mod"]:
                            bad = "the assignment exits by exception after *this was modified: the target does not keep its previous value"
                        if not bad and fn.get("name") in ("swap", "clear", "reset") :
                            bad = "a noexcept operation can exit by exception"
                    if not bad and Rr is not None:
                        bad = consistent(Rr)
                    if bad:
                        break
                    continue
                bad = consistent(T) if not is_dtor else (None if T["s"] is None else "destructor leaves the contained object alive")
                if not bad and Rr is not None:
                    bad = consistent(Rr)
                    if bad:
                        bad = "rhs: " + bad
                if bad:
                    break
                # functional postconditions on presence/type
                i_t, i_r = init["this"], init.get("rhs")
                if nm in ("clear", "reset") or is_dtor:
                    if T["v"] is not None:
                        bad = "still holds a value afterwards"
                elif nm == "swap" and not alias:
                    if (T["v"], Rr["v"]) != (i_r["v"], i_t["v"]):
                        bad = "held types are not exchanged (this: %s, rhs: %s)" % (T["v"], Rr["v"])
                elif nm == "swap" and alias:
                    if T["v"] != i_t["v"]:
                        bad = "self-swap changes the held type"
                elif nm in ("any", "operator=") and any_param and not alias:
                    const_rhs = "const" in ir.qtype(any_param[0])
                    if T["v"] != i_r["v"]:
                        bad = "target holds %s, expected what rhs held (%s)" % (T["v"], i_r["v"])
                    elif const_rhs and (Rr["mod"] or Rr["v"] != i_r["v"]):
                        bad = "the source of a copy is modified"
                elif nm == "operator=" and alias:
                    if T["v"] != i_t["v"]:
                        bad = "self-assignment loses the value"
                elif nm in ("any", "operator=", "construct") and not any_param and ps:
                    if T["v"] != "T_new":
                        bad = "does not hold the newly stored type afterwards"
                if bad:
                    break
            if bad:
                rep.violates(R, lab, "lifetime typestate", where=d.where(fn), scenario=sname, detail=bad)
            else:
                rep.holds(R, lab, "lifetime typestate", where=d.where(fn), scenario=sname,
                          detail="%d outcome(s): %s" % (len(outs), ", ".join(sorted({o for o, _ in outs}))))


# ---------------------------------------------------------------------------------------------------------------------
# C06.cast
def rule_consume_first(rep, d, cls):
    """assignment from another any: the previous content of *this may own the source (parent = std::move(child_of_parent)), so it must not be destroyed
    before the source has been taken into a temporary - along every path"""
    R = "C06.life"
    for fn in members(d, cls):
        if fn.get("name") != "operator=" or ir.is_template_pattern(d, fn) or not ir.params(fn) or not ir.has_body(fn):
            continue
        pq = ir.qtype(ir.params(fn)[0])
        if "any" not in pq.replace("xtl::", "").split("&")[0].split():
            continue
        pname = ir.params(fn)[0].get("name")
        label = "any::operator=(%s)" % pq.replace("xtl::", "")
        bad = None
        npaths = 0
        for path in flow.function_paths(fn, with_ctor_inits=False, events=lambda n: n.get("kind") in ("CXXConstructExpr", "CXXTemporaryObjectExpr")):
            consumed = False
            npaths += 1
            for st in path:
                node = st[1] if st[0] in ("ev", "decl") and len(st) > 1 and isinstance(st[1], dict) else None
                if node is None:
                    continue
                # the source taken into a temporary / local any
                for x in [node] + list(ir.walk_expr(node)):
                    if x.get("kind") in ("CXXConstructExpr", "CXXTemporaryObjectExpr", "CXXFunctionalCastExpr", "VarDecl") and "any" in ir.qtype(x).replace("xtl::", "").split() \
                            and any(y.get("kind") == "DeclRefExpr" and (y.get("referencedDecl") or {}).get("name") == pname for y in ir.walk_expr(x)):
                        consumed = True
                if st[0] != "ev":
                    continue
                t = ir.sx(node)
                destroys = False
                if node.get("kind") == "CXXMemberCallExpr" and t[0] == "call" and t[1][0] == "mem":
                    if t[1][1] == ("this",) and t[1][2] in ("clear", "reset"):
                        destroys = True
                    if t[1][2] == "destroy" and t[1][1] in (("mem", ("this",), "vtable"), ("ref", "vtable")):
                        destroys = True
                if node.get("kind") == "BinaryOperator" and node.get("opcode") == "=" and t[2] in (("mem", ("this",), "vtable"), ("ref", "vtable")):
                    destroys = True
                if destroys and not consumed and bad is None:
                    bad = (node, "`%s` destroys or overwrites the content of *this before the source has been taken into a temporary: when that content owns the source "
                                 "(parent = std::move(child held by parent)) the source is destroyed first and then read" % d.text(node)[:50])
        if bad:
            rep.violates(R, label, "source consumed before the old content is destroyed", where=d.where(bad[0]), detail=bad[1])
        else:
            rep.holds(R, label, "source consumed before the old content is destroyed", where=d.where(fn), detail="%d path(s)" % npaths)


def rule_cast(rep, d, cls):
    R = "C06.cast"
    seenp = set()
    for f in ir.functions(d, "any_cast"):
        if ir.is_template_pattern(d, f):
            continue
        ps = ir.params(f)
        if len(ps) != 1:
            continue
        pq = ir.qtype(ps[0])
        pname = ps[0].get("name")
        form = ("const any*" if "const" in pq else "any*") if "*" in pq else ("const any&" if "const" in pq else ("any&&" if "&&" in pq else "any&"))
        if form in seenp:
            continue
        seenp.add(form)
        lab = "any_cast<T>(%s)" % form
        paths = flow.function_paths(f, with_ctor_inits=False)
        T = norm_type(ir.template_args(f)[0]) if ir.template_args(f) else "?"
        if "*" in pq:
            # compositional: (1) in any_cast every member call on the operand lies on a path that established operand != nullptr and the other
            # paths yield nullptr; (2) in whichever function the storage cast `cast<T>()` is called - any_cast itself or a member it delegates to -
            # that call lies on a path that established is_typed(typeid(T)) and the other paths yield nullptr
            bad = None
            ncast = 0
            NULLP = ("lit", "nullptr")
            PR = ("ref", pname)

            def uncast_(t):
                while t[0] == "cast":
                    t = t[3]
                return t

            def analyse(g, need_null, who, depth=0):
                """-> (bad or None, number of paths that reach the storage cast)"""
                reach = 0
                for path in flow.function_paths(g, with_ctor_inits=False):
                    conds = {}
                    for s_ in path:
                        if s_[0] == "cond":
                            conds[uncast_(ir.sx(s_[1]))] = (s_[2], s_[1])

                    def truth(op, a_, b_):
                        return conds.get(("bin", op, a_, b_), (None,))[0]
                    null_ok = (not need_null) or (truth("==", PR, NULLP) is False or truth("==", NULLP, PR) is False or truth("!=", PR, NULLP) is True or truth("!=", NULLP, PR) is True
                                                   or conds.get(PR, (None,))[0] is True)
                    typed = [(v, nd) for t, (v, nd) in conds.items() if t[0] == "call" and t[1][0] == "mem" and t[1][2] == "is_typed"]
                    typed_ok = any(v is True for v, nd in typed)
                    for v, nd in typed:
                        for x in [x for x in ir.walk_expr(nd) if x.get("kind") == "CXXTypeidExpr"]:
                            ta = norm_type(((x.get("typeArg") or {}).get("qualType")) or "")
                            if ta.replace("const ", "") not in (T.replace("const ", ""), "T"):
                                return ((nd, "the type test does not use typeid(T)"), reach)
                    ret = path[-1]
                    if ret[0] != "return":
                        return ((g, "a path of %s does not return" % who), reach)
                    reached = False
                    for s_ in path:
                        if s_[0] != "ev" or s_[1].get("kind") != "CXXMemberCallExpr":
                            continue
                        t = ir.sx(s_[1])
                        if t[0] != "call" or t[1][0] != "mem":
                            continue
                        base, mname = uncast_(t[1][1]), t[1][2]
                        on_operand = base == PR or (not need_null and base == ("this",))
                        if not on_operand or mname in ("is_typed", "type", "empty", "has_value", "is_same"):
                            continue
                        if not null_ok:
                            return ((s_[1], "`%s` is called through the operand on a path that did not establish `operand != nullptr`" % mname), reach)
                        if mname == "cast":
                            if not typed_ok:
                                return ((s_[1], "the stored object is handed out on a path that did not establish `is_typed(typeid(T))`"), reach)
                            reached = True
                        else:
                            callee = d.by_id.get(ir.strip(ir.ekids(s_[1])[0]).get("referencedMemberDecl"))
                            if callee is None or not ir.has_body(callee) or depth > 2:
                                return ((s_[1], "the operand is handed to `%s`, which is not followed" % mname), reach)
                            if typed_ok and any(x.get("kind") == "CXXMemberCallExpr" and ir.sx(x)[0] == "call" and ir.sx(x)[1][0] == "mem" and ir.sx(x)[1][2] == "cast" for x in ir.walk_expr(callee)):
                                reached = True            # the type test was made by the caller
                            else:
                                b2, r2 = analyse(callee, False, "any::" + mname, depth + 1)
                                if b2:
                                    return (b2, reach)
                                reached = reached or r2 > 0
                    if reached:
                        reach += 1
                    else:
                        # the value returned on this path: nullptr, possibly as the arm of a ?: chosen by the path's conditions
                        def chosen(n_):
                            n_ = ir.strip(n_)
                            if n_.get("kind") == "ConditionalOperator":
                                kk = ir.ekids(n_)
                                def cval(tc):
                                    """truth of a condition on this path from its atomic conditions (short-circuit: an operand that was not reached is not needed)"""
                                    tc = uncast_(tc)
                                    if tc[0] == "un" and tc[1] == "!":
                                        v2 = cval(tc[2])
                                        return None if v2 is None else (not v2)
                                    if tc[0] == "bin" and tc[1] in ("&&", "||"):
                                        va = cval(tc[2])
                                        if va is None:
                                            return None
                                        if (tc[1] == "&&" and not va) or (tc[1] == "||" and va):
                                            return va
                                        return cval(tc[3])
                                    return conds.get(tc, (None,))[0]
                                v_ = cval(ir.sx(kk[0]))
                                if v_ is None:
                                    return None
                                return chosen(kk[1] if v_ else kk[2])
                            return n_
                        rv_ = chosen(ir.ekids(ret[1])[0]) if ir.ekids(ret[1]) else None
                        if rv_ is None or uncast_(ir.sx(rv_)) != NULLP:
                            return ((ret[1], "a path of %s that does not reach the stored object returns `%s`, expected nullptr" % (who, d.text(rv_)[:40] if rv_ is not None else "?")), reach)
                return (None, reach)
            bad, ncast = analyse(f, True, "any_cast")
            if bad:
                rep.violates(R, lab, "type check dominates the storage cast", where=d.where(bad[0]), detail=bad[1])
            elif ncast == 0:
                rep.inconclusive(R, lab, "type check dominates the storage cast", where=d.where(f), detail="no path returns operand->cast<T>()")
            else:
                rep.holds(R, lab, "type check dominates the storage cast", where=d.where(f), detail="%d path(s) reach the stored object, each after the null and type tests" % ncast)
        else:
            bad = None
            for path in paths:
                checked = None
                for s in path:
                    if s[0] == "ev" and s[1].get("kind") == "CallExpr":
                        t = ir.sx(s[1])
                        if t[1] == ("ref", "check_any_cast") and len(t) == 3:
                            checked = t[2]
                    if s[0] == "return":
                        rt = ir.sx(ir.ekids(s[1])[0])
                        derefs = [x for x in ir.subterms(rt) if x[0] == "un" and x[1] == "*"] + ([rt] if rt[0] == "call" and rt[1] == ("ref", "any_cast_move_if_true") else [])
                        if not derefs:
                            bad = (s[1], "does not return the pointed-to object")
                        for x in derefs:
                            ptr = x[2]
                            if checked is None or (ptr != checked and not (ptr[0] == "cast" and ptr[3] == checked)):
                                bad = (s[1], "dereferences `%s` without a preceding check_any_cast on it" % ir.show(ptr))
            if bad:
                rep.violates(R, lab, "null result is turned into bad_any_cast", where=d.where(bad[0]), detail=bad[1])
            else:
                rep.holds(R, lab, "null result is turned into bad_any_cast", where=d.where(f), detail="%d paths" % len(paths))
    # check_any_cast itself
    for f in ir.functions(d, "check_any_cast"):
        paths = flow.function_paths(f, with_ctor_inits=False)
        p = ir.params(f)[0].get("name")
        bad = None
        for path in paths:
            isnull = None
            for s in path:
                if s[0] == "cond":
                    t = ir.sx(s[1])
                    if t in (("bin", "==", ("ref", p), ("lit", "nullptr")), ("bin", "==", ("lit", "nullptr"), ("ref", p))):
                        isnull = s[2]
                    elif t in (("bin", "!=", ("ref", p), ("lit", "nullptr")), ("bin", "!=", ("lit", "nullptr"), ("ref", p))):
                        isnull = not s[2]
                    elif t == ("ref", p):
                        isnull = not s[2]
            end = path[-1]
            if isnull is True:
                ok = end[0] == "escape" and end[1] is not None and end[1].get("kind") == "CXXThrowExpr" and "bad_any_cast" in ir.qtype(ir.ekids(end[1])[0])
                if not ok:
                    bad = "a null pointer does not lead to `throw bad_any_cast()`"
            elif isnull is False:
                if end[0] == "escape":
                    bad = "throws for a non-null pointer"
            else:
                bad = "a path does not test the pointer"
        (rep.violates if bad else rep.holds)(R, "detail::check_any_cast", "throws bad_any_cast exactly for nullptr", where=d.where(f), **({"detail": bad} if bad else {}))
    # type() / is_typed() / is_same() / empty() / has_value(): evaluated for an empty and for a non-empty any along every path, so any equivalent
    # spelling (negation, early return, the sibling predicate) is accepted and any other mapping is not
    mem_by = {}
    for f in members(d, cls):
        mem_by.setdefault(f.get("name"), f)
    NULL, VT = "nullptr", "a vtable"

    def uncast(t):
        while t[0] == "cast":
            t = t[3]
        return t

    def evalx(t, vt, linit, depth=0):
        t = uncast(t)
        k = t[0]
        if t == ("mem", ("this",), "vtable"):
            return vt
        if t == ("lit", "nullptr"):
            return NULL
        if k == "lit" and t[1] in ("true", "false"):
            return t[1] == "true"
        if k == "ref" and t[1] in linit:
            return evalx(linit[t[1]], vt, linit, depth)
        if k == "call" and t[1][0] == "mem" and t[1][1] == ("this",) and t[1][2] in ("empty", "has_value") and len(t) == 2 and depth < 4 and t[1][2] in mem_by:
            return run_fn(mem_by[t[1][2]], vt, depth + 1)
        if k == "un" and t[1] == "!":
            v = evalx(t[2], vt, linit, depth)
            if v in (NULL, VT):
                v = v == VT
            return (not v) if isinstance(v, bool) else None
        if k == "bin" and t[1] in ("&&", "||"):
            x = evalx(t[2], vt, linit, depth)
            if x in (NULL, VT):
                x = x == VT
            if not isinstance(x, bool):
                return None
            if x == (t[1] == "||"):
                return x
            y = evalx(t[3], vt, linit, depth)
            return (y == VT) if y in (NULL, VT) else y
        if k == "bin" and t[1] in ("==", "!="):
            x, y = evalx(t[2], vt, linit, depth), evalx(t[3], vt, linit, depth)
            if x not in (NULL, VT) or y not in (NULL, VT) or (x == VT and y == VT):
                return None
            return (x == y) == (t[1] == "==")
        if k == "cond":
            c = evalx(t[1], vt, linit, depth)
            if c in (NULL, VT):
                c = c == VT
            return evalx(t[2] if c else t[3], vt, linit, depth) if isinstance(c, bool) else None
        return None

    def feasible_returns(fn, vt, depth=0):
        """[(return node, linit)] of the paths that are feasible for this vtable state; None if a condition is not evaluable"""
        linit = {}
        for x in ir.walk_expr(fn):
            if x.get("kind") == "VarDecl" and ir.ekids(x):
                linit[x.get("name")] = ir.sx(ir.ekids(x)[-1])
        outs = []
        for path in flow.function_paths(fn, with_ctor_inits=False):
            feas = True
            for s_ in path:
                if s_[0] == "cond":
                    v = evalx(ir.sx(s_[1]), vt, linit, depth)
                    if v in (NULL, VT):
                        v = v == VT
                    if not isinstance(v, bool):
                        return None, linit
                    if v != s_[2]:
                        feas = False
                        break
            if feas:
                outs.append(path)
        return outs, linit

    def run_fn(fn, vt, depth=0):
        paths, linit = feasible_returns(fn, vt, depth)
        if paths is None:
            return None
        got = set()
        for path in paths:
            if path[-1][0] != "return" or not ir.ekids(path[-1][1]):
                return None
            rt = ir.sx(ir.ekids(path[-1][1])[0])
            v = evalx(rt, vt, linit, depth)
            if v in (NULL, VT):
                v = v == VT
            if v is None:
                lastc = [s_ for s_ in path if s_[0] == "cond"]
                v = lastc[-1][2] if lastc and uncast(rt)[0] == "bin" and uncast(rt)[1] in ("&&", "||") else None
            got.add(v)
        return got.pop() if len(got) == 1 else None

    for nm, want in (("empty", {NULL: True, VT: False}), ("has_value", {NULL: False, VT: True})):
        f = mem_by.get(nm)
        if f is None:
            continue
        for vt in (NULL, VT):
            g = run_fn(f, vt)
            ok = g is want[vt]
            (rep.holds if ok else rep.violates)(R, "any::" + nm, "defining shape", where=d.where(f), scenario="vtable is %s" % vt,
                                                **({} if ok else {"detail": "yields %s when the vtable pointer is %s" % ("something not evaluable" if g is None else g, vt)}))
    shapes = {
        "is_same": [("bin", "==", ("ref", "a"), ("ref", "b")), ("bin", "==", ("un", "&", ("ref", "a")), ("un", "&", ("ref", "b")))],
    }
    for f in members(d, cls):
        nm = f.get("name")
        if nm == "is_same":
            b = ir.body(f)
            rets = [x for x in ir.walk_expr(b) if x.get("kind") == "ReturnStmt"]
            got = ir.sx(ir.ekids(rets[0])[0]) if len(rets) == 1 else None
            if got is not None and got[0] == "call" and got[1][0] == "mem" and got[1][1] != ("this",) and got[1][2].startswith("operator"):
                got = ("bin", got[1][2][len("operator"):], got[1][1]) + tuple(got[2:])
            if got is not None and got[0] == "bin" and got[1] == "==" and (got[0], got[1], got[3], got[2]) in shapes[nm]:
                got = (got[0], got[1], got[3], got[2])
            if got in shapes[nm]:
                rep.holds(R, "any::" + nm, "defining shape", where=d.where(f))
            else:
                rep.violates(R, "any::" + nm, "defining shape", where=d.where(f), detail="returns `%s`" % (ir.show(got) if got else "?"))
        if nm == "is_typed":
            pn = ir.params(f)[0].get("name") if ir.params(f) else "t"
            linit = {}
            for x in ir.walk_expr(f):
                if x.get("kind") == "VarDecl" and ir.ekids(x):
                    linit[x.get("name")] = uncast(ir.sx(ir.ekids(x)[-1]))
            rets = [x for x in ir.walk_expr(ir.body(f)) if x.get("kind") == "ReturnStmt"]
            got = uncast(ir.sx(ir.ekids(rets[0])[0])) if len(rets) == 1 else None
            if got is not None and got[0] == "call" and got[1][0] == "mem" and got[1][1] != ("this",) and got[1][2].startswith("operator"):
                got = ("bin", got[1][2][len("operator"):], got[1][1]) + tuple(got[2:])
            ops = None
            if got is not None and got[0] == "call" and got[1] in (("ref", "is_same"), ("mem", ("this",), "is_same")) and len(got) == 4:
                ops = [got[2], got[3]]
            elif got is not None and got[0] == "bin" and got[1] == "==":
                ops = [got[2], got[3]]
            if ops is not None:
                ops = [uncast(x) for x in ops]
                ops = [linit.get(x[1], x) if x[0] == "ref" else x for x in ops]
            def like_type(x):
                """x is this->type(), or evaluates to typeid(void) for an empty any and to vtable->type() otherwise"""
                if x == ("call", ("mem", ("this",), "type")):
                    return True
                for vt in (NULL, VT):
                    y = x
                    for _ in range(4):
                        y = uncast(y)
                        if y[0] == "cond":
                            c_ = evalx(y[1], vt, linit)
                            if c_ in (NULL, VT):
                                c_ = c_ == VT
                            if not isinstance(c_, bool):
                                return False
                            y = y[2] if c_ else y[3]
                        else:
                            break
                    y = uncast(y)
                    tids_ = [((x_.get("typeArg") or {}).get("qualType")) for x_ in ir.walk_expr(f) if x_.get("kind") == "CXXTypeidExpr"]
                    if vt == NULL and not (y[0] == "typeid" and tids_ and all(q_ == "void" for q_ in tids_)):
                        return False
                    if vt == VT and not (y[0] == "call" and y[1] == ("mem", ("mem", ("this",), "vtable"), "type")):
                        return False
                return True
            ok = ops is not None and len(ops) == 2 and ((ops[1] == ("ref", pn) and like_type(ops[0])) or (ops[0] == ("ref", pn) and like_type(ops[1])))
            (rep.holds if ok else rep.violates)(R, "any::is_typed", "defining shape", where=d.where(f), **({} if ok else {"detail": "returns `%s`, expected the comparison of type() with the argument" % (ir.show(got) if got else "?")}))
        if nm == "type":
            bad = None
            for vt in (NULL, VT):
                paths, linit = feasible_returns(f, vt)
                if paths is None or not paths:
                    bad = "conditions of type() are not evaluable for a %s vtable pointer" % vt
                    break
                for path in paths:
                    end = path[-1]
                    if end[0] != "return" or not ir.ekids(end[1]):
                        bad = "a path does not return"
                        break

                    def chosen(n_):
                        n_ = ir.strip(n_)
                        if n_.get("kind") == "ConditionalOperator":
                            kk = ir.ekids(n_)
                            c_ = evalx(ir.sx(kk[0]), vt, linit)
                            if c_ in (NULL, VT):
                                c_ = c_ == VT
                            return None if not isinstance(c_, bool) else chosen(kk[1] if c_ else kk[2])
                        return n_
                    rv = chosen(ir.ekids(end[1])[0])
                    if rv is None:
                        bad = "the returned arm is not decidable for a %s vtable pointer" % vt
                        break
                    if vt == NULL:
                        ta = [x for x in ir.walk_expr(rv) if x.get("kind") == "CXXTypeidExpr"] + ([rv] if rv.get("kind") == "CXXTypeidExpr" else [])
                        if not (ta and ((ta[0].get("typeArg") or {}).get("qualType")) == "void"):
                            bad = "an empty any reports `%s`, expected typeid(void)" % d.text(rv)[:50]
                    else:
                        tb = uncast(ir.sx(rv))
                        if not (tb[0] == "call" and tb[1] == ("mem", ("mem", ("this",), "vtable"), "type")):
                            bad = "a non-empty any reports `%s`, expected this->vtable->type()" % d.text(rv)[:50]
                if bad:
                    break
            (rep.violates if bad else rep.holds)(R, "any::type", "typeid(void) when empty, else the vtable's type()", where=d.where(f), **({"detail": bad} if bad else {}))


# ---------------------------------------------------------------------------------------------------------------------
SELECT_DRIVER = r"""
#include "xtl/xany.hpp"
#include <utility>
#include <vector>
namespace xtl { namespace wx_sel {
inline void use(any& a, const any& ca, any&& ra, const any&& cra)
{
    any c1(a); any c2(ca); any c3(std::move(ra)); any c4(std::move(cra)); any c5(std::move(ca));
    any t; t = a; t = ca; t = std::move(ra); t = std::move(cra);
    any v1(1); any v2(std::vector<int>{1, 2}); t = 2; t = std::vector<int>{3};
}
} }
"""


def rule_select(rep, std):
    """an any built or assigned from another any - whatever its constness and value category - is a COPY or a MOVE of that any (the special members), never
    the converting template with ValueType = [const] any, which would store an any inside an any (or recurse); values of other types take the template.
    clang resolved the overloads; the constructor types it recorded are compared.  And the payload is direct-initialised `T(value)`: list-initialisation
    would prefer an initializer_list constructor (a vector<any> holding itself)."""
    rep.rule("C06.sel", "any(x) / a = x with x an any of any constness and value category selects the copy or move special member, never the converting template; "
                        "other values select the template; the payload is direct-initialised (parentheses), not list-initialised")
    d = cj.dump(SELECT_DRIVER, "xtl::", std=std)
    rep.cmd(d.cmd)
    use = [f for f in ir.functions(d, repo_only=False) if f.get("name") == "use" and len(ir.params(f)) == 4]
    if not use:
        rep.inconclusive("C06.sel", "driver", "overload selection", detail="driver function not found")
        return
    n = 0
    for v in ir.walk_expr(ir.body(use[0])):
        if v.get("kind") != "VarDecl" or not ir.ekids(v):
            continue
        e = ir.ekids(v)[-1]
        ce = None
        for x in [ir.strip(e)] + list(ir.walk_expr(e)):
            if x.get("kind") == "CXXConstructExpr" and "any" in ir.qtype(x):
                ce = x
                break
        if ce is None or not ir.ekids(ce):
            continue
        ct = re.sub(r"\s+", " ", (ce.get("ctorType") or {}).get("qualType", ""))
        name = v.get("name")
        from_any = name.startswith("c")
        n += 1
        special = re.match(r"^void \((const )?(xtl::)?any &&?\)( noexcept)?$", ct) is not None and "const xtl::any &&" not in ct and "const any &&" not in ct
        if from_any and not special:
            rep.violates("C06.sel", "any::any", "construction from another any", where=d.where(v), scenario=re.sub(r"\s+", " ", d.text(v))[:50],
                         detail="selects `%s`: the converting template takes the any as a payload (an any stored inside an any, or unbounded recursion through construct) instead of copying it" % ct)
        elif not from_any and special:
            rep.violates("C06.sel", "any::any", "construction from a value", where=d.where(v), scenario=re.sub(r"\s+", " ", d.text(v))[:50], detail="selects `%s`" % ct)
        else:
            rep.holds("C06.sel", "any::any", "construction from %s" % ("another any" if from_any else "a value"), where=d.where(v), scenario=re.sub(r"\s+", " ", d.text(v))[:50], detail=ct)
    for x in ir.walk_expr(ir.body(use[0])):
        if x.get("kind") == "CXXOperatorCallExpr" and len(ir.ekids(x)) == 3:
            cal = ir.strip(ir.ekids(x)[0])
            while cal.get("kind") == "ImplicitCastExpr" and ir.ekids(cal):
                cal = ir.strip(ir.ekids(cal)[0])
            rd = cal.get("referencedDecl") or {}
            if rd.get("name") != "operator=":
                continue
            ct = re.sub(r"\s+", " ", (rd.get("type") or {}).get("qualType", ""))
            rhs_t = ir.qtype(ir.ekids(x)[2])
            from_any = re.search(r"(^|[ :])any( |$|&)", rhs_t.replace("const ", "")) is not None
            special = re.match(r"^(xtl::)?any &\((const )?(xtl::)?any &&?\)( noexcept)?$", ct) is not None and "const xtl::any &&" not in ct and "const any &&" not in ct
            n += 1
            txt = re.sub(r"\s+", " ", d.text(x))[:50]
            if from_any and not special:
                rep.violates("C06.sel", "any::operator=", "assignment from another any", where=d.where(x), scenario=txt, detail="selects `%s`: the any is stored as a payload instead of being copied" % ct)
            elif not from_any and special:
                rep.violates("C06.sel", "any::operator=", "assignment from a value", where=d.where(x), scenario=txt, detail="selects `%s`" % ct)
            else:
                rep.holds("C06.sel", "any::operator=", "assignment from %s" % ("another any" if from_any else "a value"), where=d.where(x), scenario=txt, detail=ct)
    if n < 10:
        rep.broke("C06.sel: only %d constructions/assignments resolved in the driver (13 expected)" % n)
    # initialisation style of the payload
    news = []
    for f in ir.functions(d):
        # the new-expressions that build the payload from the user's value: in construct() or in the helpers it hands the forwarded value to
        if ir.is_template_pattern(d, f) and "xany" in (d.where(f) or ""):
            news += [(f, x) for x in ir.walk_expr(f) if x.get("kind") == "CXXNewExpr" and (f.get("name") == "construct" or "forward<" in d.text(x).replace(" ", ""))]
    if not news:
        rep.inconclusive("C06.sel", "any::construct", "payload initialisation style", detail="no new-expression found in the pattern of construct")
    for f, x in news:
        style = x.get("initStyle")
        lab = "placement" if x.get("isPlacement") else "heap"
        if style == "list":
            rep.violates("C06.sel", "any::construct", "payload initialisation style", where=d.where(x), scenario=lab,
                         detail="`%s` list-initialises the payload: a type with an initializer_list constructor whose element type is constructible from the type itself "
                                "(vector<any>, json) stores a one-element list holding the value instead of a copy of the value" % re.sub(r"\s+", " ", d.text(x))[:60])
        elif style == "call":
            rep.holds("C06.sel", "any::construct", "payload initialisation style", where=d.where(x), scenario=lab, detail="direct initialisation")
        else:
            rep.inconclusive("C06.sel", "any::construct", "payload initialisation style", where=d.where(x), scenario=lab, detail="initStyle %s" % style)


def run(tier):
    rep = Report("C06", tier, "other",
                 "Structural necessary conditions of xtl::any decided on the resolved AST: (slot) each function stored in a vtable slot is "
                 "executed abstractly on storages holding object identities - destroy/copy/move/swap of both families must have the slot's "
                 "effect summary, with every object owned by exactly one storage and destroyed at most once; (life) every member of any is "
                 "simulated under all scenarios {this empty/holds A} x {rhs empty/holds A/holds B/is *this}, following calls into its own "
                 "members, constructors of temporaries and their destructors, with exceptional successors at the copy slot and the payload "
                 "constructor: the vtable pointer and the storage must agree at every exit, nothing is constructed over a live object or "
                 "destroyed twice, slots are called through the vtable of the stored type, assignments that throw leave *this untouched, and "
                 "presence/type postconditions (copy, move, swap, reset) hold; (rw) for 11 payload types on both sides of the threshold the "
                 "trait, construct(), vtable_for_type() and cast<T>/cast<const T> agree; (cast) the pointer casts hand out storage only "
                 "after the null and typeid tests and the reference casts go through check_any_cast.  Equality of stored VALUES is not decided.",
                 trusted_base=["clang 14 resolved AST", "sa/flow.py", "the object-identity typestate interpreters in sa/rules/c06.py"],
                 assumptions=["payload constructors/destructors do what their names say", "x86-64: two-word in-place buffer, 8-byte alignment"])
    rep.rule("C06.slot", "destroy: L->D; copy: (L,D)->(L,L') without touching the source; move: (L,D)->(D,L); swap exchanges the two values; every created "
                         "object is owned by exactly one storage at exit or destroyed exactly once - for vtable_stack and vtable_dynamic alike")
    rep.rule("C06.life", "in every member of any, under every presence/type/alias scenario and at every normal or exceptional exit: vtable null <=> storage "
                         "dead, vtable type == stored type, no construction over a live object, no use of a dead one, temporaries destroyed; copy/move/"
                         "swap/reset/assignment have their presence/type postcondition; a throwing assignment leaves *this unmodified")
    rep.rule("C06.rw", "requires_allocation<T>, the branch taken by construct<T>, the vtable family and slot order chosen by vtable_for_type<T> and the "
                       "storage read by cast<T> and cast<const T> agree with each other and with the in-place rule (nothrow move, size <= 2 words, alignment <= word)")
    rep.rule("C06.cast", "any_cast<T>(any*) returns storage only when operand != nullptr and operand->is_typed(typeid(T)), else nullptr; reference forms "
                         "dereference only after check_any_cast, which throws bad_any_cast exactly for nullptr; type()/is_typed()/empty() have their defining shape")
    for std in (["gnu++17"] if tier == "quick" else ["gnu++17", "gnu++14", "gnu++20"]):
        d = cj.dump(driver(), "xtl::", std=std)
        rep.cmd(d.cmd)
        cls = any_class(d)
        rep.unit("class xtl::any (-std=%s): %d member definitions; %d payload types" % (std, len(members(d, cls)), len(PAYLOADS)))
        rule_rw(rep, d, cls)
        selfswap = rule_slot(rep, d, cls)
        rep.note("self-swap safety of the swap slots: %s" % selfswap)
        rule_life(rep, d, cls, selfswap)
        rule_consume_first(rep, d, cls)
        rule_cast(rep, d, cls)
        rule_select(rep, std)
    return rep
